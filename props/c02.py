"""C02 - mesh construction normalises raw data, whatever its form (S2 x config x S1 for rebuild).

Raw inputs are assembled compositionally and exhaustively (vertex count x ordered list of declared edges over an
alphabet of valid / reversed / self-loop / out-of-range / negative pairs x face menu x cell menu x edge attributes
x pre-filled corner containers x the two completion switches), pushed through every entry point (RawMeshData +
``_instanciate_raw_mesh_data``, RawMeshData + class constructor, ``from_arrays`` with 3-D and 2-D points, a text
file in every format + ``load``) with index rows given as lists, tuples or numpy rows, and the finished object is
compared clause by clause with a reference normaliser written from the statement (mc/c02_lib.py).  Every built
mesh is then built again from itself (class constructor, then ``_instanciate_raw_mesh_data`` on the result) and
must not change.  List-, tuple- and numpy-built twins are finally run through a fixed battery of later behaviours
(connectivity queries, save into every text format, copy, merge, subdivisions) and must answer alike.

Clauses of the statement -> subchecks
    C02.build.completes            the entry point returns a finished object
    C02.vertices                   3-D Vec vertices with the declared coordinates (2-D points padded by from_arrays)
    C02.edges.invalid_dropped      self-loops / out-of-range / negative pairs are not in the edge list
    C02.edges.low_first            every edge is stored low index first
    C02.edges.exactly_once         no edge twice
    C02.edges.declared_kept        every valid declared edge is there
    C02.edges.face_sides           every side of every face is there (completion on)
    C02.edges.no_extra             nothing else is there
    C02.edges.declared_order       the declared edges come first, in declared order (planned oracle, DESIGN O)
    C02.edge_attr.kept             surviving declared edges keep their attribute values
    C02.edge_attr.dropped          values of dropped edges are not found on any other edge
    C02.faces.declared             declared faces are kept as given
    C02.faces.completed            4 triangles per tet / 6 quads per hex, a shared or pre-declared face once
    C02.face_corners               one record per face-vertex incidence in element order, vertex and face (kind says which)
    C02.cell_corners               one record per cell-vertex incidence in element order, vertex and cell
    C02.cell_faces                 one record per cell-face incidence in element order, face and cell
    C02.class                      class of the highest-dimensional element present
    C02.hard_edges.only_declared   no completed edge is flagged
    C02.hard_edges.declared_flagged  declared edges are flagged when completed ones exist
    C02.rebuild.<container>        building again (once / twice) from the built mesh changes nothing
                                   (also: after an empty editing block, after two edits)
    ...|file_form:<form>           the same clauses on a file written in another form the format allows (mc/c02_hist.py)
    ...|switches_changed_between_constructions   the same clauses on a mesh built again under other completion switches
    ...|after_edit                 the clauses the containers determine by themselves, after an edit + construction
    C02.rows_independence.*        list / tuple / numpy twins: same content, same later behaviour
"""
from __future__ import annotations
import os, shutil, tempfile, traceback
from mc.core import Report
from mc import c02_lib as L
from mc import c02_hist as H

ID = "C02"
TECHNIQUE = "bounded-exhaustive input family x entry points x config vs reference normaliser; differential twins"
RULE = ("every raw input of the compositional family (vertex count x ordered list of distinct declared edges over the "
        "alphabet {valid, reversed, diagonal, self-loop, index==n, index>n, negative} x face menu x cell menu x edge "
        "attributes none/sparse/partly sparse/sparse with custom default/dense scalar/dense vector x corner containers absent/pre-filled x completion switches {T,F}^2) "
        "is built through every entry point and row container type, rebuilt from itself twice, and compared clause by "
        "clause with a reference normaliser; a case is one distinct (input, entry point, row type, switches); "
        "non-trivial = at least one edge, face or cell declared. Round 5 adds three dimensions (mc/c02_hist.py): FILE FORMS - "
        "every harness-written file also in the other forms its reader handles (medit: Dimension 2 with vertex lines x y ref, "
        "non-trivial reference columns, keyword and count on one line; OBJ: weight column and comments; OFF: counts on the "
        "keyword line and comments; xyz: leading count line); SWITCH HISTORIES - every menu input and every subset of the faces "
        "of the cells as the caller's face list, built under one setting of the completion switches and built again under "
        "every other setting, then a third time (each stage = normal form, under its switches, of what the stage before "
        "left); EDIT HISTORIES - every built menu mesh edited through every public route that constructs again (empty "
        "Surface/VolumeSubdivision block, each block operation on each element, split_edge on each edge, RawMeshData(mesh) "
        "+ clear() of the corner containers + appended vertex and element(s) + construction), all sequences of <= 2 steps on "
        "one object, the container-determined clauses judged after every step and a final construction required to change "
        "nothing")
ASSUMPTIONS = [
    "vertex coordinates are dyadic rationals from two fixed point tables (generic position; two stacked unit cubes in "
    "the usual hexahedron numbering): construction never looks at geometry, the battery does and the twins share it",
    "the same undirected edge is never declared twice (the statement does not say whether repeats are merged); faces and "
    "cells only use existing vertices; cells have 4 or 8 vertices, the hexahedron numbering is the usual one "
    "(bottom ring 0-3, top ring 4-7, vertical edges i -> i+4)",
    "order and starting vertex / orientation of *completed* faces and order of *completed* edges are not compared "
    "(sets, polygons up to rotation and reversal); records of one cell in cell_faces are compared as a set per cell",
    "from_arrays refusing (raising from its own body) an edge array with an index >= number of vertices is accepted as a "
    "documented rejection; 2-D points only go through from_arrays (documented padding)",
    "file entry point: the text is written by the harness' own minimal writers and only contains what mouette's reader "
    "of that format documents (OFF: triangles; .tet: tetrahedra; .mesh: edges, triangles, quads, tets, hexes; obj: "
    "v/l/f; geogram_ascii: everything + one float edge attribute; xyz: points); no negative index in files",
    "violations of a variant (other entry point / row type) are reported only when the baseline (RawMeshData + "
    "_instanciate_raw_mesh_data, list rows) of the same input does not already show the same clause and kind of "
    "deviation: one defect, one fingerprint",
    "twins battery: answers are compared after converting numpy scalars/arrays/tuples to plain lists; order of "
    "set-derived neighbour lists is not compared; each behaviour runs on freshly built twins; two twins that both raise "
    "are equal (exception classes are not compared) and the rest of that behaviour is not compared; failures of several "
    "behaviours that come from the same library function are reported once (first behaviour in battery order)",
    "a change made by rebuilding to a container that already deviates after the first build is folded into that first "
    "deviation (detail field and_after_rebuild), not reported as a second fingerprint",
    "save -> load: the expectation is the normal form of what the written file carries (medit/obj: hard edges only, "
    "medit blocks in the writer's order); a save() that raises is counted, not reported (C04 owns the writers); the "
    "hard-edge clauses are skipped for geogram_ascii files, which carry their own hard_edges attribute",
    "cell-face records when the face list lacks faces of the cells (completion off): the statement is read as 'no record at "
    "all' or 'exactly one record per incidence whose face is listed, cell by cell with its owner'; both are accepted, "
    "anything else (records of the leading cells only) is reported",
    "file forms: only forms that the reader of the format handles on purpose (a branch or comment in mouette/mesh/io) are "
    "written; a Dimension 2 medit file has no cells; reference columns hold 7+i (vertices) and 3+i (elements), never a "
    "coordinate value of the point tables",
    "switch histories: for the next construction the caller-declared edges of a built mesh are its flagged edges (all of "
    "its edges when it has no hard_edges attribute: nothing was completed so far); a history whose first construction "
    "already deviates is left to the clauses of the first construction (one defect, one fingerprint)",
    "edit histories: what an editing operation does to the element lists, to earlier edges and to the hard-edge flags "
    "belongs to C13; C02 judges on the result only what the containers determine by themselves (3-D Vec vertices; edges "
    "valid, low index first, once, every side of every face / every face of every cell when the completion is on; exact "
    "corner and cell-face records; class). The raw route mirrors what the library's own blocks do (RawMeshData(mesh), "
    "clear() of face_corners / cell_corners / cell_faces, append, construct) and is compared with the full reference of "
    "the enlarged input; an operation that raises is counted, not reported",
]
BOUNDS = {
    "quick": "8 face menus x 4 cell menus (none, tet, 2 tets sharing a face, hex) x {T,F}^2 switches (those that are read); "
             "all ordered lists of <= 2 distinct edge symbols over 6 symbols (37 lists); vertex count = needed (+1 for lists "
             "of <= 1 edge, baseline only; 0..4 without faces/cells); edge attributes none / sparse / partly sparse / sparse "
             "with custom default / dense scalar / dense vector; pre-filled corner containers (consistent; cell corners "
             "elements only) on attribute-free inputs; every input also through: class constructor, tuple rows, numpy rows, "
             "from_arrays 3-D/2-D, a harness-written file in 6 text formats, mouette save -> load in 6 text formats; every "
             "built mesh rebuilt twice; twins battery (about 60 behaviours) on the 32 menus x edge lists of <= 1 symbol, "
             "default switches; file forms: 3 medit + 1 OBJ + 1 OFF + 1 xyz form on every attribute-free input the format can "
             "declare; switch histories sw1 -> sw2 != sw1 -> sw1 over the settings the input reads, on the 31 menus with faces or "
             "cells x edge lists of <= 1 symbol x attributes none / sparse, and on all 16 + 128 + 64 subsets of the faces of tet / "
             "tet2 / hex x {no edge, one reversed edge with attributes}; edit histories on the 32 menus x edge lists of <= 1 symbol "
             "(row type list / tuple / numpy in rotation), default switches: every single step, every second step on every other "
             "edge list, final rebuild after two steps",
    "thorough": "8 face menus x 6 cell menus (+ tet+hex, 2 hexes sharing a face) x {T,F}^2; all ordered lists of <= 3 distinct "
                "edge symbols over 9 symbols (498 lists) for the baseline entry point (lists of 3: vertex count needed, "
                "attributes none / sparse / dense scalar), the 78 lists of <= 2 symbols for the other entry points / row "
                "types; vertex count needed and needed+1 (needed for class constructor / tuple / numpy rows); same attributes / "
                "corners / entry points as quick; twins battery on 48 menus x edge lists of <= 2 symbols, switches {T,F}^2; file "
                "forms as quick on the thorough inputs; switch histories sw1 -> sw2 != sw1 -> every sw3 on 47 menus x edge lists "
                "of <= 2 symbols x attributes none / sparse / sparse with custom default / dense, and on all subsets of the faces "
                "of the six cell menus (16, 128, 64, 1024, 2048); edit histories on 48 menus x edge lists of <= 1 symbol x "
                "switches {T,F}^2, all sequences of <= 2 steps",
}

DEFAULT_SW = (True, True)
FORMATS = ["mesh", "obj", "off", "tet", "xyz", "geogram_ascii"]
# "inst_peek": like "inst", but the public raw.dimensionality property is read while the data is being assembled (after
# the vertices and again after the edges): a lazily cached value must not survive later additions
VARIANTS = [("inst", "list"), ("ctor", "list"), ("inst_peek", "list"), ("inst", "tuple"), ("inst", "numpy"), ("arrays", "numpy"),
            ("arrays2d", "numpy")] + [("file:" + f, "list") for f in FORMATS] + [("saveload:" + f, "list") for f in FORMATS] \
    + [(e, "list") for e in H.FORM_ENTRIES]              # file forms (declared dimension, label columns, layout), mc/c02_hist.py


# ------------------------------------------------------------------------------------------------ tasks
def _applicable(entry, F, C):
    if entry in ("arrays", "arrays2d"):
        return len(set(len(f) for f in F)) <= 1 and len(set(len(c) for c in C)) <= 1
    if entry.startswith("file:"):
        fmt = H.split_entry(entry)[0]
        return L.format_can_declare(fmt, [], F, C) or (fmt in ("mesh", "obj", "geogram_ascii") and L.format_can_declare(fmt, [[0, 1]], F, C))
    if entry.startswith("saveload:"):
        fmt = entry[9:]
        ar_f, ar_c = set(len(f) for f in F), set(len(c) for c in C)
        return {"xyz": not F and not C, "tet": bool(C) and ar_c <= {4}, "off": not C and ar_f <= {3}, "obj": not C,
                "mesh": ar_f <= {3, 4}, "geogram_ascii": ar_c <= {4}}[fmt]
    return True


def tasks(tier):
    cells = L.CELL_QUICK if tier == "quick" else L.CELL_THOROUGH
    parts = 1 if tier == "quick" else 3
    out = []
    for cname in cells:
        for fname in L.FACE_MENU:
            F, C = L.FACE_MENU[fname], L.CELL_MENU[cname]
            for cE in (True, False):
                for cF in (True, False):
                    if not C and not cF:
                        continue                      # the switch is not read without cells
                    if not F and not C and not cE:
                        continue                      # nor this one without faces
                    for part in range(parts):
                        out.append({"kind": "norm", "F": fname, "C": cname, "cE": cE, "cF": cF, "tier": tier,
                                    "part": part, "parts": parts})
            sws = [(True, True)] if tier == "quick" else [(a, b) for a in (True, False) for b in (True, False)]
            for cE, cF in sws:
                if (not C and not cF) or (not F and not C and not cE):
                    continue
                out.append({"kind": "twins", "F": fname, "C": cname, "cE": cE, "cF": cF,
                            "maxlen": 1 if tier == "quick" else 2})
            # histories (mc/c02_hist.py): construction again under other completion switches; edits between two constructions
            if F or C:
                out.append({"kind": "flip", "F": fname, "C": cname, "tier": tier})
            for cE, cF in sws:
                if not C and not cF:
                    continue
                out.append({"kind": "edits", "F": fname, "C": cname, "cE": cE, "cF": cF, "tier": tier})
    # every subset of the faces of the cells as the caller's face list (16 per task)
    for cname in cells:
        nf = len(L.all_cell_faces(L.CELL_MENU[cname]))
        if nf == 0 or (tier == "quick" and nf > 7):
            continue
        for lo in range(0, 2 ** nf, 16):
            out.append({"kind": "subsets", "F": "sub", "C": cname, "masks": list(range(lo, min(lo + 16, 2 ** nf))), "tier": tier})
    # a few cheap representative tasks first (a violation is replayed on the first task that showed it), then the
    # expensive ones so that the pool stays balanced
    def rank(t):
        cheap = t["C"] in ("tet", "none") and t["F"] in ("tri", "none") and t.get("part", 0) == 0
        return (not cheap, t["C"] not in ("hex2", "tet_hex", "hex"), t["kind"] != "norm", t["C"] == "none", t["kind"])
    out.sort(key=rank)
    return out


# ------------------------------------------------------------------------------------------------ building
class Switches:
    def __init__(self, M, cE, cF):
        self.M, self.cE, self.cF = M, cE, cF

    def __enter__(self):
        c = self.M.config
        self.old = (c.complete_edges_from_faces, c.complete_faces_from_cells)
        c.complete_edges_from_faces, c.complete_faces_from_cells = self.cE, self.cF

    def __exit__(self, *a):
        c = self.M.config
        c.complete_edges_from_faces, c.complete_faces_from_cells = self.old


def _rows(data, rows, dtype):
    import numpy as np
    if rows == "list":
        return [list(r) for r in data]
    if rows == "tuple":
        return [tuple(r) for r in data]
    return [np.array(r, dtype=dtype) for r in data]


def make_raw(M, inp, rows, peek=False):
    from mouette.mesh.data_container import CornerDataContainer
    pts = L.CUBE_PTS if inp["pts"] == "CUBE" else L.G_PTS
    r = M.mesh.RawMeshData()
    V = [[float(c) for c in pts[i]] for i in range(inp["nv"])]
    r.vertices += _rows(V, rows, float)
    if peek:
        r.dimensionality
    r.edges += _rows(inp["E"], rows, int)
    if peek:
        r.dimensionality
    r.faces += _rows(inp["F"], rows, int)
    r.cells += _rows(inp["C"], rows, int)
    mode = inp["attr"]
    if mode != "none" and inp["E"]:
        dense = mode.startswith("dense")
        names = L.attr_names(mode)
        kw = {"default_value": L.CUSTOM_DEFAULT} if mode == "sparse_dflt" else {}
        w = r.edges.create_attribute("w", float, dense=dense, **kw) if "w" in names else None
        t = r.edges.create_attribute("tag", int, 2, dense=dense) if "tag" in names else None
        for i in L.attr_positions(mode, len(inp["E"])):
            if w is not None:
                w[i] = L.W_VALUE(i)
            if t is not None:
                t[i] = L.TAG_VALUE(i)
    pre = inp.get("prefill", "absent")
    if pre == "consistent":
        r.face_corners += [(v, i) for i, f in enumerate(inp["F"]) for v in f]
        r.cell_corners += [(v, i) for i, c in enumerate(inp["C"]) for v in c]
    elif pre == "cc_elem_only":
        r.cell_corners = CornerDataContainer(elem=[v for c in inp["C"] for v in c], id="cell_corners")
    return r


class Built:
    def __init__(self, mesh=None, exc=None, root=None, msg=None, rejected=False):
        self.mesh, self.exc, self.root, self.msg, self.rejected = mesh, exc, root, msg, rejected


def build(M, inp, entry, rows, tmp, wantcls):
    """One construction through one entry point, under the input's completion switches."""
    import numpy as np
    from mouette.mesh.mesh import _instanciate_raw_mesh_data
    try:
        with Switches(M, inp["cE"], inp["cF"]):
            if entry == "inst":
                return Built(_instanciate_raw_mesh_data(make_raw(M, inp, rows)))
            if entry == "inst_peek":
                return Built(_instanciate_raw_mesh_data(make_raw(M, inp, rows, peek=True)))
            if entry == "ctor":
                return Built(getattr(M.mesh, wantcls)(make_raw(M, inp, rows)))
            if entry in ("arrays", "arrays2d"):
                pts = L.CUBE_PTS if inp["pts"] == "CUBE" else L.G_PTS
                V = np.array([pts[i] for i in range(inp["nv"])], dtype=float).reshape(-1, 3)
                if entry == "arrays2d":
                    V = V[:, :2]
                E = np.array(inp["E"], dtype=int).reshape(-1, 2) if inp["E"] else None
                F = np.array(inp["F"], dtype=int) if inp["F"] else None
                C = np.array(inp["C"], dtype=int) if inp["C"] else None
                return Built(M.mesh.from_arrays(V, E, F, C))
            fmt, form = H.split_entry(entry)
            pts = L.CUBE_PTS if inp["pts"] == "CUBE" else L.G_PTS
            V = [pts[i] for i in range(inp["nv"])]
            if form is not None:
                text = H.FORM_WRITERS[fmt](form, V, inp["E"], inp["F"], inp["C"])
            elif fmt == "geogram_ascii":
                w = None
                if inp["attr"] != "none" and inp["E"]:
                    pos = L.attr_positions(inp["attr"], len(inp["E"]))
                    w = [L.W_VALUE(i) if i in pos else 0.0 for i in range(len(inp["E"]))]
                text = L.write_geogram(V, inp["E"], inp["F"], inp["C"], w)
            else:
                text = L.WRITERS[fmt](V, inp["E"], inp["F"], inp["C"])
            path = os.path.join(tmp, "in." + fmt)
            with open(path, "w") as f:
                f.write(text)
            return Built(M.mesh.load(path))
    except Exception as e:  # noqa: BLE001
        root = L.lib_root(e.__traceback__)
        rejected = entry in ("arrays", "arrays2d") and root == "from_arrays" and any(max(p) >= inp["nv"] for p in inp["E"])
        return Built(exc=type(e).__name__, root=root, msg=str(e)[:200], rejected=rejected)


def rebuild_devs(M, m, o0, inp, rep):
    """Build again from the built mesh: class constructor on RawMeshData(mesh), then _instanciate on the result."""
    from mouette.mesh.mesh import _instanciate_raw_mesh_data
    devs = []
    seen = set()

    def icls_of(field):
        if field.startswith("attribute:edges.hard_edges"):
            return "faces_present"
        if field in ("cell_faces", "cell_corners", "cells"):
            return "cells_present"
        if field.startswith("attribute:"):
            return "edge_attributes"
        return "any"

    def note(stage, o1):
        for field, got, want in L.diff_observations(o0, o1):
            if field in seen:
                continue
            seen.add(field)
            kind = "mismatch:changed_by_rebuild" if stage == 1 else "mismatch:changed_by_second_rebuild_only"
            devs.append(("C02.rebuild." + field.replace("attribute:", "attr:"), kind, icls_of(field),
                         {"after_rebuilds": stage, "got": got, "want": want}))
    try:
        with Switches(M, inp["cE"], inp["cF"]):
            r1 = type(m)(M.mesh.RawMeshData(m))
            rep.transitions += 1
            note(1, L.observe(r1))
            note(1, L.observe(m))                       # the original object shares its containers with the copy
            r2 = _instanciate_raw_mesh_data(M.mesh.RawMeshData(r1))
            rep.transitions += 1
            note(2, L.observe(r2))
            note(2, L.observe(m))
    except Exception as e:  # noqa: BLE001
        devs.append(("C02.rebuild.completes", "raises:" + type(e).__name__, "in:" + L.lib_root(e.__traceback__),
                     {"msg": str(e)[:200]}))
    rep.outcome("rebuild", "identity" if not devs else "changed:" + ",".join(sorted(d[0][12:] for d in devs)))
    return devs


def build_failure_class(inp, b):
    if b.root == "_generate_cell_faces" and b.exc == "KeyError" and inp["C"] and not inp["cF"]:
        return "cells:complete_faces_from_cells=False"
    if b.root == "_prepare_edges" and inp["attr"].startswith("dense"):
        return inp["attr"] + "_edge_attribute:invalid_edges_dropped"
    dim = "cells" if inp["C"] else ("faces" if inp["F"] else ("edges" if inp["E"] else "points"))
    return dim + ":in:" + str(b.root)


def carried_by(fmt, o0):
    """What a file written by mouette's own save() from the built mesh `o0` declares, format by format (edges: the
    hard ones where the writer only exports those; medit blocks: triangles, quads, hexes, tets)."""
    E_all = o0["E"] or []
    F_all = o0["F"] or []
    C_all = o0["C"] or []
    hard = o0["attrs"].get("edges.hard_edges")
    if fmt in ("mesh", "obj"):
        E = [E_all[i] for i, v in enumerate(hard["vals"]) if v is True] if hard is not None else list(E_all)
    elif fmt == "geogram_ascii":
        E = list(E_all)
    else:
        E = []
    if fmt in ("tet", "xyz"):
        F = []
    elif fmt == "mesh":
        F = [f for f in F_all if len(f) == 3] + [f for f in F_all if len(f) == 4]
    else:
        F = list(F_all)
    if fmt in ("mesh",):
        C = [c for c in C_all if len(c) == 8] + [c for c in C_all if len(c) == 4]
    elif fmt in ("tet", "geogram_ascii"):
        C = list(C_all)
    else:
        C = []
    return E, F, C


def evaluate_saveload(M, inp, fmt, tmp, rep):
    """build (RawMeshData, list rows) -> mouette.mesh.save -> mouette.mesh.load: the loaded object must be the normal
    form of what the file carries."""
    ref0 = L.reference(inp["nv"], L.CUBE_PTS if inp["pts"] == "CUBE" else L.G_PTS, inp["E"], inp["F"], inp["C"], inp["cE"], inp["cF"])
    wantcls0 = L.expected_class(ref0, len(ref0["faces_decl"]) + len(ref0["faces_completed"]))
    b0 = build(M, inp, "inst", "list", tmp, wantcls0)
    rep.transitions += 1
    if b0.mesh is None:
        rep.count("saveload_skipped_first_build_fails")
        return [], None
    o0 = L.observe(b0.mesh)
    if type(b0.mesh).__name__ == "PointCloud" and fmt not in ("xyz", "obj", "mesh", "geogram_ascii"):
        return [], None
    if type(b0.mesh).__name__ == "PolyLine" and fmt not in ("obj", "mesh", "geogram_ascii"):
        return [], None
    E, F, C = carried_by(fmt, o0)
    if (o0["C"] and not C) or (o0["F"] and not F and not C):
        rep.count("saveload_format_cannot_carry_top_elements")
        return [], None
    path = os.path.join(tmp, "sl." + fmt)
    try:
        with Switches(M, inp["cE"], inp["cF"]):
            if os.path.exists(path):
                os.remove(path)
            M.mesh.save(b0.mesh, path)
    except Exception as e:  # noqa: BLE001  - save itself belongs to C04
        rep.count("saveload_save_raises:" + fmt + ":" + type(e).__name__)
        return [], None
    inp2 = dict(inp, E=E, F=F, C=C, attr="none", prefill="absent", nv=len(o0["V"]), skip_hard=(fmt == "geogram_ascii"))
    ref = L.reference(len(o0["V"]), o0["V"], E, F, C, inp["cE"], inp["cF"])
    try:
        with Switches(M, inp["cE"], inp["cF"]):
            m = M.mesh.load(path)
    except Exception as e:  # noqa: BLE001
        rep.outcome("build", "raises:" + type(e).__name__)
        rep.traces += 1
        bf = Built(exc=type(e).__name__, root=L.lib_root(e.__traceback__))
        icls = build_failure_class(inp2, bf)
        return [("C02.build.completes", "raises:" + type(e).__name__, icls if icls.startswith("cells:complete") else "saved_by_mouette:in:" + bf.root,
                 {"msg": str(e)[:200], "file_carries": {"E": E, "F": F, "C": C}})], None
    rep.traces += 1
    rep.transitions += 2
    rep.outcome("build", type(m).__name__)
    o = L.observe(m)
    devs = L.compare(o, ref, inp2)
    for d in devs:
        d[3]["file_carries"] = {"E": E, "F": F, "C": C}
    rep.evaluations += 18
    rep.count("saveload_roundtrips")
    return devs, o


def evaluate(M, inp, entry, rows, tmp, rep):
    """-> list of deviations (subcheck, kind, input_class, detail) of one construction (+ its rebuilds)."""
    if entry.startswith("saveload:"):
        return evaluate_saveload(M, inp, entry[9:], tmp, rep)
    ref = L.reference(inp["nv"], L.CUBE_PTS if inp["pts"] == "CUBE" else L.G_PTS, inp["E"], inp["F"], inp["C"],
                      inp["cE"], inp["cF"], pad2d=(entry == "arrays2d" or entry.endswith("+dim2")))
    wantcls = L.expected_class(ref, len(ref["faces_decl"]) + len(ref["faces_completed"]))
    b = build(M, inp, entry, rows, tmp, wantcls)
    rep.traces += 1
    rep.transitions += 1
    if b.rejected:
        rep.count("from_arrays_rejected_out_of_range_edges")
        rep.outcome("build", "rejected")
        return [], None
    if b.mesh is None:
        rep.outcome("build", "raises:" + b.exc)
        return [("C02.build.completes", "raises:" + b.exc, build_failure_class(inp, b), {"msg": b.msg, "in": b.root})], None
    rep.outcome("build", type(b.mesh).__name__)
    o = L.observe(b.mesh)
    inp2 = dict(inp)
    if entry == "arrays2d" or entry.endswith("+dim2"):
        inp2["pad2d"] = True
    if entry.startswith("file:"):
        inp2["attr_names"] = ["w"]
    devs = L.compare(o, ref, inp2)
    rep.evaluations += 18
    deviating = set(d[0].split(".")[1] for d in devs)
    for d in rebuild_devs(M, b.mesh, o, inp, rep):
        field = d[0].split(".", 2)[2]
        if field in deviating:                      # same container already wrong after the first build: one defect
            for d0 in devs:
                if d0[0].split(".")[1] == field:
                    d0[3]["and_after_rebuild"] = d[3]
            rep.count("rebuild_change_folded_into_first_build_deviation:" + field)
            continue
        devs.append(d)
    rep.evaluations += 4
    if ref["dropped"]:
        rep.count("inputs_with_dropped_edges")
    if ref["faces_completed"]:
        rep.count("inputs_with_completed_faces")
    if inp["C"] and not inp["cF"]:
        k_, n_ = L.listed_incidences(inp["F"], inp["C"])
        if 0 < k_ < n_:
            rep.count("inputs_with_partly_listed_cell_faces")
    if inp["attr"] != "none" and ref["surv"]:
        rep.count("inputs_with_attributes_on_surviving_edges")
    return devs, o


CALLEE = {"inst": "RawMeshData.prepare", "inst_peek": "RawMeshData.prepare", "ctor": "Mesh.__init__", "arrays": "from_arrays", "arrays2d": "from_arrays"}


def report(rep, devs, inp, entry, rows, baseline_keys, seen_local):
    for sub, kind, icls, detail in devs:
        key = (sub, kind)
        if baseline_keys is not None and key in baseline_keys:
            rep.count("variant_deviation_already_in_baseline")
            continue
        if baseline_keys is None or icls == "cells:complete_faces_from_cells=False":
            callee = "RawMeshData.prepare" if sub != "C02.class" else "_instanciate_raw_mesh_data"
        else:
            callee = CALLEE.get(entry) or ("load(." + H.split_entry(entry)[0] + ")" if entry.startswith("file:") else "save+load(." + entry[9:] + ")")
            if entry.startswith("file:") and H.split_entry(entry)[1]:
                icls = icls + "|file_form:" + H.split_entry(entry)[1]
            elif entry == "inst":
                icls = icls + "|" + rows + "_rows_only"
            elif entry == "arrays2d" and sub == "C02.vertices":
                pass
            else:
                icls = icls + "|not_with_plain_RawMeshData"
        fp = (sub, callee, kind, icls)
        n = seen_local.get(fp, 0)
        seen_local[fp] = n + 1
        if n >= 2:
            rep.violation(sub, callee, kind, icls, None)          # counted; the first two carry the detail
            continue
        d = {"input": {k: inp[k] for k in ("pts", "nv", "E", "F", "C", "attr", "prefill", "cE", "cF")},
             "entry": entry, "rows": rows}
        d.update(detail)
        rep.violation(sub, callee, kind, icls, d)


# ------------------------------------------------------------------------------------------------ norm tasks
def edge_sequences(tier):
    """-> list of (symbols, variants_too): the baseline sees every list, the other entry points / row types the
    lists of <= 2 symbols."""
    if tier == "quick":
        return [(seq, True) for seq in L.edge_lists(L.SYMS_SMALL, 2)]
    return [(seq, len(seq) <= 2) for seq in L.edge_lists(L.SYMS_FULL, 3)]


def inputs_of(task):
    """-> (input, variants_too) for the baseline; which variant applies to which input is decided by variant_applies"""
    F, C = L.FACE_MENU[task["F"]], L.CELL_MENU[task["C"]]
    need = L.nv_needed(F, C)
    k = -1
    for seq, vt in edge_sequences(task["tier"]):
        rich = len(seq) <= 2
        if need == 0:
            nvs = [0, 1, 2, 3, 4] if rich else [2, 4]
        else:
            nvs = [need] + ([need + 1] if (len(seq) <= 1 or (rich and task["tier"] == "thorough")) else [])
        for nv in nvs:
            k += 1
            if k % task["parts"] != task["part"]:
                continue
            E = [L.resolve(s_, nv) for s_ in seq]
            if rich:
                modes = ["none"] + (["sparse_all", "dense", "dense_vec", "sparse_dflt"] if E else []) + (["sparse_some"] if len(E) >= 2 else [])
                pres = ["absent"] + (["consistent"] if (F or C) else []) + (["cc_elem_only"] if C else [])
            else:
                modes, pres = ["none", "sparse_all", "dense"], ["absent"]
            for mode in modes:
                for pre in (pres if mode == "none" else ["absent"]):
                    yield {"pts": "CUBE" if "hex" in task["C"] else "G", "nv": nv, "E": E, "F": F, "C": C, "attr": mode,
                           "prefill": pre, "cE": task["cE"], "cF": task["cF"], "syms": seq}, vt


def variant_applies(entry, rows, inp, tier):
    F, C, E = inp["F"], inp["C"], inp["E"]
    plain = inp["attr"] == "none" and inp["prefill"] == "absent"
    if entry in ("ctor", "inst", "inst_peek"):
        if inp["nv"] > L.nv_needed(F, C) > 0:
            return False                               # the extra isolated vertex only for the baseline
        return True
    if entry in ("arrays", "arrays2d"):
        return plain and _applicable(entry, F, C)
    if entry.startswith("file:"):
        fmt, form = H.split_entry(entry)
        if inp["nv"] == 0 or inp["prefill"] != "absent" or not L.format_can_declare(fmt, E, F, C):
            return False
        if form is not None:
            return inp["attr"] == "none" and H.form_applies(fmt, form, E, F, C)
        return inp["attr"] == "none" or (fmt == "geogram_ascii" and inp["attr"] in ("sparse_all", "sparse_some"))
    if entry.startswith("saveload:"):
        return plain and _applicable(entry, F, C)
    return False


def run_norm(task, rep):
    import mouette as M
    tmp = tempfile.mkdtemp(prefix="c02_", dir="/dev/shm")
    seen_local = {}
    states = set()
    tier = task["tier"]
    try:
        for inp, variants_too in inputs_of(task):
            devs0, o = evaluate(M, inp, "inst", "list", tmp, rep)
            report(rep, devs0, inp, "inst", "list", None, seen_local)
            keys0 = set((s_, k_) for s_, k_, i_, _ in devs0)      # clause + kind: the input class of a variant may differ
            todo = [("inst", "list", o)]
            if variants_too:
                for entry, rows in VARIANTS[1:]:
                    if not variant_applies(entry, rows, inp, tier):
                        continue
                    devs, o1 = evaluate(M, inp, entry, rows, tmp, rep)
                    report(rep, devs, inp, entry, rows, keys0, seen_local)
                    todo.append((entry, rows, o1))
            for entry, rows, o1 in todo:
                if o1 is not None:
                    states.add(L.okey(o1))
                    rep.flag("class:" + o1["cls"])
                rep.flag("entry:" + entry)
                rep.flag("rows:" + rows)
                if inp["E"] or inp["F"] or inp["C"]:
                    rep.case((inp["nv"], inp["E"], task["F"], task["C"], inp["attr"], inp["prefill"], inp["cE"], inp["cF"], entry, rows))
                rep.count("builds_checked")
            if len(inp["E"]) == 2 and inp["attr"] == "sparse_all":
                rep.sample({"input": {k: inp[k] for k in ("nv", "E", "F", "C", "attr", "cE", "cF")}, "variants": [t[0] + "/" + t[1] for t in todo]})
            rep.count("inputs")
    finally:
        shutil.rmtree(tmp, ignore_errors=True)
        M.config.complete_edges_from_faces, M.config.complete_faces_from_cells = DEFAULT_SW
    rep.states += len(states)
    rep.count("tasks:norm")


# ------------------------------------------------------------------------------------------------ twins
def run_twins(task, rep):
    import mouette as M
    F, C = L.FACE_MENU[task["F"]], L.CELL_MENU[task["C"]]
    need = L.nv_needed(F, C)
    tmp = tempfile.mkdtemp(prefix="c02_", dir="/dev/shm")
    seen_local = {}
    kinds = ("list", "tuple", "numpy")
    try:
        for seq in L.edge_lists(L.SYMS_SMALL, task["maxlen"]):
            nv = max(need, 4) if need == 0 else need
            E = [L.resolve(s, nv) for s in seq]
            inp = {"pts": "CUBE" if "hex" in task["C"] else "G", "nv": nv, "E": E, "F": F, "C": C,
                   "attr": "sparse_all" if E else "none", "prefill": "absent", "cE": task["cE"], "cF": task["cF"]}
            ref = L.reference(nv, L.CUBE_PTS if inp["pts"] == "CUBE" else L.G_PTS, E, F, C, inp["cE"], inp["cF"])
            wantcls = L.expected_class(ref, len(ref["faces_decl"]) + len(ref["faces_completed"]))

            def fresh(rows):
                b = build(M, inp, "inst", rows, tmp, wantcls)
                rep.transitions += 1
                return b.mesh

            twins = {k: fresh(k) for k in kinds}
            if twins["list"] is None:
                rep.count("twins_skipped_list_build_fails")
                continue
            cls = type(twins["list"]).__name__
            alive = [k for k in kinds if twins[k] is not None]
            for k in kinds:
                if twins[k] is None:
                    rep.count("twins_variant_does_not_build:" + k)
            obs = {k: L.observe(twins[k]) for k in alive}
            for k in alive[1:]:
                rep.evaluations += 1
                d = L.diff_observations(obs["list"], obs[k])
                if d:
                    _twin_violation(rep, seen_local, "C02.rows_independence.built_content", "RawMeshData.prepare",
                                    "mismatch:" + d[0][0], k + "_rows:" + cls, inp, {"field": d[0][0], "got": d[0][1], "list_built": d[0][2]})
            rep.traces += len(alive)
            rep.count("twin_sets")
            rep.flag("twins:" + cls)
            reported_roots = {}
            with Switches(M, inp["cE"], inp["cF"]):
                for name, fn in L.behaviours(cls):
                    answers = {}
                    for k in alive:
                        m = fresh(k)
                        A = L.Ans()
                        if name == "merge":
                            m2 = fresh(k)
                            A.q(None, lambda: L.observe(M.mesh.merge([m, m2])))
                        else:
                            try:
                                fn(M, m, A, tmp)
                            except Exception as e:  # noqa: BLE001  (a domain could not even be enumerated)
                                A.items.append(("<domain>", "!" + type(e).__name__))
                                A.roots.setdefault("!" + type(e).__name__, L.lib_root(e.__traceback__))
                        answers[k] = A
                        rep.transitions += 1
                    base = answers["list"]
                    rep.outcome("battery:" + name.split(":")[0].split(".")[0],
                                "raises" if any(str(v).startswith("!") for _, v in base.items) else "answers")
                    for k in alive[1:]:
                        rep.evaluations += 1
                        _compare_answers(rep, seen_local, reported_roots, cls, name, k, base, answers[k], inp)
    finally:
        shutil.rmtree(tmp, ignore_errors=True)
        M.config.complete_edges_from_faces, M.config.complete_faces_from_cells = DEFAULT_SW
    rep.count("tasks:twins")


def _twin_violation(rep, seen_local, sub, callee, kind, icls, inp, detail):
    fp = (sub, callee, kind, icls)
    n = seen_local.get(fp, 0)
    seen_local[fp] = n + 1
    if n >= 2:
        rep.violation(sub, callee, kind, icls, None)
        return
    d = {"input": {k: inp[k] for k in ("pts", "nv", "E", "F", "C", "attr", "cE", "cF")}}
    d.update(detail)
    rep.violation(sub, callee, kind, icls, d)


def _compare_answers(rep, seen_local, reported_roots, cls, name, k, base, other, inp):
    if base.items == other.items:
        rep.count("twin_behaviours_equal")
        return
    short = name.split(":")[0]
    lenient = short in L.SETLIKE and (cls != "SurfaceMesh" or short in ("boundary_vertices", "interior_vertices"))
    first = None
    if len(base.items) != len(other.items):
        first = ("<number of answers>", len(base.items), len(other.items))
    else:
        for (a0, v0), (a1, v1) in zip(base.items, other.items):
            if isinstance(v0, str) and isinstance(v1, str) and v0.startswith("!") and v1.startswith("!"):
                rep.count("twin_both_raise")      # which exception is not part of the statement; afterwards the
                break                             # lazily built caches of both objects are in an undefined state
            if v0 == v1:
                continue
            if lenient and isinstance(v0, list) and isinstance(v1, list) and sorted(map(repr, v0)) == sorted(map(repr, v1)):
                rep.count("twin_order_only_difference_ignored")
                continue
            first = (a0, v0, v1)
            break
    if first is None:
        rep.count("twin_behaviours_equal")
        return
    arg, v0, v1 = first
    callee = (cls + "." if "." not in name and ":" not in name and name not in ("copy", "merge", "split_edge") else "") + name
    if name.startswith("save:"):
        callee = "save(." + name[5:] + ")"
    if isinstance(v1, str) and v1.startswith("!") and not (isinstance(v0, str) and v0.startswith("!")):
        root = other.roots.get(v1, "?")
        rk = (k, v1, root)
        if rk in reported_roots:
            rep.count("twin_same_root_cause_as:" + reported_roots[rk])
            return
        reported_roots[rk] = callee
        _twin_violation(rep, seen_local, "C02.rows_independence.behaviour", callee, "raises:" + v1[1:],
                        f"{k}_rows:{cls}:in:{root}", inp,
                        {"behaviour": name, "argument": arg, "list_built_answers": _short(v0), k + "_built": v1})
    elif isinstance(v0, str) and v0.startswith("!"):
        _twin_violation(rep, seen_local, "C02.rows_independence.behaviour", callee, "mismatch:answers_where_list_built_raises",
                        f"{k}_rows:{cls}", inp, {"behaviour": name, "argument": arg, "list_built": v0, k + "_built": _short(v1)})
    else:
        _twin_violation(rep, seen_local, "C02.rows_independence.behaviour", callee, "mismatch:answer",
                        f"{k}_rows:{cls}", inp, {"behaviour": name, "argument": arg, "list_built": _short(v0), k + "_built": _short(v1)})


def _short(v):
    s = repr(v)
    return v if len(s) < 600 else s[:600] + "..."


# ------------------------------------------------------------------------------------------------ histories
def _hist_report(rep, seen_local, devs, callee, icls_suffix, detail):
    for sub, kind, icls, det in devs:
        fp = (sub, callee, kind, icls + icls_suffix)
        n = seen_local.get(fp, 0)
        seen_local[fp] = n + 1
        if n >= 2:
            rep.violation(sub, callee, kind, icls + icls_suffix, None)
            continue
        d = dict(detail)
        d.update(det)
        rep.violation(sub, callee, kind, icls + icls_suffix, d)


def _hist_inputs(task, maxlen, modes):
    """inputs of the history tasks: the menu x ordered edge lists of <= maxlen symbols x attribute modes, list rows"""
    F, C = L.FACE_MENU[task["F"]], L.CELL_MENU[task["C"]]
    need = L.nv_needed(F, C) or 4
    for k, seq in enumerate(L.edge_lists(L.SYMS_SMALL, maxlen)):
        E = [L.resolve(s_, need) for s_ in seq]
        for mode in (modes if E else ["none"]):
            yield k, {"pts": "CUBE" if "hex" in task["C"] else "G", "nv": need, "E": E, "F": F, "C": C, "attr": mode,
                      "prefill": "absent"}


def _flip_from(M, rep, inp0, F, C, fname, cname, tier, seen_local, states, own_baseline=False):
    """all switch histories of one input: build under sw1, build again under sw2 != sw1 (class constructor), then under
    sw3 (_instanciate_raw_mesh_data); every stage is the normal form, under its own switches, of what the stage before
    left.  own_baseline: the first construction is also judged here (inputs that the norm tasks do not contain)."""
    from mouette.mesh.mesh import _instanciate_raw_mesh_data
    settings = H.distinct_settings(F, C)
    pts = L.CUBE_PTS if inp0["pts"] == "CUBE" else L.G_PTS
    for sw1 in settings:
        inp = dict(inp0, cE=sw1[0], cF=sw1[1])
        ref = L.reference(inp["nv"], pts, inp["E"], F, C, sw1[0], sw1[1])
        wantcls = L.expected_class(ref, len(ref["faces_decl"]) + len(ref["faces_completed"]))
        if own_baseline:
            devs0, _o = evaluate(M, inp, "inst", "list", None, rep)
            report(rep, devs0, inp, "inst", "list", None, seen_local)
            rep.count("subset_builds_checked")
            k_, n_ = L.listed_incidences(F, C)
            if 0 < k_ < n_ and not sw1[1]:
                rep.count("subset_builds_with_partly_listed_cell_faces")
            if devs0:
                continue
        else:
            b0 = build(M, inp, "inst", "list", None, wantcls)
            if b0.mesh is None or L.compare(L.observe(b0.mesh), ref, dict(inp)):
                rep.count("flip_skipped_first_build_fails_or_deviates")   # reported by the norm tasks: one defect, one fingerprint
                continue
        for sw2 in settings:
            if sw2 == sw1:
                continue
            # third stage: back to the first setting (quick); every setting (thorough)
            for sw3 in ([sw1] if tier == "quick" else settings):
                m = build(M, inp, "inst", "list", None, wantcls).mesh
                rep.transitions += 1
                o_prev = L.observe(m)
                detail = {"input": {k_: inp[k_] for k_ in ("pts", "nv", "E", "F", "C", "attr")}, "switches": [list(sw1), list(sw2), list(sw3)]}
                for stage, sw in ((1, sw2), (2, sw3)):
                    try:
                        with Switches(M, sw[0], sw[1]):
                            m = type(m)(M.mesh.RawMeshData(m)) if stage == 1 else _instanciate_raw_mesh_data(M.mesh.RawMeshData(m))
                    except Exception as e:  # noqa: BLE001
                        _hist_report(rep, seen_local, [("C02.rebuild.completes", "raises:" + type(e).__name__, "in:" + L.lib_root(e.__traceback__),
                                                        {"msg": str(e)[:200], "stage": stage})], "RawMeshData.prepare", "|switches_changed_between_constructions", detail)
                        break
                    rep.transitions += 1
                    o_now = L.observe(m)
                    devs = H.stage_devs(o_prev, o_now, sw[0], sw[1], "rebuild")
                    for d in devs:
                        d[3]["stage"] = stage
                    _hist_report(rep, seen_local, devs, "RawMeshData.prepare", "|switches_changed_between_constructions", detail)
                    rep.evaluations += 18
                    rep.outcome("flip", "same" if L.okey(o_now) == L.okey(o_prev) else "grown")
                    if devs:
                        break                                # later stages start from a wrong state
                    states.add(L.okey(o_now))
                    o_prev = o_now
                rep.traces += 1
                rep.count("flip_histories")
                rep.case(("flip", fname, cname, inp["E"], inp["attr"], sw1, sw2, sw3))


def run_flip(task, rep):
    import mouette as M
    tier = task["tier"]
    F, C = L.FACE_MENU[task["F"]], L.CELL_MENU[task["C"]]
    seen_local = {}
    states = set()
    modes = ["none", "sparse_all"] if tier == "quick" else ["none", "sparse_all", "sparse_dflt", "dense"]
    try:
        for k, inp0 in _hist_inputs(task, 1 if tier == "quick" else 2, modes):
            _flip_from(M, rep, inp0, F, C, task["F"], task["C"], tier, seen_local, states)
    finally:
        M.config.complete_edges_from_faces, M.config.complete_faces_from_cells = DEFAULT_SW
    rep.states += len(states)
    rep.count("tasks:flip")


def run_subsets(task, rep):
    """caller-supplied face lists that hold any subset of the faces of the cells (none ... all), each under every
    setting of the switches: first construction against the reference, then the switch histories"""
    import mouette as M
    tier = task["tier"]
    C = L.CELL_MENU[task["C"]]
    seen_local = {}
    states = set()
    try:
        for mask in task["masks"]:
            F = L.subset_faces(C, mask)
            need = L.nv_needed(F, C)
            for E, mode in (([], "none"), ([[2, 1]], "sparse_all")):
                inp0 = {"pts": "CUBE" if "hex" in task["C"] else "G", "nv": need, "E": E, "F": F, "C": C, "attr": mode, "prefill": "absent"}
                _flip_from(M, rep, inp0, F, C, "sub:%d" % mask, task["C"], tier, seen_local, states, own_baseline=True)
            rep.count("face_subsets")
    finally:
        M.config.complete_edges_from_faces, M.config.complete_faces_from_cells = DEFAULT_SW
    rep.states += len(states)
    rep.count("tasks:subsets")


def run_edits(task, rep):
    """edit a built mesh through every public route that constructs again, once and twice on one object"""
    import mouette as M
    tier = task["tier"]
    F, C = L.FACE_MENU[task["F"]], L.CELL_MENU[task["C"]]
    cE, cF = task["cE"], task["cF"]
    seen_local = {}
    states = set()
    rowkinds = ("list", "tuple", "numpy")

    def fresh(inp, rows, wantcls):
        b = build(M, inp, "inst", rows, None, wantcls)
        rep.transitions += 1
        return b.mesh

    def do(m, o_prev, step, detail):
        """one step on the live object -> (mesh, observation) or None when the history ends here"""
        try:
            with Switches(M, cE, cF):
                m2, kind, data = H.apply_step(M, m, step)
        except Exception as e:  # noqa: BLE001
            root = L.lib_root(e.__traceback__)
            if step[0] == "raw" or step[1] == "noop" or root in ("prepare", "_prepare_edges", "_generate_face_corners", "_generate_cell_corners",
                                                                 "_generate_cell_faces", "_complete_edges_from_faces", "_complete_faces_from_cells"):
                _hist_report(rep, seen_local, [("C02.rebuild.completes", "raises:" + type(e).__name__, "in:" + root, {"msg": str(e)[:200]})],
                             "RawMeshData.prepare", "|after_edit", detail)
            else:
                rep.count("edit_operation_raises:" + step[1] + ":" + type(e).__name__)      # the operation itself belongs to C13
            return None
        rep.transitions += 1
        rep.flag("edit:" + step[0] + ":" + step[1])
        o = L.observe(m2)
        hc = "edited:" + step[0]
        if kind == "identity":
            devs = [("C02.rebuild." + f.replace("attribute:", "attr:"), "mismatch:changed_by_rebuild", "empty_editing_block", {"got": g, "want": w})
                    for f, g, w in L.diff_observations(o_prev, o)]
        elif kind == "appended":
            devs = H.appended_devs(o_prev, o, data, cE, cF, hc)
        else:
            devs = H.self_devs(o, cE, cF, hc)
        rep.evaluations += 18
        callee = {"raw": "RawMeshData.prepare", "split_edge": "split_edge"}.get(step[0]) or \
            (("SurfaceSubdivision" if type(m).__name__ == "SurfaceMesh" else "VolumeSubdivision") + ".__exit__")
        _hist_report(rep, seen_local, devs, callee, "|after_edit", detail)
        rep.outcome("edit", kind + ":" + type(m2).__name__)
        if devs:
            return None
        states.add(L.okey(o))
        return m2, o

    try:
        for k, inp0 in _hist_inputs(task, 1, ["sparse_all"]):
            inp = dict(inp0, cE=cE, cF=cF)
            rows = rowkinds[k % 3]                                       # row type in rotation over the edge lists
            ref = L.reference(inp["nv"], L.CUBE_PTS if inp["pts"] == "CUBE" else L.G_PTS, inp["E"], F, C, cE, cF)
            wantcls = L.expected_class(ref, len(ref["faces_decl"]) + len(ref["faces_completed"]))
            m0 = fresh(inp, rows, wantcls)
            if m0 is None:
                rep.count("edits_skipped_first_build_fails")
                continue
            o0 = L.observe(m0)
            first = H.edit_steps(m0)
            deep = tier != "quick" or k % 2 == 0                         # quick: second steps on every other edge list
            for s1 in first:
                base = {"input": {k_: inp[k_] for k_ in ("pts", "nv", "E", "F", "C", "attr", "cE", "cF")}, "rows": rows}
                m = m0 if s1 is first[0] else fresh(inp, rows, wantcls)
                r1 = do(m, o0, s1, dict(base, steps=[s1]))
                rep.traces += 1
                rep.count("edit_histories")
                rep.case(("edit", task["F"], task["C"], inp["E"], cE, cF, s1))
                if r1 is None:
                    continue
                seconds = H.edit_steps(r1[0]) if deep else []
                for j, s2 in enumerate(seconds):
                    if j == 0:
                        mm, oo = r1
                    else:
                        mm = fresh(inp, rows, wantcls)
                        with Switches(M, cE, cF):
                            mm = H.apply_step(M, mm, s1)[0]
                        oo = r1[1]
                    r2 = do(mm, oo, s2, dict(base, steps=[s1, s2]))
                    rep.traces += 1
                    rep.count("edit_histories")
                    rep.count("edit_histories_depth2")
                    rep.case(("edit", task["F"], task["C"], inp["E"], cE, cF, s1, s2))
                    if r2 is None:
                        continue
                    # a final construction from the edited mesh changes nothing
                    try:
                        with Switches(M, cE, cF):
                            again = type(r2[0])(M.mesh.RawMeshData(r2[0]))
                        d = L.diff_observations(r2[1], L.observe(again))
                    except Exception as e:  # noqa: BLE001
                        d = None
                        _hist_report(rep, seen_local, [("C02.rebuild.completes", "raises:" + type(e).__name__, "in:" + L.lib_root(e.__traceback__), {"msg": str(e)[:200]})],
                                     "RawMeshData.prepare", "|after_edit", dict(base, steps=[s1, s2, "rebuild"]))
                    rep.transitions += 1
                    rep.evaluations += 1
                    if d:
                        _hist_report(rep, seen_local, [("C02.rebuild." + f.replace("attribute:", "attr:"), "mismatch:changed_by_rebuild", "edited_mesh", {"got": g, "want": w})
                                                       for f, g, w in d], "RawMeshData.prepare", "|after_edit", dict(base, steps=[s1, s2, "rebuild"]))
                    rep.count("edit_final_rebuilds")
    finally:
        M.config.complete_edges_from_faces, M.config.complete_faces_from_cells = DEFAULT_SW
    rep.states += len(states)
    rep.count("tasks:edits")


# ------------------------------------------------------------------------------------------------ entry points
def run_task(task, rep: Report):
    import warnings
    warnings.filterwarnings("ignore")
    if task["kind"] == "norm":
        run_norm(task, rep)
    elif task["kind"] == "flip":
        run_flip(task, rep)
    elif task["kind"] == "subsets":
        run_subsets(task, rep)
    elif task["kind"] == "edits":
        run_edits(task, rep)
    else:
        run_twins(task, rep)


def finish(tier, rep: Report):
    fails = ["oracle self-test: " + x for x in L.selftest()]
    n_norm = rep.counters.get("tasks:norm", 0)
    n_tw = rep.counters.get("tasks:twins", 0) + rep.counters.get("tasks:flip", 0) + rep.counters.get("tasks:edits", 0) + rep.counters.get("tasks:subsets", 0)
    want = tasks(tier)
    full = n_norm + n_tw == len(want)
    if not full:
        return fails                                   # --only run
    for f in ["entry:inst", "entry:ctor", "entry:arrays", "entry:arrays2d", "rows:list", "rows:tuple", "rows:numpy",
              "class:PointCloud", "class:PolyLine", "class:SurfaceMesh", "class:VolumeMesh",
              "twins:PolyLine", "twins:SurfaceMesh", "twins:VolumeMesh"] + ["entry:file:" + x for x in FORMATS] \
            + ["entry:saveload:" + x for x in FORMATS]:
        if f not in rep.flags:
            fails.append("coverage flag missing: " + f)
    for c in ("saveload_roundtrips", "inputs_with_dropped_edges", "inputs_with_completed_faces", "inputs_with_attributes_on_surviving_edges",
              "twin_behaviours_equal", "twin_sets", "from_arrays_rejected_out_of_range_edges"):
        if rep.counters.get(c, 0) == 0:
            fails.append("never observed: " + c)
    if len(rep.outcomes.get("build", ())) < 4:
        fails.append("fewer than 4 distinct build outcomes")
    # round 5: file forms, switch histories, subsets of the cell faces, edit histories really ran
    for f in ["entry:" + e for e in H.FORM_ENTRIES] + ["edit:split_edge:split_edge", "edit:block:noop"] \
            + ["edit:block:" + x for x in H.SURFACE_GLOBAL + H.SURFACE_LOCAL + H.VOLUME_LOCAL_CELL + H.VOLUME_LOCAL_FACE] \
            + ["edit:raw:" + x for x in ("edge", "face", "edge+face", "cell", "edge+face+cell")]:
        if f not in rep.flags:
            fails.append("coverage flag missing: " + f)
    for c in ("inputs_with_partly_listed_cell_faces", "subset_builds_with_partly_listed_cell_faces", "edit_final_rebuilds"):
        if rep.counters.get(c, 0) == 0:
            fails.append("never observed: " + c)
    want_subsets = {"quick": 16 + 128 + 64, "thorough": 16 + 128 + 64 + 1024 + 2048}[tier]
    if rep.counters.get("face_subsets", 0) != want_subsets:
        fails.append(f"{rep.counters.get('face_subsets', 0)} subsets of the cell faces instead of {want_subsets}")
    for c, fl in (("flip_histories", {"quick": 8000, "thorough": 200000}[tier]), ("edit_histories", {"quick": 40000, "thorough": 250000}[tier]),
                  ("edit_histories_depth2", {"quick": 36000, "thorough": 240000}[tier])):
        if rep.counters.get(c, 0) < fl:
            fails.append(f"only {rep.counters.get(c, 0)} {c} (floor {fl})")
    if len(rep.outcomes.get("flip", ())) < 2:
        fails.append("switch histories: a construction under other switches never added anything (or always did)")
    if len(rep.outcomes.get("edit", ())) < 6:
        fails.append("fewer than 6 distinct edit outcomes")
    floor = {"quick": 40000, "thorough": 400000}[tier]            # DESIGN B: ~40 000 / ~400 000 builds
    if rep.counters.get("builds_checked", 0) < floor:
        fails.append(f"only {rep.counters.get('builds_checked', 0)} builds checked (floor {floor})")
    return fails
