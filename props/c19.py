"""C19 - samplers stay on their domain; Bezier evaluation matches the Bernstein form (S3 + S2).

S3: every random draw of mouette/sampling.py is answered by the harness through seams installed by
rebinding the module-level names `np` (delegating proxy whose `.random` is scripted), `random`, `choice`
of the sampling module (mc/c19_lib.py).  Uniform draws come from {0, 2^-53, 1/4, 1/2, 3/4, 1-2^-53}
(scaled to the requested interval), normal draws from nonzero lattice vectors, `choice` returns every
index and records the probability vector it was given, so "the share of samples follows length/area" is
decided exactly (p == exact ratios, and sample i lies on the element choice returned for it).  Before and
after every execution numpy's global generator state and Python's `random` state are compared: an
unintercepted draw is a harness error.

S2: Bezier curves / patches over a lattice alphabet of control points against an exact rational
Bernstein oracle; exports for all resolutions in {2..5} (x {2..5}).

Deviations crossed with the families (each is a dimension of the enumeration, never a special case):
* unit of length: every sampler and the Bezier evaluations are re-run with all coordinates / radii multiplied by
  2^-40 and by 2^40 (exact); the answers divided by the same power of two must satisfy the same exact expectations
  (input class suffix ':unit_of_length=2^k').
* call histories on ONE curve / patch object: first call (evaluate at each parameter | export), then one control
  point moved through the public attribute `pts` (replaced, or overwritten in place), then evaluate at the same
  parameter(s) / at other ones / export: every answer is the Bernstein form of the control points held at the time
  of the call (C19.bezier.{curve,patch}.history).
* ownership: a vector (or exported mesh) handed back belongs to the caller - overwriting it in place must not move
  the curve / patch nor the caller's control point arrays (C19.bezier.{curve,patch}.ownership); construction,
  evaluation and export leave the caller's arrays as they were (C19.bezier.{curve,patch}.inputs_unchanged); the
  control points are handed over as tuples, as one ndarray, as Vec objects.
* argument forms / documented defaults (C19.defaults.*): every public entry point (the five samplers, the ways of asking for a
  box AABB / unit_cube / of_points / of_mesh, BezierCurve / BezierPatch constructors, evaluate, as_polyline, as_surface) is
  called all by keyword, positionally in the documented order up to each option, and with every option that has its documented
  default left out (one at a time, all together): under the same scripted draws every form must hand back the very answer of
  the fully explicit keyword call (type, count, every coordinate / index / attribute), which is judged against the exact
  expectation - here also at the default sizes as_polyline() = 100 points and as_surface() = 20 x 20, which the small
  resolutions never reach.  The documented signatures are pinned in DOC_SIGNATURE (never read from the library at run time);
  C19.defaults.signature compares them with inspect.signature() (mc/c19_forms.py).
* anisotropic scaling (extreme aspect ratios, magnitudes 2^K next to unit ones): coordinate k of every mesh vertex / box corner /
  control point is multiplied by 2^e[k], e in {0,K}^dim (not all equal) or (0,K/2,K), K = 27 (thorough 14, 27, 40): needle triangles
  of aspect ratio up to 2^K, polylines whose edge lengths differ by 2^K, flat boxes.  The expectations are evaluated exactly on the
  stretched INTEGER coordinates (shares from exact squared lengths / areas, containment with a tolerance stated as a length: 1e-12 x
  largest coordinate); box and Bezier answers are divided by the per-axis factors (exact) and meet the unscaled expectations
  (input class suffix ':anisotropic_scaling'; thorough: also combined with the unit of length 2^-K, i.e. unit-size slivers).
* call histories on the DOMAIN OBJECTS (mc/c19_hist.py; suffix ':call_history'): the box / mesh / centre handed to a sampler has a
  life before the call.  Boxes: population of <= 3 boxes, events = a second box on the corners of another one (AABB(b.mini, b.maxi)),
  on the caller's very corner objects again, union / intersection (| and &, also of a box with itself), pad (float, vector in 4 forms,
  negative = nothing), sampling sweep; first box requested in 8 forms (tuples, lists, float64 / int64 / float32 arrays, Vec,
  unit_cube, of_points).  Meshes: the mesh and its mesh.copy (attribute / connectivity options), events = transform.translate, a
  vertex assigned / edited in place on either, sampling either, overwriting the answer.  Sphere / ball: ONE centre object (5 forms)
  through sequences of sphere / ball calls with answers overwritten in between.  Reference model = value semantics (a mutator changes
  the object it is called on and nothing else); every sampling answer is judged by the regular judges against the domain the model
  holds for the sampled object at that time; the caller's own argument objects must hold what he put there after every event.
"""
from __future__ import annotations
import itertools, math, os
from fractions import Fraction as Fr

from mc.core import Report, call, exc_kind
from mc import c19_lib as L
from mc import c19_forms as FM
from mc import c19_hist as H
from mc.c19_lib import U6

ID = "C19"
TECHNIQUE = "exhaustive enumeration of environment (RNG) answers through harness-owned seams + bounded families vs exact oracles"
RULE = ("samplers: one case = (sampler, parameters, return mode, n_pts, script of draws handed to the seam); the draws "
        "of one sample point range over the full product of the draw alphabets (normal: nonzero lattice vectors, "
        "uniform: {0,2^-53,1/4,1/2,3/4,1-2^-53}, choice: every index); an execution with n_pts>1 gets n_pts consecutive "
        "combinations (all cyclic offsets when 'sliding', else a tiling), so rows always differ; Bezier: one case = "
        "(control polygon / net over the lattice alphabet, parameter or export resolution); non-trivial = at least two "
        "distinct control points / at least one sample point; unit-of-length cases = the same with every length x 2^-40 / "
        "2^40; history cases = (polygon / net, first call, index of the moved control point, replace | in place, order of "
        "the calls made after the edit); ownership cases = (polygon / net, argument form, call whose result is overwritten); "
        "argument-form cases = (entry point, requested value of every documented parameter, script of draws), each made in every "
        "form the documented signature allows (keyword / positional up to each option / options at their documented default left out); "
        "anisotropic cases = (sampler / Bezier case with a reduced draw script, exponent vector e: coordinate k x 2^e[k]); domain-history "
        "cases = (world: box form x dimension | mesh specimen | centre form, event sequence allowed by the reference model up to the depth "
        "bound), every sequence replayed on fresh real objects, breadth first")
ASSUMPTIONS = [
    "randomness reaches mouette/sampling.py only through the module-level names np.random.*, random, choice (all "
    "rebound by the harness; numpy global RNG state and Python random state are verified unchanged by every execution)",
    "draw alphabets: uniform {0,2^-53,1/4,1/2,3/4,1-2^-53}; normal = integer vectors in [-1,1]^3 (quick) / [-2,2]^3 "
    "(thorough) minus 0; for n_pts>1 the rows of one execution are consecutive combinations, not the full n_pts-fold product",
    "mesh / control-point coordinates are small integers (exact oracles); float results are compared with 1e-12 "
    "(containment) / 1e-9 (values) relative tolerance after exact evaluation",
    "degenerate inputs outside the statement are not run: empty boxes, polylines without edges, zero-length edges, "
    "zero-area or non-triangular faces, radius <= 0",
    "patch convention (which parameter runs along which index of the net) is not fixed by the statement: either is "
    "accepted, but one net must follow a single convention in evaluate and as_surface",
    "unit of length: only the exact powers of two 2^-40 and 2^40 (no rounding differs between the scaled and the unscaled "
    "run; squares stay far from under/overflow); these tasks use reduced draw scripts (tiled, fewer n_pts) and are not "
    "crossed with the attribute-blackboard / duplicate-flag variants",
    "histories: depth = one edit of one control point (moved by the lattice vector (3,-5,7)) between a first call and up to "
    "two later calls, always on a fresh object; `pts` (container of Vec for a curve, list of lists of Vec for a patch) is "
    "taken as the public control-point attribute, read live by every call - which the unchanged code does",
    "ownership is only asserted for results the caller CAN overwrite (a read-only result is counted, not reported)",
    "documented signatures (table DOC_SIGNATURE, copied from the signatures / docstrings of the unchanged tree: parameter order "
    "and defaults return_point_cloud=False, return_normals=False, mode='uniform', centered=False, padding=0, n_pts=100, "
    "custom_pos=None, n1=n2=20) are the reference of the argument-form clauses; every documented parameter may be passed by its "
    "documented name; a signature that differs from the table (order, kind, default, new required parameter) is reported as a "
    "violation of C19.defaults.signature; argument forms are compared under identical scripted draws (an answer that differs only "
    "in which exception is raised is not a difference); these tasks are not crossed with the unit of length nor with the "
    "attribute-blackboard / duplicate-flag variants",
    "anisotropic scaling: only exact powers of two per axis, exponents {0,K} (not all equal) and (0,K/2,K), K = 27 (thorough 14, 27, 40; "
    "thorough surfaces also x unit of length 2^-40): the stretched coordinates stay integers (exact oracles; squared double areas up to 2^200 as "
    "Python integers, one square root each); a sampled point counts as inside its needle face / on its edge when its distance to the face "
    "/ edge is below 1e-12 x the largest coordinate (a barycentric tolerance would turn one ulp of a coordinate into ulp / altitude); "
    "reduced draw scripts (tiled, n_pts <= 2 on meshes); not crossed with the attribute-blackboard / duplicate-flag variants; sphere / ball "
    "have no aspect ratio (not run)",
    "domain histories: value semantics of the box / mesh objects is the reference (AABB.pad is documented to enlarge 'the bounding box', "
    "transform.translate to move 'the mesh', mesh.copy to make 'a hard copy'; the unchanged tree behaves so); events are limited to the "
    "documented constructors / mutators named in BOUNDS, populations to 3 boxes / 2 meshes, depth as in BOUNDS; the vectors handed out by "
    "AABB.mini / .maxi are NOT overwritten by the harness (the unchanged tree hands out the stored corner itself - outside this property), "
    "nor are the caller's corner arrays edited after construction (AABB keeps a view of a float64 array it is given - documented nowhere, "
    "not asserted either way); a box whose model is empty is not sampled; mesh geometry that an event would make degenerate ends the "
    "history; Bezier objects have no library mutator and no derived objects: their histories are the control-point edit histories above",
]
BOUNDS = {
    "quick": "sphere/ball: centres {0,(1,-2,3)} x radii {0.1,1,3} x n_pts {1,2,8,9,10,27} x 26 lattice directions "
             "(x 6 uniforms) sliding; boxes dim 1-4 from 3 intervals per axis (3+9+27+17 boxes), both modes, uniform draws "
             "U6^dim sliding for dim<=2, tiled for dim 3-4 (dim 4: unit cube + 16 boxes over the 2 non-unit intervals); polylines = 8 graphs on <=3 vertices x all placements on 4 "
             "lattice points, surfaces = 24 labelled complexes on <=4 vertices x 2 point sets, n_pts {1,2,9}; Bezier "
             "curves degree 1-3 over 4 (3-D) / 3 (2-D) lattice points, nets 2x2 (3 pts), 2x3/3x2 (2 pts), 3x3 (2 pts, <=3 control points off the base point) "
             "+ 4 generic nets per shape, 25 parameter pairs, resolutions {2..5}^2; unit of length 2^-40 and 2^40: all sphere/"
             "ball configs (n_pts {1,2,9} / {1,9}, tiled), all boxes (grid: all n_pts; uniform: n_pts {1,2,9} dim<=2, {2} dim>=3, "
             "tiled), all polylines (n_pts {1,2}, tiled), surfaces on the moment points + all 3-vertex ones (n_pts 2), all "
             "curves (5 parameters, as_polyline 2,3 + one custom), every 3rd net (25 parameter pairs, as_surface 2x3, 3x2); "
             "histories: curves of degree <=1 and every 4th other polygon x {evaluate at 5 parameters, as_polyline(3)} x moved "
             "index x {replace, in place} x 3 call orders; every 8th net + the generic ones x {evaluate at {0,1/3,1}^2, "
             "as_surface(2,3)} x moved index x 2 x 4 call orders; ownership: every polygon (5 parameters + as_polyline 2,3) "
             "and the history nets (8 parameter pairs + as_surface 2x2, 3x2), argument forms tuples / ndarray / Vec by turns; "
             "documented defaults / call forms (both tiers alike): 15 entry points; sphere / ball 2 (centre, radius) x n_pts {1,2} x 2 "
             "scripts x both return modes; sample_AABB 3 boxes (dim 1-3) x n_pts {2,9} x {uniform, grid} x both return modes; "
             "polylines with 1 and 2 edges, surfaces with 1 and 2 faces, n_pts {1,2} x 2 scripts x all return modes; AABB dim 1-3, "
             "unit_cube dim 1-4 x centered, of_points / of_mesh x padding {0, 0.5}; 2 curves (3-D degree 2, 2-D degree 3): evaluate at "
             "{0,1/3,1}, as_polyline (n_pts, custom_pos) in {(100,None),(3,None),(100,3 pos),(7,3 pos),(100,101 pos),(2,101 pos)}; "
             "2 generic nets (2x3, 3x3): evaluate at 3 pairs, as_surface (20,20),(2,3),(20,3),(2,20),(3,2); each in all forms; "
             "anisotropic scaling K=27: every polyline task (n_pts {1,2}, tiled) and the surfaces of the unit-of-length selection (n_pts 2) x 3 "
             "of the 7 exponent vectors by rotation, every box of dim 2-4 (grid: all n_pts; uniform: reduced, tiled; dim 4: every 2nd of 14 "
             "vectors), every 4th polygon / 6th net x 3 single-axis vectors; domain histories: boxes 8 forms x dim 1-3, all event sequences "
             "up to depth 2 (dim 2: depth 3, ~3400 sequences per form), sphere / ball 5 centre forms x all sequences of <= 3 events "
             "(2 samplers x radii {0.1,3} x 2 return modes + overwrite), meshes: 2-face surface and 2-edge polyline depth 3, 1-face / 1-edge "
             "depth 2, copies (attributes, connectivity) in {(F,F),(T,T)}, n_pts 2 per call, every mesh sampled after every sequence",
    "thorough": "as quick with 124 lattice directions, 4 intervals per axis (340 boxes, sliding up to dim 3), polylines on 5 "
                "lattice points plus all 63 graphs on 4 vertices, surfaces x 3 point sets with n_pts {1,2,8,9,10,27} "
                "sliding, curves over 5 / 4 lattice points, nets 2x2 (4 pts), 2x3/3x2 (3 pts), 3x3 (2 pts); unit of length: all "
                "surfaces and all nets; histories: every polygon, every 2nd net + the generic ones; documented defaults / call forms as quick; "
                "anisotropic scaling: all 7 vectors at K=27 plus two vectors (by rotation) of K=14 and of K=40 on every polyline / surface task "
                "(the 63 four-vertex graphs: 3 vectors by rotation), surfaces also at unit of length 2^-40, all boxes with K in {14,27,40}, "
                "every polygon / 2nd net; domain histories: boxes depth 3 (dim 2: depth 4), meshes depth 3 with all 4 copy options",
}

N_PTS = [1, 2, 8, 9, 10, 27]
CENTERS = [[0, 0, 0], [1, -2, 3]]
RADII = [0.1, 1.0, 3.0]
INTERVALS = {"quick": [[0, 1], [-2, 1], [3, 5]], "thorough": [[0, 1], [-2, 1], [3, 5], [-3, -1]]}
LINE_POINTS = [[0, 0, 0], [2, 0, 0], [0, 1, 0], [1, 2, 2], [-3, 0, 4]]
SURF_POINTS = {
    "moment": [[0, 0, 0], [1, 1, 1], [2, 4, 8], [3, 9, 27]],
    "lattice": [[0, 0, 0], [2, 0, 0], [0, 2, 0], [0, 0, 2]],
    "planar": [[0, 0, 0], [3, 0, 0], [0, 2, 0], [1, 1, 0]],
}
CTRL3 = [[0, 0, 0], [1, 2, -1], [-2, 1, 3], [3, -1, 2], [0, 4, 0]]
CTRL2 = [[0, 0], [1, 2], [-2, 1], [3, -1]]
PARAMS = [0.0, 0.25, 1.0 / 3.0, 0.5, 1.0]
BAD_PARAMS = [-1e-9, 1 + 1e-9, 2.0, "nan", -1.0, "inf", "-inf"]
RESOLUTIONS = [2, 3, 4, 5]
HULL_DIRS = [(1, 0, 0), (0, 1, 0), (0, 0, 1), (1, 1, 0), (1, -1, 0), (1, 0, 1), (1, 0, -1), (0, 1, 1), (0, 1, -1),
             (1, 1, 1), (1, 1, -1), (1, -1, 1), (-1, 1, 1)]
SEED = int(os.environ.get("VERIF_SEED", "0") or 0)
# unit-of-length deviation: every coordinate / radius of an input is multiplied by 2^k (exactly, a power of two), the
# answers are divided by 2^k (exactly) and must then satisfy the very same exact expectations: containment, on-sphere,
# on-edge, in-face, the p handed to choice, Bernstein values all scale exactly; every tolerance is relative
SCALE_EXPS = [-40, 40]
# anisotropic deviation: coordinate k of every mesh vertex / box corner / control point is multiplied by 2^e[k], e in {0, K}^dim
# (not all equal) or (0, K/2, K); the expectations are evaluated exactly on the stretched integer coordinates
ANISO_EXPS = {"quick": [27], "thorough": [14, 27, 40]}
OFFSET = [3, -5, 7]                       # a control point is moved by this lattice vector in the edit histories
FORMS = ["tuples", "ndarray", "vecs"]     # argument forms of the control points handed to the constructors
H_PARAMS = [0.0, 1.0 / 3.0, 1.0]          # parameters of the call made before a control point is edited (patches)


# ================================================================================================ tasks
def _chunks(seq, k):
    seq = list(seq)
    return [seq[i:i + k] for i in range(0, len(seq), k)]


def tasks(tier):
    q = tier == "quick"
    out = [{"kind": "selftest"}]
    lat = 1 if q else 2
    configs = [[c, r] for r in RADII for c in CENTERS]          # one task sees every (centre, radius): the input
    out.append({"kind": "sphere", "configs": configs, "lat": lat, "n_pts": N_PTS, "sliding": True})   # class is computed
    for n in N_PTS:                                                                                 # over all of them
        out.append({"kind": "ball", "configs": configs, "lat": lat, "n_pts": [n], "sliding": True})
    iv = INTERVALS[tier]
    for dim in (1, 2, 3, 4):
        boxes = [list(b) for b in itertools.product(iv, repeat=dim)]
        if q and dim == 4:                 # quick: the unit cube + all boxes over the two non-unit intervals
            boxes = [[iv[0]] * 4] + [list(b) for b in itertools.product(iv[1:], repeat=4)]
        out.append({"kind": "aabb_grid", "dim": dim, "boxes": boxes, "n_pts": N_PTS})
        sliding = dim <= (2 if q else 3)
        per = {1: len(boxes), 2: 4, 3: 1, 4: 1}[dim]
        for ch in _chunks(boxes, per):
            out.append({"kind": "aabb_uniform", "dim": dim, "boxes": ch, "n_pts": N_PTS, "sliding": sliding})
    # polylines: every graph with at least one edge on 2 and 3 (thorough: 4) vertices
    from mc import families as F
    pts = LINE_POINTS[:4] if q else LINE_POINTS
    npl = [1, 2, 9] if q else N_PTS
    for nv in (2, 3):
        for edges in F.graph_enum(nv):
            if edges:
                out.append({"kind": "polyline", "nv": nv, "edges": [list(e) for e in edges], "points": pts,
                            "n_pts": npl, "sliding": True, "placements": "all"})
    if not q:
        for edges in F.graph_enum(4):
            if edges:
                out.append({"kind": "polyline", "nv": 4, "edges": [list(e) for e in edges], "points": LINE_POINTS[:4],
                            "n_pts": [1, 2, 9], "sliding": False, "placements": "identity+reverse"})
    # surfaces
    names = ["moment", "lattice"] if q else ["moment", "lattice", "planar"]
    for nv in (3, 4):
        for faces in F.surf_enum(nv):
            for nm in names:
                out.append({"kind": "surface", "nv": nv, "faces": [list(f) for f in faces], "pointset": nm,
                            "n_pts": npl, "sliding": not q})
    # Bezier curves
    a3 = CTRL3[:4] if q else CTRL3
    a2 = CTRL2[:3] if q else CTRL2
    for alpha in (a3, a2):
        for deg in (0, 1, 2, 3):          # degree 0 = a single control point (a constant curve, still a curve)
            polys = [list(p) for p in itertools.product(alpha, repeat=deg + 1)]
            for ch in _chunks(polys, 40):
                out.append({"kind": "curve", "polygons": ch})
    # Bezier patches
    sizes = {(1, 1): 3, (1, 2): 3, (2, 1): 3, (1, 3): 2, (3, 1): 2,      # degenerate nets: a point, a curve in one direction
             (2, 2): 3 if q else 4, (2, 3): 2 if q else 3, (3, 2): 2 if q else 3, (3, 3): 2}
    for (m, n), k in sizes.items():
        alpha = CTRL3[:k]
        nets = []
        for flat in itertools.product(range(k), repeat=m * n):
            if q and (m, n) == (3, 3) and sum(1 for x in flat if x) > 3:
                continue                   # quick: 3x3 nets with at most 3 control points off the base point
            nets.append([[alpha[flat[i * n + j]] for j in range(n)] for i in range(m)])
        nets += _generic_nets(m, n)
        for ch in _chunks(nets, 12):
            out.append({"kind": "patch", "nets": ch})
    # ---- call histories on one curve / patch object (edit of a control point between two calls) and ownership of
    # the returned vectors / of the caller's control point arrays
    # (ownership: every polygon; edit histories: polygons of degree <= 1 and every 4th other one in quick, all in thorough;
    #  nets: every 8th (thorough: every 2nd) net of the patch family and every net with pairwise distinct control points)
    for t in [t for t in out if t["kind"] == "curve"]:
        for ch in _chunks(t["polygons"], 40):
            out.append({"kind": "curve_hist", "polygons": ch, "hist_every": 4 if q else 1})
    hist_nets = []
    for t in [t for t in out if t["kind"] == "patch"]:
        hist_nets += [net for k, net in enumerate(t["nets"]) if k % (8 if q else 2) == 0 or _is_generic(net)]
    for ch in _chunks(hist_nets, 3):
        out.append({"kind": "patch_hist", "nets": ch})
    # ---- unit-of-length deviation of every sampler and of the Bezier evaluations
    # (one task = the reduced enumeration at unit 1 - reference, nothing reported - then at every other unit: a clause
    #  that already fails at unit 1 is reported by the regular tasks only, so one defect keeps one fingerprint)
    base = list(out)
    for ex in [list(SCALE_EXPS)]:
        for t in base:
            k = t["kind"]
            if k == "sphere":
                out.append(dict(t, n_pts=[1, 2, 9], sliding=False, scale_exps=ex))
            elif k == "ball" and t["n_pts"] == [N_PTS[0]]:
                out.append(dict(t, n_pts=[1, 9], sliding=False, scale_exps=ex))
            elif k == "aabb_grid":
                out.append(dict(t, scale_exps=ex))
            elif k == "aabb_uniform":
                out.append(dict(t, n_pts=[1, 2, 9] if t["dim"] <= 2 else [2], sliding=False, scale_exps=ex))
            elif k == "polyline":
                out.append(dict(t, n_pts=[1, 2], sliding=False, scale_exps=ex))
            elif k == "surface" and (not q or t["pointset"] == "moment" or t["nv"] == 3):
                out.append(dict(t, n_pts=[2], sliding=False, scale_exps=ex))
            elif k == "curve":
                out.append(dict(t, lite=True, scale_exps=ex))
            elif k == "patch":
                out.append(dict(t, nets=t["nets"][::(3 if q else 1)] , lite=True, scale_exps=ex))
    # ---- anisotropic deviation (extreme aspect ratios, magnitudes 2^k next to unit ones): coordinate k of every mesh vertex /
    # box corner / control point x 2^e[k]; needle triangles, edges whose lengths differ by 2^k, flat boxes (reduced draw scripts)
    ks = ANISO_EXPS[tier]
    i_surf = 0
    for t in base:
        k = t["kind"]
        if k in ("polyline", "surface"):
            main = _aniso_vectors(27, 3) + [[0, 13, 27]]
            if q or t.get("nv") == 4 and k == "polyline":
                # quick (and the 63 four-vertex graphs of thorough): three of the seven vectors per specimen, by rotation
                vecs = [main[(i_surf + j) % len(main)] for j in (0, 2, 4)]
            else:   # thorough: all seven at K = 27 and, by rotation, two vectors of each other K
                vecs = list(main)
                for kk in ks:
                    if kk != 27:
                        other = _aniso_vectors(kk, 3) + [[0, kk // 2, kk]]
                        vecs += [other[(i_surf + j) % len(other)] for j in (0, 3)]
            i_surf += 1
            if k == "polyline":
                out.append(dict(t, n_pts=[1, 2], sliding=False, anisos=vecs, aniso_units=[0]))
            elif not q or t["pointset"] == "moment" or t["nv"] == 3:
                out.append(dict(t, n_pts=[2], sliding=False, anisos=vecs, aniso_units=[0] if q else [0, -40]))
        elif k == "aabb_grid" and t["dim"] >= 2:
            out.append(dict(t, anisos=[v for kk in ks for v in _aniso_vectors(kk, t["dim"])]))
        elif k == "aabb_uniform" and t["dim"] >= 2:
            out.append(dict(t, n_pts=[1, 2, 9] if t["dim"] <= 2 else [2], sliding=False,
                            anisos=[v for kk in ks for v in _aniso_vectors(kk, t["dim"])][::(1 if t["dim"] <= 3 or not q else 2)]))
        elif k == "curve":
            out.append(dict(t, polygons=t["polygons"][::(4 if q else 1)], lite=True, anisos=[[ks[-1], 0, 0], [0, ks[-1], 0], [0, 0, ks[-1]]]))
        elif k == "patch":
            out.append(dict(t, nets=t["nets"][::(6 if q else 2)], lite=True, anisos=[[ks[-1], 0, 0], [0, ks[-1], 0], [0, 0, ks[-1]]]))
    # ---- call histories on the domain objects (boxes: derive / pad / sample; meshes: copy / transform / edit / sample; centre)
    for form in BOX_FORMS:
        for dim in (1, 2, 3):
            depth = (3 if dim == 2 else 2) if q else (4 if dim == 2 else 3)
            parts = 1 if q else (8 if depth == 4 else 2)
            for part in range(parts):
                out.append({"kind": "hist_box", "form": form, "dim": dim, "depth": depth, "part": [part, parts]})
    for form in CENTRE_FORMS:
        out.append({"kind": "hist_round", "form": form, "depth": 3})
    for spec in H_MESHES:
        out.append({"kind": "hist_mesh", "specimen": spec, "depth": (3 if spec.endswith("2") else 2) if q else 3,
                    "copies": [[False, False], [True, True]] if q else [[False, False], [True, False], [False, True], [True, True]]})
    # ---- documented defaults / argument forms of every public entry point (same in both tiers)
    for g in DEFAULTS_GROUPS:
        out.append({"kind": "defaults", "group": g})
    return out


def _aniso_vectors(k, dim):
    """all exponent vectors in {0, k}^dim but the two isotropic ones"""
    return [list(v) for v in itertools.product((0, k), repeat=dim) if 0 < sum(1 for x in v if x) < dim]


def _is_generic(net):
    flat = [tuple(p) for row in net for p in row]
    return len(set(flat)) == len(flat) and len(flat) > 1


def _generic_nets(m, n):
    """Nets whose control points are pairwise distinct lattice points (graph-like and twisted)."""
    hs = [lambda i, j: i * i - 2 * j, lambda i, j: 3 * i * j - j * j + 1]
    out = []
    for h in hs:
        out.append([[[2 * i - j, i + 3 * j, h(i, j)] for j in range(n)] for i in range(m)])
        out.append([[[h(i, j), 2 * j - 3 * i, i + 2 * j * j] for j in range(n)] for i in range(m)])
    return out


# ================================================================================================ plumbing
class Ctx:
    def __init__(self, rep: Report):
        self.rep = rep
        self.seam = L.Seam()
        self.seen = set()
        self.snap = L.rng_snapshot()      # state of numpy's global generator and of Python's random, chained
        self.ex = 0                       # unit of length of this task = 2^ex
        self.s = 1.0
        self.suffix = ""
        self.reference = False            # unit-of-length tasks: the run at unit 1, whose violations are only remembered
        self.ref_fps = set()
        self.aniso = None                 # anisotropic deviation: coordinate k of every input is multiplied by 2^aniso[k]
        self.unit_suffix = ""
        self.hist_suffix = ""             # call histories on the domain objects: what was done before the judged call

    def set_history(self, suffix):
        self.hist_suffix = suffix
        self._compose_suffix()

    def set_aniso(self, vec):
        """per-axis powers of two (exponents >= 0) applied to every coordinate of the inputs of this run"""
        self.aniso = [int(a) for a in vec] if vec and any(vec) else None
        self._compose_suffix()

    def _compose_suffix(self):
        self.suffix = (":anisotropic_scaling" if self.aniso else "") + self.unit_suffix + self.hist_suffix

    def axis(self, width):
        """factor by which coordinate k (k < width) of an input was multiplied: unit of length x 2^aniso[k] (exact)"""
        import numpy as np
        a = self.aniso or []
        return np.array([self.s * 2.0 ** (a[k] if k < len(a) else 0) for k in range(width)])

    def stretch(self, p):
        """an integer point in the (integer) anisotropically scaled frame (the unit of length is applied separately)"""
        a = self.aniso or []
        return [x * 2 ** (a[k] if k < len(a) else 0) for k, x in enumerate(p)]

    def set_unit(self, task, kind):
        self.ex = int(task.get("scale_exp", 0) or 0)
        self.s = 2.0 ** self.ex
        self.unit_suffix = f":unit_of_length=2^{self.ex}" if self.ex else ""
        self._compose_suffix()
        if self.ex:
            self.rep.flag(f"unit:2^{self.ex}:{kind}")
        if self.aniso:
            self.rep.flag(f"aniso:{kind}")
            self.rep.flag("aniso:2^%d" % max(self.aniso))
        return self.s

    def violation(self, sub, callee, kind, icls, detail):
        if kind == "raises:SeamError":   # the seam refused a draw: harness error (counted in _exec), not a verdict
            return
        if self.reference:
            self.ref_fps.add((sub, callee, kind, icls))
            return
        if (self.ex or self.aniso or self.hist_suffix) and (sub, callee, kind, icls) in self.ref_fps:
            self.rep.count("unit:violations_seen_at_unit_1_too")
            return
        icls = icls + self.suffix
        if self.ex and isinstance(detail, dict):
            detail = dict(detail, unit_of_length=f"every coordinate / radius shown here was multiplied by 2^{self.ex} "
                                                 "before the call, every answer divided by it")
        if self.aniso and isinstance(detail, dict):
            detail = dict(detail, anisotropic_scaling=f"coordinate k of every input point was multiplied by 2^e[k], e = {self.aniso}, "
                                                      "before the call (the coordinates shown are the stretched ones unless said otherwise)")
        fp = (sub, callee, kind, icls)
        self.rep.count("violating_executions:" + sub)
        if fp in self.seen:          # one record per fingerprint and task (the first = the simplest)
            return
        self.seen.add(fp)
        self.rep.violation(sub, callee, kind, icls, detail)


def _exec(ctx: Ctx, fn, *a, normals=(), uniforms=(), choices=(), strict=True, **k):
    """One execution of real code with a scripted environment; proves the harness owned the randomness.
    strict=False (argument forms whose answer is compared with the fully explicit call): draws left over / missing are
    not a harness error there - the answer differs and THAT is reported."""
    seam, rep = ctx.seam, ctx.rep
    seam.reset(normals, uniforms, choices)
    before = ctx.snap                 # snapshot taken right after the previous execution (harness code never draws)
    o = call(fn, *a, **k)
    after = ctx.snap = L.rng_snapshot()
    rep.traces += 1
    rep.states += 1
    rep.transitions += 1 + seam.n_draw_calls()
    if before != after:
        rep.count("harness:rng_state_changed")
        if len(rep.notes) < 3:
            rep.notes.append(f"global RNG state changed by {getattr(fn, '__name__', fn)}")
    if not o.ok and o.exc == "SeamError":
        rep.count("harness:unintercepted_draw")
        if len(rep.notes) < 3:
            rep.notes.append(o.msg)
    elif o.ok and strict and (seam.wrapped or seam.leftover()):
        rep.count("harness:draw_structure_unexpected")
        if len(rep.notes) < 3:
            rep.notes.append(f"{getattr(fn, '__name__', fn)}: draws {seam.log[:6]} leftover {seam.leftover()} wrapped {seam.wrapped}")
    return o


def _cloud_points(value):
    import numpy as np
    arr = np.array([np.asarray(v, dtype=float) for v in value.vertices], dtype=float)
    if arr.size == 0:
        arr = arr.reshape(0, 3)
    return arr


def _points_of(ctx, o, pc, sub, callee, icls, detail):
    """ndarray of the sampled points, or None after reporting a wrong return type."""
    import numpy as np
    import mouette as M
    v = o.value
    if pc:
        if not isinstance(v, M.mesh.PointCloud):
            ctx.violation(sub, callee, "mismatch:return_type", icls, dict(detail, got=type(v).__name__))
            return None
        return _cloud_points(v)
    if not isinstance(v, np.ndarray):
        ctx.violation(sub, callee, "mismatch:return_type", icls, dict(detail, got=type(v).__name__))
        return None
    return np.asarray(v, dtype=float)


# ================================================================================================ sphere / ball
def _radius_class(r):
    return "radius<1" if r < 1 else ("radius==1" if r == 1 else "radius>1")


class Deferred:
    """Violations of one task whose input class is only known at the end of the task: the class is the set
    of (radius class, centre class) on which the clause failed, 'any' when it failed on all of them."""

    def __init__(self, ctx, rclasses, cclasses):
        self.ctx, self.rall, self.call_ = ctx, set(rclasses), set(cclasses)
        self.items = {}

    def add(self, sub, callee, kind, rcls, ccls, detail):
        self.ctx.rep.count("violating_executions:" + sub)
        it = self.items.setdefault((sub, callee, kind), {"r": set(), "c": set(), "detail": detail})
        it["r"].add(rcls)
        it["c"].add(ccls)

    def flush(self):
        for (sub, callee, kind), it in self.items.items():
            r = "radius:any" if it["r"] == self.rall and len(self.rall) > 1 else "|".join(sorted(it["r"]))
            c = "centre:any" if it["c"] == self.call_ and len(self.call_) > 1 else "|".join(sorted(it["c"]))
            self.ctx.violation(sub, callee, kind, f"{r},{c}", it["detail"])


def _run_round(task, ctx: Ctx, ball):
    import numpy as np
    import mouette as M
    from mouette import sampling
    rep = ctx.rep
    name = "ball" if ball else "sphere"
    fn = sampling.sample_ball if ball else sampling.sample_sphere
    callee = "sampling.sample_" + name
    G = L.lattice_vectors(task["lat"])
    combos = [(g, u) for g in G for u in U6] if ball else [(g, None) for g in G]
    configs = [([float(x) for x in c], float(r)) for c, r in task["configs"]]
    s = ctx.set_unit(task, name)
    ccls_of = lambda c: "centre==0" if not any(c) else "centre!=0"
    dv = Deferred(ctx, {_radius_class(r) for _, r in configs}, {ccls_of(c) for c, _ in configs})
    for c, r in configs:
        rcls, ccls = _radius_class(r), ccls_of(c)
        carr = np.array(c)
        slack = 1e-15 * (max(abs(x) for x in c) + r)
        rep.flag(f"{name}:{rcls}")
        rep.flag(f"{name}:{ccls}")
        for n in task["n_pts"]:
            for pc in (False, True):
                for off, rows in L.windows(combos, n, task["sliding"]):
                    normals = [row[0][k] for k in range(3) for row in rows]      # k-th normal() call = k-th coordinate
                    uniforms = [row[1] for row in rows] if ball else ()
                    o = _exec(ctx, fn, M.Vec(*[x * s for x in c]), r * s, n, pc, normals=normals, uniforms=uniforms)
                    det = {"center": c, "radius": r, "n_pts": n, "return_point_cloud": pc,
                           "draws_per_point(normal xyz, uniform01)": rows[:3]}
                    rep.case((name, c, r, n, pc, off, ctx.ex))
                    if not o.ok:
                        dv.add(f"C19.{name}.returns", callee, exc_kind(o), rcls, ccls, dict(det, msg=o.msg))
                        continue
                    pts = _points_of(ctx, o, pc, f"C19.{name}.count", callee, "any", det)
                    if pts is None:
                        continue
                    pts = pts / s
                    rep.evaluations += 1 + len(pts)
                    if pts.shape != (n, 3):
                        dv.add(f"C19.{name}.count", callee, "mismatch:count", rcls, ccls, dict(det, got_shape=list(pts.shape)))
                        continue
                    if not np.isfinite(pts).all():
                        dv.add(f"C19.{name}.domain", callee, "mismatch:non_finite", rcls, ccls, dict(det, points=pts[:3]))
                        continue
                    d = np.sqrt(((pts - carr) ** 2).sum(axis=1))
                    if ball:
                        bad = d > r * (1 + 1e-12) + slack
                        rep.outcome("sample_ball.radial_fraction", f"{float(d[0] / r):.3g}")
                        if (d < 0.5 * r).any():
                            rep.flag("ball:strictly_inside_seen")
                    else:
                        bad = np.abs(d - r) > 1e-12 * r + slack
                        rep.outcome("sample_sphere.octant", str([int(s) for s in np.sign(pts[0] - carr)]))
                    if bad.any():
                        i = int(np.argmax(bad))
                        dv.add(f"C19.{name}.domain", callee, "mismatch:outside_ball" if ball else "mismatch:off_sphere",
                               rcls, ccls, dict(det, point_index=i, draws_of_point=rows[i], point=pts[i],
                                                distance_to_centre=float(d[i]), radius=r))
    dv.flush()
    rep.sample({"sampler": name, "center": c, "radius": r, "script_of_last_execution": rows[:2]})


# ================================================================================================ boxes
def _box_class(box):
    return "box==unit_cube" if all(lo == 0 and hi == 1 for lo, hi in box) else "box!=unit_cube"


def _check_box_points(ctx, o, pc, dim, box, mode, n, det, allowed_counts, hist=False):
    import numpy as np
    rep = ctx.rep
    callee = "sampling.sample_AABB"
    icls = f"mode={mode}:{_box_class(box)}"
    ccls = f"mode={mode}"                       # return / count clauses do not depend on where the box is
    if hist:                                    # call histories: one class (the mode and the box are in the detail; what was done to
        mode, icls, ccls = "history", "box", "box"   # the sampled box before is the suffix of the class)
    if not o.ok:
        ctx.violation(f"C19.aabb.{mode}.returns", callee, exc_kind(o), ccls, dict(det, msg=o.msg))
        return
    pts = _points_of(ctx, o, pc, f"C19.aabb.{mode}.count", callee, ccls, det)
    if pts is None:
        return
    pts = pts / (ctx.axis(pts.shape[1]) if pts.ndim == 2 else ctx.s)
    rep.evaluations += 1 + len(pts)
    width = 3 if pc else dim
    if pts.ndim != 2 or pts.shape[1] != width or pts.shape[0] not in allowed_counts:
        ctx.violation(f"C19.aabb.{mode}.count", callee, "mismatch:count", ccls,
                      dict(det, got_shape=list(pts.shape), allowed_counts=sorted(allowed_counts)))
        return
    rep.outcome(f"sample_AABB.{mode}.count", f"dim{dim}:{n}->{pts.shape[0]}")
    lo = np.array([b[0] for b in box], dtype=float)
    hi = np.array([b[1] for b in box], dtype=float)
    core = pts[:, :dim]
    ok = np.isfinite(pts).all() and (core >= lo).all() and (core <= hi).all()    # padding coordinates of a cloud: not stated
    if not ok:
        badrow = int(np.argmax(~(((core >= lo) & (core <= hi)).all(axis=1))))
        ctx.violation(f"C19.aabb.{mode}.inside", callee, "mismatch:outside_box", icls,
                      dict(det, point_index=badrow, point=pts[badrow]))
    elif len(pts) and (core > lo).all() and (core < hi).all():
        rep.flag(f"aabb:{mode}:strictly_inside_seen")


def _make_box(box, s=1.0):
    """s: one factor, or one factor per axis (exact powers of two)"""
    from mouette.geometry import AABB
    sv = [float(s)] * len(box) if isinstance(s, (int, float)) else [float(x) for x in s]
    return AABB([float(b[0]) * sv[k] for k, b in enumerate(box)], [float(b[1]) * sv[k] for k, b in enumerate(box)])


def _run_aabb_grid(task, ctx: Ctx):
    from mouette import sampling
    rep = ctx.rep
    dim = task["dim"]
    ctx.set_unit(task, "aabb_grid")
    s = ctx.axis(dim)
    for box in task["boxes"]:
        rep.flag(f"aabb:grid:dim{dim}")
        rep.flag("aabb:grid:" + _box_class(box))
        for n in task["n_pts"]:
            allowed = L.grid_counts_allowed(n, dim)
            rep.flag("aabb:grid:" + ("exact_power" if allowed == {n} else "non_power"))
            for pc in ((False, True) if dim <= 3 else (False,)):
                o = _exec(ctx, sampling.sample_AABB, _make_box(box, s), n, "grid", pc)
                det = {"box_min": [b[0] for b in box], "box_max": [b[1] for b in box], "n_pts": n, "mode": "grid",
                       "return_point_cloud": pc}
                rep.case(("grid", box, n, pc, ctx.ex))
                _check_box_points(ctx, o, pc, dim, box, "grid", n, det, allowed)
    rep.sample({"sampler": "sample_AABB", "mode": "grid", "box": task["boxes"][-1], "n_pts": task["n_pts"]})


def _run_aabb_uniform(task, ctx: Ctx):
    from mouette import sampling
    rep = ctx.rep
    dim = task["dim"]
    combos = list(itertools.product(U6, repeat=dim))
    ctx.set_unit(task, "aabb_uniform")
    s = ctx.axis(dim)
    for box in task["boxes"]:
        rep.flag(f"aabb:uniform:dim{dim}")
        for n in task["n_pts"]:
            for pc in ((False, True) if dim <= 3 else (False,)):
                for off, rows in L.windows(combos, n, task["sliding"]):
                    uniforms = [x for row in rows for x in row]           # one random((n,dim)) call, row-major
                    o = _exec(ctx, sampling.sample_AABB, _make_box(box, s), n, "uniform", pc, uniforms=uniforms)
                    det = {"box_min": [b[0] for b in box], "box_max": [b[1] for b in box], "n_pts": n,
                           "mode": "uniform", "return_point_cloud": pc, "uniform01_draws_per_point": rows[:3]}
                    rep.case(("uniform", box, n, pc, off, ctx.ex))
                    _check_box_points(ctx, o, pc, dim, box, "uniform", n, det, {n})
    rep.sample({"sampler": "sample_AABB", "mode": "uniform", "box": task["boxes"][-1], "script_of_last_execution": rows[:2]})


# ================================================================================================ polylines
def _close(x, y, rel=1e-9):
    return abs(x - y) <= rel * max(1.0, abs(x), abs(y))


def _placements(task):
    pts, nv = task["points"], task["nv"]
    if task["placements"] == "all":
        return [list(p) for p in itertools.permutations(pts, nv)]
    return [pts[:nv], pts[:nv][::-1]]


def _polyline_geometry(coords, medges, unit=1.0):
    sq = [sum((coords[a][k] - coords[b][k]) ** 2 for k in range(3)) for a, b in medges]
    scale = max(1.0, max(abs(x) for p in coords for x in p))
    NE = len(medges)
    return {"coords": coords, "medges": medges, "sq": sq, "elen": [math.sqrt(q) for q in sq], "want_p": L.shares(sq), "NE": NE,
            "icls": "NE==1" if NE == 1 else "NE>1", "unit": unit, "tol_len": 1e-12 * scale, "tol": 1e-12}


def _judge_polyline_sample(ctx, o, G, n, pc, rows, det):
    """ONE answer of sample_polyline against the exact expectations for the polyline G (integer coordinates, in the unit G['unit'])"""
    import numpy as np
    rep = ctx.rep
    callee = "sampling.sample_polyline"
    coords, medges, sq, elen, want_p, NE, icls, unit = (G[k] for k in ("coords", "medges", "sq", "elen", "want_p", "NE", "icls", "unit"))
    tol_len, tol = G["tol_len"], G["tol"]
    if not o.ok:
        ctx.violation("C19.polyline.returns", callee, exc_kind(o), icls, dict(det, msg=o.msg))
        return
    pts = _points_of(ctx, o, pc, "C19.polyline.count", callee, icls, det)
    if pts is None:
        return
    pts = pts / unit
    rep.evaluations += 1 + len(pts)
    if pts.shape != (n, 3):
        ctx.violation("C19.polyline.count", callee, "mismatch:count", icls, dict(det, got_shape=list(pts.shape)))
        return
    if not np.isfinite(pts).all():
        ctx.violation("C19.polyline.on_edge", callee, "mismatch:non_finite", "any", dict(det, points=pts[:3]))
        return
    # ---- the distribution over edges, decided exactly from what `choice` was given
    calls = ctx.seam.choice_calls
    chosen = None
    if NE > 1:
        if len(calls) != 1 or calls[0]["a"] != NE:
            rep.count("harness:share_undecided")
        else:
            rep.flag("polyline:choice_called")
            got_p = calls[0]["p"] if calls[0]["p"] is not None else [1.0 / NE] * NE   # no p = uniform
            rep.evaluations += 1
            if len(got_p) != NE or not all(_close(x, y) for x, y in zip(got_p, want_p)):
                ctx.violation("C19.polyline.share", callee, "mismatch:probabilities", icls,
                              dict(det, got_p=got_p, exact_shares=want_p, squared_lengths=sq))
            if len(calls[0]["returned"]) == n:
                chosen = calls[0]["returned"]
            if len(set(round(x, 12) for x in want_p)) > 1:
                rep.flag("polyline:unequal_shares")
                if unit * math.fsum(math.sqrt(q) for q in sq) < 1e-8:
                    rep.flag("polyline:unequal_shares:total_length<1e-8")
    else:
        chosen = [0] * n
    # ---- every point on an edge (exact test); on the edge that was drawn for it
    for i in range(n):
        p = [float(x) for x in pts[i]]
        hit = []
        for e, (a, b) in enumerate(medges):
            dist, s = L.segment_coords(p, coords[a], coords[b])
            # on the closed edge up to a rounding of the coordinates: as a fraction of the edge, or as a
            # length (1e-12 x largest coordinate) - edges of one polyline may differ in length by 2^27
            if dist <= tol_len and (-tol <= s <= 1 + tol or -tol_len <= s * elen[e] <= elen[e] + tol_len):
                hit.append(e)
        if not hit:
            ctx.violation("C19.polyline.on_edge", callee, "mismatch:off_every_edge", "any",
                          dict(det, point_index=i, point=p, draws_of_point=rows[i]))
        elif chosen is not None and chosen[i] not in hit:
            ctx.violation("C19.polyline.share", callee, "mismatch:not_on_drawn_edge", "any",
                          dict(det, point_index=i, point=p, drawn_edge=chosen[i], edges_containing_point=hit))
        rep.outcome("sample_polyline.edge_hit", str(hit))


def _run_polyline(task, ctx: Ctx):
    import numpy as np
    from mouette import sampling
    from mc import families as F
    rep = ctx.rep
    callee = "sampling.sample_polyline"
    edges_in = [tuple(e) for e in task["edges"]]
    NE = len(edges_in)
    combos = [(e, t) for e in range(NE) for t in U6]
    icls = "NE==1" if NE == 1 else "NE>1"
    rep.flag("polyline:" + icls)
    unit = ctx.set_unit(task, "polyline")
    for coords in _placements(task):
        coords = [ctx.stretch(p) for p in coords]          # integers (anisotropic deviation: coordinate k x 2^e[k])
        mesh = F.build_polyline([[x * unit for x in p] for p in coords], edges_in)
        medges = [tuple(int(v) for v in mesh.edges[e]) for e in range(len(mesh.edges))]
        if len(medges) != NE:
            raise RuntimeError("family member changed by the constructor")   # input family broken: harness error
        G = _polyline_geometry(coords, medges, unit)
        if ctx.aniso and max(G["sq"]) >= 2 ** 40 * min(G["sq"]):
            rep.flag("aniso:polyline:edge_lengths_differ_by>=2^20")
        for pc in (False, True):
            for n in task["n_pts"]:
                for off, rows in L.windows(combos, n, task["sliding"]):
                    choices = [row[0] for row in rows] if NE > 1 else ()
                    uniforms = [row[1] for row in rows]
                    o = _exec(ctx, sampling.sample_polyline, mesh, n, pc, choices=choices, uniforms=uniforms)
                    det = {"vertices": coords, "edges": medges, "n_pts": n, "return_point_cloud": pc,
                           "draws_per_point(edge index, uniform01)": rows[:3]}
                    rep.case(("polyline", coords, medges, n, pc, off, ctx.ex))
                    _judge_polyline_sample(ctx, o, G, n, pc, rows, det)
    rep.sample({"sampler": "sample_polyline", "vertices": coords, "edges": medges, "script_of_last_execution": rows[:2]})


# ================================================================================================ surfaces
def _surface_geometry(coords, mfaces, usc=1.0):
    """exact data of a triangulated surface on integer coordinates; None if a face has no area (outside the statement)"""
    nrm = [L.tri_normal_int(*(coords[v] for v in f)) for f in mfaces]
    sq = [sum(x * x for x in nv_) for nv_ in nrm]                 # (2*area)^2, exact
    if min(sq) == 0:
        return None
    scale = max(1.0, max(abs(x) for p in coords for x in p))
    NF = len(mfaces)
    return {"coords": coords, "mfaces": mfaces, "sq": sq, "want_p": L.shares(sq), "NF": NF, "icls": "NF==1" if NF == 1 else "NF>1",
            "usc": usc, "unit": [[x / math.sqrt(s) for x in nv_] for nv_, s in zip(nrm, sq)], "tol_len": 1e-12 * scale, "tol": 1e-12}


def _judge_surface_sample(ctx, o, G, n, pc, wn, rows, det):
    """ONE answer of sample_surface against the exact expectations for the surface G (integer coordinates, in the unit G['usc'])"""
    import numpy as np
    rep = ctx.rep
    callee = "sampling.sample_surface"
    coords, mfaces, sq, want_p, NF, icls, usc, unit = (G[k] for k in ("coords", "mfaces", "sq", "want_p", "NF", "icls", "usc", "unit"))
    tol_len, tol = G["tol_len"], G["tol"]
    if not o.ok:
        ctx.violation("C19.surface.returns", callee, exc_kind(o), icls, dict(det, msg=o.msg))
        return
    val, normals = o.value, None
    if wn and not pc:
        if not (isinstance(val, tuple) and len(val) == 2):
            ctx.violation("C19.surface.normals", callee, "mismatch:return_type", icls, dict(det, got=type(val).__name__))
            return
        val, normals = val
        normals = np.asarray(normals, dtype=float)
    o2 = type(o)(True, val)
    pts = _points_of(ctx, o2, pc, "C19.surface.count", callee, icls, det)
    if pts is None:
        return
    pts = pts / usc
    if wn and pc:
        if not val.vertices.has_attribute("normals"):
            ctx.violation("C19.surface.normals", callee, "mismatch:no_normals_attribute", icls, det)
            return
        attr = val.vertices.get_attribute("normals")
        got = call(lambda: np.array([np.asarray(attr[i], dtype=float) for i in range(len(val.vertices))]))
        if not got.ok:
            ctx.violation("C19.surface.normals", callee, exc_kind(got), icls, dict(det, msg=got.msg))
            return
        normals = got.value.reshape(-1, 3) if got.value.size else got.value.reshape(0, 3)
    rep.evaluations += 1 + len(pts)
    if pts.shape != (n, 3) or (normals is not None and normals.shape != (n, 3)):
        ctx.violation("C19.surface.count", callee, "mismatch:count", icls,
                      dict(det, got_shape=list(pts.shape), normals_shape=None if normals is None else list(normals.shape)))
        return
    if not np.isfinite(pts).all():
        ctx.violation("C19.surface.in_face", callee, "mismatch:non_finite", "any", dict(det, points=pts[:3]))
        return
    calls = ctx.seam.choice_calls
    chosen = None
    if len(calls) != 1 or calls[0]["a"] != NF:
        rep.count("harness:share_undecided")
    else:
        rep.flag("surface:choice_called")
        got_p = calls[0]["p"] if calls[0]["p"] is not None else [1.0 / NF] * NF       # no p = uniform
        rep.evaluations += 1
        if len(got_p) != NF or not all(_close(x, y) for x, y in zip(got_p, want_p)):
            ctx.violation("C19.surface.share", callee, "mismatch:probabilities", icls,
                          dict(det, got_p=got_p, exact_shares=want_p, squared_double_areas=sq))
        if len(calls[0]["returned"]) == n:
            chosen = calls[0]["returned"]
        if len(set(round(x, 12) for x in want_p)) > 1:
            rep.flag("surface:unequal_shares")
    for i in range(n):
        p = [float(x) for x in pts[i]]
        hit = []
        for f, fv in enumerate(mfaces):
            dist, bary = L.triangle_coords(p, *(coords[v] for v in fv))
            if dist <= tol_len and min(bary) >= -tol:
                hit.append(f)
            elif dist <= tol_len and min(L.triangle_margins(p, *(coords[v] for v in fv))[1]) >= -tol_len:
                hit.append(f)      # inside up to a rounding of the coordinates, stated as a length: a needle
                rep.flag("surface:needle_tolerance_used")   # triangle turns one ulp into ulp / altitude
        if not hit:
            ctx.violation("C19.surface.in_face", callee, "mismatch:outside_every_face", "any",
                          dict(det, point_index=i, point=p, draws_of_point=rows[i]))
        elif chosen is not None and chosen[i] not in hit:
            ctx.violation("C19.surface.share", callee, "mismatch:not_in_drawn_face", "any",
                          dict(det, point_index=i, point=p, drawn_face=chosen[i], faces_containing_point=hit))
        rep.outcome("sample_surface.face_hit", str(hit))
        if normals is not None and hit:
            rep.evaluations += 1
            rep.flag("surface:normal_checked")
            nv_ = [float(x) for x in normals[i]]
            if not any(all(abs(x - y) <= 1e-9 for x, y in zip(nv_, unit[f])) for f in hit):
                ctx.violation("C19.surface.normals", callee, "mismatch:not_the_face_normal", "any",
                              dict(det, point_index=i, point=p, got_normal=nv_,
                                   unit_normals_of_faces_containing_point={str(f): unit[f] for f in hit}))


def _run_surface(task, ctx: Ctx):
    import numpy as np
    from mouette import sampling
    from mc import families as F
    rep = ctx.rep
    callee = "sampling.sample_surface"
    coords = [ctx.stretch(p) for p in SURF_POINTS[task["pointset"]][:task["nv"]]]     # integers
    faces_in = [tuple(f) for f in task["faces"]]
    NF = len(faces_in)
    icls = "NF==1" if NF == 1 else "NF>1"
    rep.flag("surface:" + icls)
    usc = ctx.set_unit(task, "surface")
    mesh = F.build_surface([[x * usc for x in p] for p in coords], faces_in)
    mfaces = [tuple(int(v) for v in mesh.faces[f]) for f in range(len(mesh.faces))]
    if sorted(mfaces) != sorted(faces_in) and len(mfaces) != NF:
        raise RuntimeError("family member changed by the constructor")
    G = _surface_geometry(coords, mfaces, usc)
    if G is None:
        rep.count("filtered_degenerate")
        return
    sq, want_p = G["sq"], G["want_p"]
    if ctx.aniso:
        for f, fv in enumerate(mfaces):      # aspect ratio (longest edge / altitude on it)^2 = longest^4 / (2 area)^2, exact
            lsq = max(sum((coords[a][k] - coords[b][k]) ** 2 for k in range(3)) for a, b in ((fv[0], fv[1]), (fv[1], fv[2]), (fv[2], fv[0])))
            if lsq * lsq >= 2 ** 40 * sq[f]:
                rep.flag("aniso:surface:needle_face(aspect>=2^20)")
        if len(set(round(x, 12) for x in want_p)) > 1:
            rep.flag("aniso:surface:unequal_shares")
    combos = [(f, u1, u2) for f in range(NF) for u1 in U6 for u2 in U6]
    for pc, wn in ((False, False), (False, True), (True, False), (True, True)):
        rep.flag(f"surface:pc={pc}:normals={wn}")
        for n in task["n_pts"]:
            for off, rows in L.windows(combos, n, task["sliding"]):
                choices = [row[0] for row in rows]
                uniforms = [x for row in rows for x in row[1:]]
                o = _exec(ctx, sampling.sample_surface, mesh, n, pc, wn, choices=choices, uniforms=uniforms)
                det = {"vertices": coords, "faces": mfaces, "n_pts": n, "return_point_cloud": pc, "return_normals": wn,
                       "draws_per_point(face index, u1, u2)": rows[:3]}
                rep.case(("surface", task["pointset"], mfaces, n, pc, wn, off, ctx.ex))
                _judge_surface_sample(ctx, o, G, n, pc, wn, rows, det)
    rep.sample({"sampler": "sample_surface", "vertices": coords, "faces": mfaces, "script_of_last_execution": rows[:2]})


# ================================================================================================ Bezier
def _num(x):
    return float(x) if isinstance(x, str) else x


def _vec(v, s=1.0):
    """the answer as a list of floats, in the caller's unit of length (division by a power of two: exact)"""
    import numpy as np
    a = np.asarray(v, dtype=float).ravel()
    if isinstance(s, (int, float)):
        return [float(x) / s for x in a]
    return [float(x) / (float(s[k]) if k < len(s) else 1.0) for k, x in enumerate(a)]   # one factor per axis (anisotropic deviation)


def _vclose(got, want, scale):
    return len(got) == len(want) and all(abs(g - float(w)) <= 1e-9 * scale for g, w in zip(got, want))


def _pad3(p):
    return list(p) + [0] * (3 - len(p))


def _hull_ok(pt, ctrl, scale):
    """necessary conditions of hull membership: support-function bounds in 13 lattice directions."""
    tol = 1e-9 * scale
    P3 = [_pad3(c) for c in ctrl]
    q = _pad3(pt)
    for d in HULL_DIRS:
        vals = [sum(a * b for a, b in zip(d, c)) for c in P3]
        x = sum(a * b for a, b in zip(d, q))
        if x < min(vals) - tol or x > max(vals) + tol:
            return False
    return True


def _run_curves(task, ctx: Ctx):
    import numpy as np
    import mouette as M
    rep = ctx.rep
    ctx.set_unit(task, "curve")
    lite = bool(task.get("lite"))          # unit-of-length tasks: evaluations and two exports per polygon
    for ip, poly in enumerate(task["polygons"]):
        deg, dim = len(poly) - 1, len(poly[0])
        s = ctx.axis(dim)                    # factor of every axis: unit of length x anisotropic deviation (powers of two)
        rep.flag(f"curve:degree{deg}:{dim}d")
        icls = f"{dim}d"                     # coarse class of a violation (degree is in the detail)
        eval_bad = False
        scale = max(1.0, max(abs(x) for p in poly for x in p))
        Pq = [tuple(Fr(x) for x in p) for p in poly]
        # control points are handed over as float tuples or, every other polygon, as integer tuples (the lattice
        # alphabet is integral): the value must not depend on the number type of the control points
        as_int = ip % 2 == 1 and all((float(x) * s[k]).is_integer() for p in poly for k, x in enumerate(p))
        if as_int:
            icls += ":int_control_points"
            rep.flag("curve:int_control_points")
        o = call(M.splines.BezierCurve, [tuple((int(x * s[k]) if as_int else float(x) * s[k]) for k, x in enumerate(p)) for p in poly])
        rep.traces += 1
        rep.states += 1
        if not o.ok:
            ctx.violation("C19.bezier.curve.construct", "BezierCurve", exc_kind(o), icls, {"control_points": poly, "msg": o.msg})
            continue
        curve = o.value
        if len(set(map(tuple, poly))) > 1:
            rep.case(("curve", poly, ctx.ex))
        # ---- evaluation = Bernstein form; end points; hull
        for t in PARAMS:
            o = call(curve.evaluate, t)
            rep.transitions += 1
            rep.evaluations += 1
            det = {"control_points": poly, "t": t}
            if not o.ok:
                ctx.violation("C19.bezier.curve.evaluate", "BezierCurve.evaluate", exc_kind(o), "any", dict(det, msg=o.msg))
                rep.outcome("curve.evaluate", "raises")
                continue
            rep.outcome("curve.evaluate", "ok")
            got = _vec(o.value, s)
            want = L.bernstein_curve(Pq, L.frac(t))
            if not _vclose(got, want, scale):
                eval_bad = True
                ctx.violation("C19.bezier.curve.evaluate", "BezierCurve.evaluate", "mismatch:bernstein", "any",
                              dict(det, got=got, want=[float(x) for x in want]))
            if t in (0.0, 1.0) and not _vclose(got, Pq[0] if t == 0.0 else Pq[-1], 1e-3 * scale):
                ctx.violation("C19.bezier.curve.endpoints", "BezierCurve.evaluate", "mismatch:endpoint", "any", dict(det, got=got))
            if not _hull_ok(got, poly, scale):
                ctx.violation("C19.bezier.curve.hull", "BezierCurve.evaluate", "mismatch:outside_hull", "any", dict(det, got=got))
        # ---- rejection outside [0,1]
        for tb in ([] if lite else BAD_PARAMS):
            t = _num(tb)
            o = call(curve.evaluate, t)
            rep.transitions += 1
            rep.evaluations += 1
            rep.flag("reject:" + str(tb))
            if o.ok:
                ctx.violation("C19.bezier.curve.reject", "BezierCurve.evaluate", "mismatch:accepted_out_of_range",
                              "t=nan" if t != t else ("t<0" if t < 0 else "t>1"),
                              {"control_points": poly, "t": tb, "got": _vec(o.value)})
                rep.outcome("curve.evaluate", "ok-out-of-range")
            else:
                rep.outcome("curve.evaluate", "raises")
        # ---- polyline export, all resolutions
        for n in (RESOLUTIONS[:2] if lite else RESOLUTIONS):
            o = call(curve.as_polyline, n)
            rep.traces += 1
            rep.transitions += 1
            _check_polyline_export(ctx, o, poly, Pq, n, [Fr(i, n - 1) for i in range(n)], icls, "linspace",
                                   {"control_points": poly, "n_pts": n}, scale, eval_bad=eval_bad)
        # ---- custom positions (sample count = len(custom_pos))
        customs = [[0.0, 1.0], [0.0, 0.5, 1.0], [0.0, 0.25, 1.0 / 3.0, 0.5, 1.0]]
        if lite:
            customs = customs[2:]
        elif ip < 2:
            customs.append([i / 100.0 for i in range(101)])
        for pos in customs:
            o = call(curve.as_polyline, custom_pos=list(pos))
            rep.traces += 1
            rep.transitions += 1
            cls = "len(custom_pos)<=100" if len(pos) <= 100 else "len(custom_pos)>100(default n_pts)"
            rep.flag("custom_pos:" + cls)
            _check_polyline_export(ctx, o, poly, Pq, len(pos), [L.frac(x) for x in pos], icls, cls,
                                   {"control_points": poly, "custom_pos": pos if len(pos) < 8 else f"[i/100 for i in range({len(pos)})]"},
                                   scale, custom=True, eval_bad=eval_bad)
    rep.sample({"bezier_curve": task["polygons"][-1], "parameters": PARAMS, "resolutions": RESOLUTIONS})


def _check_polyline_export(ctx, o, poly, Pq, n, params, icls, rcls, det, scale, custom=False, eval_bad=False):
    rep = ctx.rep
    s = ctx.axis(3)
    sub = "C19.bezier.curve.export" + (".custom_pos" if custom else "")
    callee = "BezierCurve.as_polyline"
    cls = f"{icls}:{rcls}"
    rep.evaluations += 1
    if not o.ok:
        ctx.violation(sub, callee, exc_kind(o), cls, dict(det, msg=o.msg))
        return
    pl = o.value
    nv = len(pl.vertices)
    if nv != n:
        ctx.violation(sub, callee, "mismatch:vertex_count", cls, dict(det, got=nv, want=n))
        return
    # the samples, in order: vertex i is the curve at parameter i (3-D, 2-D control points padded with 0)
    for i in range(n):
        rep.evaluations += 1
        got = _vec(pl.vertices[i], s)
        want = _pad3(L.bernstein_curve(Pq, params[i]))
        if not _vclose(got, want, scale):
            if not eval_bad:      # positions are evaluate()'s answers: a wrong evaluate is reported once, there
                ctx.violation(sub, callee, "mismatch:vertex_position", cls,
                              dict(det, vertex=i, got=got, want=[float(x) for x in want]))
            return
    edges = [tuple(int(v) for v in pl.edges[e]) for e in range(len(pl.edges))]
    want_edges = sorted((i, i + 1) for i in range(n - 1))
    got_edges = sorted(tuple(sorted(e)) for e in edges)
    if got_edges != want_edges:
        out_of_range = [e for e in edges if not all(0 <= v < nv for v in e)]
        ctx.violation(sub, callee, "mismatch:edge_indices", rcls,      # indices do not depend on the dimension
                      dict(det, n_vertices=nv, n_edges=len(edges), want_n_edges=n - 1, out_of_range=out_of_range[:3],
                           last_edges=edges[-2:]))


def _run_patches(task, ctx: Ctx):
    import numpy as np
    import mouette as M
    rep = ctx.rep
    ctx.set_unit(task, "patch")
    s = ctx.axis(3)
    lite = bool(task.get("lite"))          # unit-of-length tasks: evaluations and two exports per net
    for inet, net in enumerate(task["nets"]):
        m, n = len(net), len(net[0])
        rep.flag(f"patch:net{m}x{n}")
        icls = "rows==cols" if m == n else "rows!=cols"      # coarse class (the net is in the detail)
        as_int = inet % 2 == 1 and all((float(x) * s[k]).is_integer() for row in net for p in row for k, x in enumerate(p))
        if as_int:
            icls += ":int_control_points"
        eval_bad = [False]
        flat = [p for row in net for p in row]
        scale = max(1.0, max(abs(x) for p in flat for x in p))
        Pq = [[tuple(Fr(x) for x in p) for p in row] for row in net]
        o = call(M.splines.BezierPatch, [[tuple((int(x * s[k]) if as_int else float(x) * s[k]) for k, x in enumerate(p)) for p in row] for row in net])
        rep.traces += 1
        rep.states += 1
        if not o.ok:
            ctx.violation("C19.bezier.patch.construct", "BezierPatch", exc_kind(o), icls, {"control_net": net, "msg": o.msg})
            continue
        patch = o.value
        if len(set(map(tuple, flat))) > 1:
            rep.case(("patch", net, ctx.ex))
        # conventions still compatible with everything this net answered so far:
        #   "u_inner": S(u,v) = sum_ij B_i(v) B_j(u) P[i][j]   "u_outer": S(u,v) = sum_ij B_i(u) B_j(v) P[i][j]
        conv = {"u_inner", "u_outer"}

        memo = {}

        def oracle(u, v):
            if (u, v) not in memo:
                memo[(u, v)] = {"u_inner": L.bernstein_patch(Pq, v, u), "u_outer": L.bernstein_patch(Pq, u, v)}
            return memo[(u, v)]

        def narrow(got, u, v):
            nonlocal conv
            w = oracle(u, v)
            ok = {c for c in conv if _vclose(got, w[c], scale)}
            if ok:
                conv = ok
            return bool(ok), w

        corners = {}
        for u in PARAMS:
            for v in PARAMS:
                o = call(patch.evaluate, u, v)
                rep.transitions += 1
                rep.evaluations += 1
                det = {"control_net": net, "u": u, "v": v}
                if not o.ok:
                    ctx.violation("C19.bezier.patch.evaluate", "BezierPatch.evaluate", exc_kind(o), icls, dict(det, msg=o.msg))
                    rep.outcome("patch.evaluate", "raises")
                    continue
                rep.outcome("patch.evaluate", "ok")
                got = _vec(o.value, s)
                ok, w = narrow(got, L.frac(u), L.frac(v))
                if not ok:
                    eval_bad[0] = True
                    ctx.violation("C19.bezier.patch.evaluate", "BezierPatch.evaluate", "mismatch:bernstein", icls,
                                  dict(det, got=got, want_either={k: [float(x) for x in x_] for k, x_ in w.items()},
                                       conventions_still_allowed=sorted(conv)))
                if u in (0.0, 1.0) and v in (0.0, 1.0):
                    corners[(u, v)] = got
                if not _hull_ok(got, flat, scale):
                    ctx.violation("C19.bezier.patch.hull", "BezierPatch.evaluate", "mismatch:outside_hull", icls, dict(det, got=got))
        if len(corners) == 4:
            rep.evaluations += 1
            c00, c11 = [float(x) for x in net[0][0]], [float(x) for x in net[-1][-1]]
            c0n, cm0 = [float(x) for x in net[0][-1]], [float(x) for x in net[-1][0]]
            okc = (_vclose(corners[(0.0, 0.0)], c00, 1e-3 * scale) and _vclose(corners[(1.0, 1.0)], c11, 1e-3 * scale)
                   and ((_vclose(corners[(1.0, 0.0)], c0n, 1e-3 * scale) and _vclose(corners[(0.0, 1.0)], cm0, 1e-3 * scale))
                        or (_vclose(corners[(1.0, 0.0)], cm0, 1e-3 * scale) and _vclose(corners[(0.0, 1.0)], c0n, 1e-3 * scale))))
            if not okc:
                ctx.violation("C19.bezier.patch.corners", "BezierPatch.evaluate", "mismatch:corner", icls,
                              {"control_net": net, "corner_values": {str(k): v for k, v in corners.items()}})
        # ---- rejection
        bads = [(b, 0.5) for b in BAD_PARAMS] + [(0.5, b) for b in BAD_PARAMS] + [(b, b) for b in BAD_PARAMS[:4]]
        if lite:
            bads = []
        for ub, vb in bads:
            u, v = _num(ub), _num(vb)
            o = call(patch.evaluate, u, v)
            rep.transitions += 1
            rep.evaluations += 1
            if o.ok:
                which = "u" if vb == 0.5 else ("v" if ub == 0.5 else "u,v")
                ctx.violation("C19.bezier.patch.reject", "BezierPatch.evaluate", "mismatch:accepted_out_of_range",
                              f"{which} outside [0,1]", {"control_net": net, "u": ub, "v": vb, "got": _vec(o.value)})
                rep.outcome("patch.evaluate", "ok-out-of-range")
            else:
                rep.outcome("patch.evaluate", "raises")
        # ---- surface export for every pair of resolutions
        for n1 in RESOLUTIONS:
            for n2 in RESOLUTIONS:
                if lite and (n1, n2) not in ((2, 3), (3, 2)):
                    continue
                o = call(patch.as_surface, n1, n2)
                rep.traces += 1
                rep.transitions += 1
                rcls = "n1==n2" if n1 == n2 else "n1!=n2"
                rep.flag("as_surface:" + ("n1==n2" if n1 == n2 else ("n1<n2" if n1 < n2 else "n1>n2")))
                _check_surface_export(ctx, o, net, n1, n2, rcls, narrow, scale, eval_bad[0])
        if len(conv) == 1:
            rep.flag("patch_convention:" + next(iter(conv)))
    rep.sample({"bezier_patch": task["nets"][-1], "parameters": PARAMS, "resolutions": RESOLUTIONS})


def _grid_index(x, n):
    """index i with x == i/(n-1) (1e-12), else None."""
    i = round(x * (n - 1))
    return i if 0 <= i < n and abs(x - i / (n - 1)) <= 1e-12 else None


def _check_surface_export(ctx, o, net, n1, n2, rcls, narrow, scale, eval_bad=False):
    rep = ctx.rep
    sub, callee = "C19.bezier.patch.export", "BezierPatch.as_surface"
    det = {"control_net": net, "n1": n1, "n2": n2}
    rep.evaluations += 1
    if not o.ok:
        ctx.violation(sub, callee, exc_kind(o), rcls, dict(det, msg=o.msg))
        return
    mesh = o.value
    nv = len(mesh.vertices)
    if nv != n1 * n2:
        ctx.violation(sub, callee, "mismatch:vertex_count", rcls, dict(det, got=nv, want=n1 * n2))
        return
    # parameters of every vertex: the exported uv attribute if present, else the row-major layout
    if mesh.vertices.has_attribute("uv_coords"):
        attr = mesh.vertices.get_attribute("uv_coords")
        uv = [[float(x) for x in attr[k]] for k in range(nv)]
    else:
        rep.count("as_surface:no_uv_attribute")
        uv = [[(k // n2) / (n1 - 1), (k % n2) / (n2 - 1)] for k in range(nv)]
    cell = None
    for (a, b) in ((n1, n2), (n2, n1)):
        ij = [(_grid_index(u, a), _grid_index(v, b)) for u, v in uv]
        if all(i is not None and j is not None for i, j in ij) and len(set(ij)) == a * b:
            cell = ij
            break
    if cell is None:
        ctx.violation(sub, callee, "mismatch:uv_grid", rcls, dict(det, uv_coords=uv[:8]))
        return
    for k in range(nv):
        rep.evaluations += 1
        got = _vec(mesh.vertices[k], ctx.axis(3))
        ok, w = narrow(got, L.frac(uv[k][0]), L.frac(uv[k][1]))
        if not ok:
            if not eval_bad:      # a wrong evaluate() is reported once, under C19.bezier.patch.evaluate
                ctx.violation(sub, callee, "mismatch:vertex_position", rcls,
                              dict(det, vertex=k, uv=uv[k], got=got, want_either={c: [float(x) for x in x_] for c, x_ in w.items()}))
            return
    faces = [tuple(int(v) for v in mesh.faces[f]) for f in range(len(mesh.faces))]
    want_nf = (n1 - 1) * (n2 - 1)
    problem = None
    if len(faces) != want_nf:
        problem = {"why": "face count", "got": len(faces), "want": want_nf}
    seen_cells = set()
    for f in faces:
        if problem:
            break
        if len(f) != 4 or not all(0 <= v < nv for v in f):
            problem = {"why": "index out of range", "face": list(f), "n_vertices": nv}
            break
        c = [cell[v] for v in f]
        i0, j0 = min(x[0] for x in c), min(x[1] for x in c)
        if set(c) != {(i0, j0), (i0 + 1, j0), (i0, j0 + 1), (i0 + 1, j0 + 1)}:
            problem = {"why": "corners are not the four corners of one grid cell", "face": list(f),
                       "grid_positions_of_corners": [list(x) for x in c]}
            break
        if any(abs(c[k][0] - c[(k + 1) % 4][0]) + abs(c[k][1] - c[(k + 1) % 4][1]) != 1 for k in range(4)):
            problem = {"why": "corners not in cyclic order around the cell", "face": list(f)}
            break
        if (i0, j0) in seen_cells:
            problem = {"why": "grid cell exported twice", "face": list(f)}
            break
        seen_cells.add((i0, j0))
    if problem:
        ctx.violation(sub, callee, "mismatch:face_indices", rcls, dict(det, all_faces=[list(f) for f in faces][:8], **problem))


# ================================================================================================ Bezier: call histories, ownership
def _ctrl_arg(points, form, nested):
    """The caller's control points in one argument form (tuples / one ndarray / Vec objects) and their values."""
    import numpy as np
    import mouette as M
    if nested:
        vals = [[[float(x) for x in p] for p in row] for row in points]
    else:
        vals = [[float(x) for x in p] for p in points]
    if form == "ndarray":
        arg = np.array(vals, dtype=float)
    elif form == "vecs":
        arg = [[M.Vec(*p) for p in row] for row in vals] if nested else [M.Vec(*p) for p in vals]
    else:
        arg = [[tuple(p) for p in row] for row in vals] if nested else [tuple(p) for p in vals]
    return arg, vals


def _values(arg):
    import numpy as np
    return np.array(arg, dtype=float).tolist()


def _scribble(v):
    """what a caller may do with a vector a function returned to him: overwrite it in place"""
    import numpy as np
    a = np.asarray(v)
    if a.size == 0:
        raise ValueError("empty result")
    a[...] = 77


def _assign_in_place(container, key, new):
    container[key][...] = new


def _polyline_samples(pl, n, dim):
    """[(parameter i/(n-1), vertex i cut to the dimension of the control points)] or None if the count is wrong"""
    if len(pl.vertices) != n:
        return None
    return [(Fr(i, n - 1), _vec(pl.vertices[i])[:dim]) for i in range(n)]


def _surface_samples(mesh, n1, n2):
    """[((u, v), vertex)] of an exported patch: the exported uv attribute if present, else the row-major layout"""
    nv = len(mesh.vertices)
    if nv != n1 * n2:
        return None
    if mesh.vertices.has_attribute("uv_coords"):
        attr = mesh.vertices.get_attribute("uv_coords")
        uv = [[float(x) for x in attr[k]] for k in range(nv)]
    else:
        uv = [[(k // n2) / (n1 - 1), (k % n2) / (n2 - 1)] for k in range(nv)]
    return [((L.frac(uv[k][0]), L.frac(uv[k][1])), _vec(mesh.vertices[k])) for k in range(nv)]


def _curve_histories(ctx, cls, poly, form):
    """evaluate / export; move ONE control point through the public attribute `pts`; evaluate / export again: every
    answer is the Bernstein form of the control points the curve holds at the time of the call."""
    import mouette as M
    rep = ctx.rep
    deg, dim = len(poly) - 1, len(poly[0])
    scale = max(1.0, max(abs(x) for p in poly for x in p) + max(abs(x) for x in OFFSET))
    sub = "C19.bezier.curve.history"
    pres = [("evaluate", t) for t in PARAMS] + [("as_polyline", 3)]
    seqs = {"same_parameter": ["same_parameter", "other_parameter"],
            "other_parameter": ["other_parameter", "same_parameter"], "export": ["export", "same_parameter"]}
    for i in range(deg + 1):
        new = [poly[i][k] + OFFSET[k] for k in range(dim)]
        cur = poly[:i] + [new] + poly[i + 1:]
        Pq = [tuple(Fr(x) for x in p) for p in cur]
        Pq_old = [tuple(Fr(x) for x in p) for p in poly]
        memo = {}

        def want_at(t):
            if t not in memo:
                memo[t] = L.bernstein_curve(Pq, t)
            return memo[t]

        for pre in pres:
            t_same = pre[1] if pre[0] == "evaluate" else 1.0        # as_polyline ends with the parameter 1
            t_of = {"same_parameter": t_same, "other_parameter": 0.5 if t_same != 0.5 else 0.25}
            if L.bernstein_curve(Pq, L.frac(t_same)) != L.bernstein_curve(Pq_old, L.frac(t_same)):
                rep.flag("curve_hist:edit_changes_the_answer_at_the_same_parameter")
            for mode in ("replace", "in_place"):
                for first in ("same_parameter", "other_parameter", "export"):
                    arg, _ = _ctrl_arg(poly, form, False)
                    o = call(cls, arg)
                    rep.traces += 1
                    rep.states += 1
                    if not o.ok:
                        return                                        # reported by the construction clause
                    curve = o.value
                    o = call(curve.evaluate, pre[1]) if pre[0] == "evaluate" else call(curve.as_polyline, pre[1])
                    if not o.ok:
                        continue                                      # reported by the evaluation / export clauses
                    det = {"control_points": poly, "form": form, "first_call": list(pre), "edit": mode, "index": i,
                           "moved_to": new}
                    if mode == "replace":
                        e = call(lambda: curve.pts.__setitem__(i, M.Vec(*[float(x) for x in new])))
                    else:
                        e = call(lambda: _assign_in_place(curve.pts, i, [float(x) for x in new]))
                    rep.transitions += 2
                    if not e.ok:
                        ctx.violation(sub, "BezierCurve.pts", exc_kind(e), f"edit={mode}", dict(det, msg=e.msg))
                        continue
                    rep.flag(f"curve_hist:edit={mode}")
                    rep.case(("curve_hist", poly, pre, i, mode, first))
                    for step in seqs[first]:
                        rep.transitions += 1
                        rep.flag(f"curve_hist:then={step}")
                        icls = f"edit={mode}:then={step}"
                        if step == "export":
                            callee = "BezierCurve.as_polyline"
                            o = call(curve.as_polyline, 3)
                            samples = _polyline_samples(o.value, 3, dim) if o.ok else None
                            if o.ok and samples is None:
                                break                                 # wrong count: the export clause
                        else:
                            callee = "BezierCurve.evaluate"
                            o = call(curve.evaluate, t_of[step])
                            samples = [(L.frac(t_of[step]), _vec(o.value))] if o.ok else None
                        if not o.ok:
                            ctx.violation(sub, callee, exc_kind(o), icls, dict(det, then=step, msg=o.msg))
                            break
                        bad = None
                        for t, got in samples:
                            rep.evaluations += 1
                            want = want_at(t)
                            if not _vclose(got, want, scale):
                                bad = dict(det, then=step, t=float(t), got=got, want_current_control_points=[float(x) for x in want],
                                           value_for_the_control_points_before_the_edit=[float(x) for x in L.bernstein_curve(Pq_old, t)])
                                break
                        if bad:
                            ctx.violation(sub, callee, "mismatch:not_the_current_control_points", icls, bad)
                            break


def _owner_class(deg0, at_end):
    return "degree==0" if deg0 else ("parameter_at_end" if at_end else "parameter_interior")


def _curve_ownership(ctx, cls, poly, form):
    """A returned vector belongs to the caller (he may overwrite it in place without moving the curve); the caller's
    control point arrays are not modified by construction, evaluation and export."""
    rep = ctx.rep
    deg, dim = len(poly) - 1, len(poly[0])
    scale = max(1.0, max(abs(x) for p in poly for x in p))
    Pq = [tuple(Fr(x) for x in p) for p in poly]
    sub = "C19.bezier.curve.ownership"

    def moved(curve):
        for t2 in (0.0, 1.0, 0.5, 0.25):
            o2 = call(curve.evaluate, t2)
            rep.transitions += 1
            rep.evaluations += 1
            if not o2.ok:
                return {"then_evaluate": t2, "raises": o2.exc, "msg": o2.msg}
            got, want = _vec(o2.value), L.bernstein_curve(Pq, L.frac(t2))
            if not _vclose(got, want, scale):
                return {"then_evaluate": t2, "got": got, "want": [float(x) for x in want]}
        return None

    events = [("evaluate", t) for t in PARAMS] + [("as_polyline", n) for n in (2, 3)]
    for ev in events:
        arg, vals = _ctrl_arg(poly, form, False)
        o = call(cls, arg)
        rep.traces += 1
        rep.states += 1
        if not o.ok:
            return
        curve = o.value
        det = {"control_points": poly, "form": form, "call": list(ev)}
        if ev[0] == "evaluate":
            callee = "BezierCurve.evaluate"
            o = call(curve.evaluate, ev[1])
            icls = _owner_class(deg == 0, ev[1] in (0.0, 1.0))
        else:
            callee = "BezierCurve.as_polyline"
            o = call(curve.as_polyline, ev[1])
            icls = _owner_class(deg == 0, True)
        rep.transitions += 1
        if not o.ok:
            continue
        rep.evaluations += 1
        if _values(arg) != vals:
            ctx.violation("C19.bezier.curve.inputs_unchanged", callee, "side_effect:caller_control_points_modified", f"form={form}",
                          dict(det, now=_values(arg)))
            continue
        rep.flag(f"curve_owner:inputs_checked:form={form}")
        if ev[0] == "evaluate":
            m = call(_scribble, o.value)
        else:
            m = call(lambda: [_scribble(o.value.vertices[k]) for k in range(len(o.value.vertices))])
        if not m.ok:
            rep.count("ownership:result_not_editable")
            continue
        rep.flag(f"curve_owner:{ev[0]}:{icls}")
        rep.case(("curve_owner", poly, ev, form))
        bad = moved(curve)
        if bad:
            ctx.violation(sub, callee, "side_effect:curve_moved_by_overwriting_the_returned_vector", icls, dict(det, **bad))
        elif _values(arg) != vals:
            ctx.violation(sub, callee, "side_effect:caller_control_points_moved_by_overwriting_the_returned_vector", icls,
                          dict(det, now=_values(arg)))


def _run_curve_hist(task, ctx: Ctx):
    import mouette as M
    rep = ctx.rep
    for ip, poly in enumerate(task["polygons"]):
        form = FORMS[(ip + len(poly)) % 3]
        rep.flag("curve_hist:form=" + form)
        if len(poly) <= 2 or ip % int(task.get("hist_every", 1)) == 0:
            _curve_histories(ctx, M.splines.BezierCurve, poly, form)
        _curve_ownership(ctx, M.splines.BezierCurve, poly, form)
    rep.sample({"bezier_curve_history": {"control_points": task["polygons"][-1], "first_call": "evaluate(t) | as_polyline(3)",
                                         "edit": "pts[i] = Vec(p + OFFSET) | pts[i][...] = p + OFFSET", "offset": OFFSET}})


# ---- patches
def _patch_want(Pq, u, v, conv):
    return L.bernstein_patch(Pq, v, u) if conv == "u_inner" else L.bernstein_patch(Pq, u, v)


def _probe_convention(cls):
    """which parameter runs along which index of the net: decided once on an asymmetric 2x3 net (both conventions stay
    allowed if the answer fits neither: the evaluation clause reports that)"""
    net = [[[0, 0, 0], [1, 0, 5], [2, 0, 0]], [[0, 3, 1], [1, 3, 0], [2, 3, 7]]]
    o = call(lambda: _vec(cls([[tuple(float(x) for x in p) for p in row] for row in net]).evaluate(1.0, 0.0)))
    if o.ok and _vclose(o.value, net[0][-1], 8.0):
        return ["u_inner"]
    if o.ok and _vclose(o.value, net[-1][0], 8.0):
        return ["u_outer"]
    return ["u_inner", "u_outer"]


def _patch_histories(ctx, cls, net, form, convs):
    import mouette as M
    rep = ctx.rep
    m, n = len(net), len(net[0])
    flat = [p for row in net for p in row]
    scale = max(1.0, max(abs(x) for p in flat for x in p) + max(abs(x) for x in OFFSET))
    sub = "C19.bezier.patch.history"
    Pq_old = [[tuple(Fr(x) for x in p) for p in row] for row in net]
    pres = [("evaluate", u, v) for u in H_PARAMS for v in H_PARAMS] + [("as_surface", 2, 3)]
    order = ["same_u_same_v", "same_u_other_v", "other_u_same_v", "export"]
    for i in range(m):
        for j in range(n):
            new = [net[i][j][k] + OFFSET[k] for k in range(3)]
            cur = [[(new if (a, b) == (i, j) else net[a][b]) for b in range(n)] for a in range(m)]
            Pq = [[tuple(Fr(x) for x in p) for p in row] for row in cur]
            memo = {}

            def fits(got, u, v):
                if (u, v) not in memo:
                    memo[(u, v)] = [_patch_want(Pq, u, v, c) for c in convs]
                return any(_vclose(got, w, scale) for w in memo[(u, v)])

            for pre in pres:
                u_same, v_same = (pre[1], pre[2]) if pre[0] == "evaluate" else (1.0, 1.0)   # as_surface ends with (1, 1)
                uv_of = {"same_u_same_v": (u_same, v_same), "same_u_other_v": (u_same, 0.5), "other_u_same_v": (0.5, v_same)}
                if any(_patch_want(Pq, L.frac(u_same), L.frac(v_same), c) != _patch_want(Pq_old, L.frac(u_same), L.frac(v_same), c)
                       for c in convs):
                    rep.flag("patch_hist:edit_changes_the_answer_at_the_same_parameters")
                for mode in ("replace", "in_place"):
                    for first in order:
                        arg, _ = _ctrl_arg(net, form, True)
                        o = call(cls, arg)
                        rep.traces += 1
                        rep.states += 1
                        if not o.ok:
                            return
                        patch = o.value
                        o = call(patch.evaluate, pre[1], pre[2]) if pre[0] == "evaluate" else call(patch.as_surface, pre[1], pre[2])
                        if not o.ok:
                            continue
                        det = {"control_net": net, "form": form, "first_call": list(pre), "edit": mode, "index": [i, j],
                               "moved_to": new}
                        if mode == "replace":
                            e = call(lambda: patch.pts[i].__setitem__(j, M.Vec(*[float(x) for x in new])))
                        else:
                            e = call(lambda: _assign_in_place(patch.pts[i], j, [float(x) for x in new]))
                        rep.transitions += 2
                        if not e.ok:
                            ctx.violation(sub, "BezierPatch.pts", exc_kind(e), f"edit={mode}", dict(det, msg=e.msg))
                            continue
                        rep.flag(f"patch_hist:edit={mode}")
                        rep.case(("patch_hist", net, pre, i, j, mode, first))
                        for step in [first] + (order[1:3] if first == order[0] else [order[0]]):
                            rep.transitions += 1
                            rep.flag(f"patch_hist:then={step}")
                            icls = f"edit={mode}:then={step}"
                            if step == "export":
                                callee = "BezierPatch.as_surface"
                                o = call(patch.as_surface, 2, 3)
                                samples = _surface_samples(o.value, 2, 3) if o.ok else None
                                if o.ok and samples is None:
                                    break
                            else:
                                callee = "BezierPatch.evaluate"
                                u, v = uv_of[step]
                                o = call(patch.evaluate, u, v)
                                samples = [((L.frac(u), L.frac(v)), _vec(o.value))] if o.ok else None
                            if not o.ok:
                                ctx.violation(sub, callee, exc_kind(o), icls, dict(det, then=step, msg=o.msg))
                                break
                            bad = None
                            for (u, v), got in samples:
                                rep.evaluations += 1
                                if not fits(got, u, v):
                                    bad = dict(det, then=step, u=float(u), v=float(v), got=got,
                                               want_current_control_net={c: [float(x) for x in _patch_want(Pq, u, v, c)] for c in convs},
                                               value_for_the_net_before_the_edit={c: [float(x) for x in _patch_want(Pq_old, u, v, c)] for c in convs})
                                    break
                            if bad:
                                ctx.violation(sub, callee, "mismatch:not_the_current_control_net", icls, bad)
                                break


O_PARAMS = [(0.0, 0.0), (1.0, 0.0), (0.0, 1.0), (1.0, 1.0), (0.0, 0.5), (0.5, 1.0), (0.5, 0.5), (1.0 / 3.0, 0.25)]


def _patch_ownership(ctx, cls, net, form, convs):
    rep = ctx.rep
    m, n = len(net), len(net[0])
    flat = [p for row in net for p in row]
    scale = max(1.0, max(abs(x) for p in flat for x in p))
    Pq = [[tuple(Fr(x) for x in p) for p in row] for row in net]
    sub = "C19.bezier.patch.ownership"

    def moved(patch):
        for u, v in O_PARAMS:
            o2 = call(patch.evaluate, u, v)
            rep.transitions += 1
            rep.evaluations += 1
            if not o2.ok:
                return {"then_evaluate": [u, v], "raises": o2.exc, "msg": o2.msg}
            got = _vec(o2.value)
            wants = [_patch_want(Pq, L.frac(u), L.frac(v), c) for c in convs]
            if not any(_vclose(got, w, scale) for w in wants):
                return {"then_evaluate": [u, v], "got": got, "want": [[float(x) for x in w] for w in wants]}
        return None

    events = [("evaluate", u, v) for u, v in O_PARAMS] + [("as_surface", 2, 2), ("as_surface", 3, 2)]
    for ev in events:
        arg, vals = _ctrl_arg(net, form, True)
        o = call(cls, arg)
        rep.traces += 1
        rep.states += 1
        if not o.ok:
            return
        patch = o.value
        det = {"control_net": net, "form": form, "call": list(ev)}
        if ev[0] == "evaluate":
            callee = "BezierPatch.evaluate"
            o = call(patch.evaluate, ev[1], ev[2])
            ends = (ev[1] in (0.0, 1.0)) + (ev[2] in (0.0, 1.0))
            icls = "net1x1" if m * n == 1 else ("parameters_at_corner" if ends == 2 else
                                                 ("parameters_on_border" if ends == 1 else "parameters_interior"))
        else:
            callee = "BezierPatch.as_surface"
            o = call(patch.as_surface, ev[1], ev[2])
            icls = "net1x1" if m * n == 1 else "parameters_at_corner"
        rep.transitions += 1
        if not o.ok:
            continue
        rep.evaluations += 1
        if _values(arg) != vals:
            ctx.violation("C19.bezier.patch.inputs_unchanged", callee, "side_effect:caller_control_points_modified", f"form={form}",
                          dict(det, now=_values(arg)))
            continue
        rep.flag(f"patch_owner:inputs_checked:form={form}")
        if ev[0] == "evaluate":
            mm = call(_scribble, o.value)
        else:
            mm = call(lambda: [_scribble(o.value.vertices[k]) for k in range(len(o.value.vertices))])
        if not mm.ok:
            rep.count("ownership:result_not_editable")
            continue
        rep.flag(f"patch_owner:{ev[0]}:{icls}")
        rep.case(("patch_owner", net, ev, form))
        bad = moved(patch)
        if bad:
            ctx.violation(sub, callee, "side_effect:patch_moved_by_overwriting_the_returned_vector", icls, dict(det, **bad))
        elif _values(arg) != vals:
            ctx.violation(sub, callee, "side_effect:caller_control_points_moved_by_overwriting_the_returned_vector", icls,
                          dict(det, now=_values(arg)))


def _run_patch_hist(task, ctx: Ctx):
    import mouette as M
    rep = ctx.rep
    convs = _probe_convention(M.splines.BezierPatch)
    if len(convs) == 1:
        rep.flag("patch_hist:convention_decided")
    for inet, net in enumerate(task["nets"]):
        form = FORMS[(inet + len(net)) % 3]
        rep.flag("patch_hist:form=" + form)
        _patch_histories(ctx, M.splines.BezierPatch, net, form, convs)
        _patch_ownership(ctx, M.splines.BezierPatch, net, form, convs)
    rep.sample({"bezier_patch_history": {"control_net": task["nets"][-1], "first_call": "evaluate(u,v), u,v in {0,1/3,1} | as_surface(2,3)",
                                         "edit": "pts[i][j] = Vec(p + OFFSET) | pts[i][j][...] = p + OFFSET", "offset": OFFSET}})


# ================================================================================================ call histories on the domain objects
# The object a sampler is handed (box; mesh; centre) has a life before the call: a second object is derived from it, one of them
# is enlarged / moved through the library's own mutators (AABB.pad; transform.translate, vertex assignment), earlier answers are
# overwritten by the caller, the sampler is called a second and a third time.  mc/c19_hist.py holds the reference model (VALUE
# semantics: every object has a domain of its own, a mutator changes the object it is called on and nothing else) and enumerates
# every event sequence up to a depth; here each one is replayed on FRESH real objects and every sampling answer is judged, by the
# unchanged judges of the regular tasks, against the domain the model holds for the sampled object at that time.
BOX_FORMS = ["tuple", "list", "f64", "i64", "f32", "vec", "unit_cube", "of_points"]
VEC_FORMS = ["list", "tuple", "ndarray", "vec"]
CENTRE_FORMS = ["vec", "f64", "i64", "list", "tuple"]
H_BOX = [[0, 1], [-2, 1], [3, 5]]
H_CENTRE, H_RADII = [1, -2, 3], [0.1, 3.0]
H_MESHES = {
    "surface2": ("surface", SURF_POINTS["moment"], [(0, 1, 2), (0, 2, 3)]),
    "surface1": ("surface", SURF_POINTS["moment"][:3], [(0, 1, 2)]),
    "polyline2": ("polyline", LINE_POINTS[:3], [(0, 1), (1, 2)]),
    "polyline1": ("polyline", LINE_POINTS[1:3], [(0, 1)]),
}


def _as_form(vals, form):
    import numpy as np
    import mouette as M
    if form == "tuple":
        return tuple(float(x) for x in vals)
    if form == "list":
        return [float(x) for x in vals]
    if form in ("f64", "ndarray"):
        return np.array(vals, dtype=np.float64)
    if form == "i64":
        return np.array(vals, dtype=np.int64)
    if form == "f32":
        return np.array(vals, dtype=np.float32)
    if form == "vec":
        return M.Vec(*[float(x) for x in vals]) if len(vals) > 1 else M.Vec([float(vals[0])])
    raise ValueError(form)


def _event_text(evs):
    return [" ".join(str(x) for x in ev) for ev in evs]


def _flat_values(obj):
    import numpy as np
    return np.array(obj, dtype=float).ravel().tolist()


def _kept_unchanged(ctx, kept, sub, callee, det):
    """the caller's own argument objects hold what he put there"""
    for label, obj, vals, form in kept:
        ctx.rep.evaluations += 1
        now = call(lambda: [float(x) for x in _flat_values(obj)])
        if not now.ok or now.value != [float(x) for x in _flat_values(vals)]:
            ctx.violation(sub, callee, "side_effect:caller_argument_modified", label,
                          dict(det, argument=label, form=form, was=vals, now=now.value if now.ok else now.msg))
            return False
    return True


# ---- boxes
def _box_world(form, dim, AABB):
    """fresh real objects: box first requested, the caller's corner objects (or None), objects the caller keeps, requested corners"""
    import numpy as np
    lo, hi = [float(b[0]) for b in H_BOX[:dim]], [float(b[1]) for b in H_BOX[:dim]]
    if form == "unit_cube":
        return AABB.unit_cube(dim), None, [], ([0.0] * dim, [1.0] * dim)
    if form == "of_points":
        pts = np.array([lo, hi, [(a + b) / 2 for a, b in zip(lo, hi)]], dtype=float)
        return AABB.of_points(pts), None, [("points", pts, pts.tolist(), "f64")], (lo, hi)
    lo_obj, hi_obj = _as_form(lo, form), _as_form(hi, form)
    return AABB(lo_obj, hi_obj), (lo_obj, hi_obj), [("p_min", lo_obj, lo, form), ("p_max", hi_obj, hi, form)], (lo, hi)


def _box_sweep(ctx, boxes, model, dim, det0, round_no):
    """every box of the population sampled in both modes (uniform draws 0 and 1-2^-53: the corners of whatever the box really
    stores), judged against the box the model holds for it"""
    from mouette import sampling
    rep = ctx.rep
    eps = 1.0 - L.EPS53
    for i, (b, mb) in enumerate(zip(boxes, model)):
        if not H.box_nonempty(mb):
            rep.count("hist:box:empty_not_sampled")
            continue
        mbox = [[mb[0][k], mb[1][k]] for k in range(dim)]
        ctx.set_history(":call_history:sampled_box_" + ("padded" if mb[2] else "never_padded"))
        plans = [("uniform", 2, False, [0.0] * dim + [eps] * dim), ("grid", 2 ** dim, dim <= 3, ()),
                 ("uniform", 1, dim <= 3, [[0.25, 0.5, 0.75][(round_no + i + k) % 3] for k in range(dim)])]
        for mode, n, pc, uniforms in plans:
            o = _exec(ctx, sampling.sample_AABB, b, n, mode, pc, uniforms=uniforms)
            det = dict(det0, sampled_box=i, box_min=list(mb[0]), box_max=list(mb[1]), n_pts=n, mode=mode, return_point_cloud=pc,
                       uniform01_draws=list(uniforms))
            _check_box_points(ctx, o, pc, dim, mbox, mode, n, det, {n}, hist=True)
            rep.flag(f"hist:box:sampled:{'padded' if mb[2] else 'never_padded'}:population{len(boxes)}")
    ctx.set_history(":call_history")


def _run_hist_box(task, ctx: Ctx, box_cls=None):
    import numpy as np
    import mouette as M
    from mouette.geometry import AABB
    AABB = box_cls or AABB               # (the selftest runs the same code on a stand-in whose pad works in place)
    rep = ctx.rep
    form, dim, depth = task["form"], task["dim"], task["depth"]
    rep.flag(f"hist:box:form={form}")
    rep.flag(f"hist:box:dim{dim}")
    box0, args, kept0, orig = _box_world(form, dim, AABB)
    # reference: the fresh box, no history (what fails here is reported by the regular tasks)
    ctx.reference = True
    _box_sweep(ctx, [box0], H.box_init(*orig), dim, {}, 0)
    ctx.reference = False
    ctx.set_history(":call_history")
    events_of = lambda st, evs: H.box_events(st, evs, has_args=args is not None)
    step = lambda st, ev: H.box_step(st, ev, orig)
    part, parts = task.get("part", [0, 1])       # big enumerations are dealt out to several tasks, history k to task k mod parts
    for ih, (evs, final) in enumerate(H.enumerate_histories(H.box_init(*orig), events_of, step, depth)):
        if ih % parts != part:
            continue
        box0, args, kept, orig = _box_world(form, dim, AABB)
        kept = list(kept)
        boxes, st = [box0], H.box_init(*orig)
        det0 = {"first_box": f"{form} corners {orig[0]} -> {orig[1]}", "history": _event_text(evs)}
        rep.traces += 1
        rep.case(("hist_box", form, dim, evs))
        api, ok, args_ok = "AABB", True, True
        for pos, ev in enumerate(evs):
            kind = ev[0]
            rep.transitions += 1
            rep.flag("hist:box:event:" + kind)
            if kind == "sweep":
                _box_sweep(ctx, boxes, st, dim, dict(det0, sampled_after=_event_text(evs[:pos])), pos)
                continue
            if kind == "corners_of":
                api, o = "AABB", call(lambda: AABB(boxes[ev[1]].mini, boxes[ev[1]].maxi))
            elif kind == "same_args":
                api, o = "AABB", call(AABB, args[0], args[1])
            elif kind == "union":
                a, b = boxes[ev[1]], boxes[ev[2]]
                api, o = "AABB.union", (call(lambda: a | b) if (pos + ev[1] + ev[2]) % 2 else call(AABB.union, a, b))
            elif kind == "inter":
                a, b = boxes[ev[1]], boxes[ev[2]]
                api, o = "AABB.intersection", (call(lambda: a & b) if (pos + ev[1] + ev[2]) % 2 else call(AABB.intersection, a, b))
            else:
                amount = H.box_pad_amount(ev, dim)
                if ev[2] == "vec":
                    vform = VEC_FORMS[(pos + ev[1] + dim) % len(VEC_FORMS)]
                    arg = _as_form(amount, vform)
                    kept.append(("pad", arg, [float(x) for x in amount], vform))
                    rep.flag("hist:box:pad_vector_form=" + vform)
                else:
                    arg = float(amount[0])
                api, o = "AABB.pad", call(boxes[ev[1]].pad, arg)
            if not o.ok:
                ctx.violation("C19.aabb.history.returns", api, exc_kind(o), kind, dict(det0, event=" ".join(map(str, ev)), msg=o.msg))
                ok = False
                break
            if kind != "pad":
                boxes.append(o.value)
            st = step(st, ev)
            if args_ok:                      # reported once, at the event after which the caller's object first differs
                args_ok = _kept_unchanged(ctx, kept, "C19.aabb.history.arguments_unchanged", api, dict(det0, changed_by=" ".join(map(str, ev))))
        if not ok:
            continue
        if evs[-1][0] != "sweep":
            _box_sweep(ctx, boxes, st, dim, det0, len(evs))
    ctx.set_history("")
    rep.sample({"box_history": {"first_box": form, "dim": dim, "depth": depth, "last_history": _event_text(evs)}})


# ---- sphere / ball: one centre object through a sequence of calls
def _judge_round(ctx, o, ball, c, r, n, pc, det):
    import numpy as np
    rep = ctx.rep
    name = "ball" if ball else "sphere"
    callee = "sampling.sample_" + name
    icls = f"{_radius_class(r)},centre!=0"
    if not o.ok:
        ctx.violation(f"C19.{name}.returns", callee, exc_kind(o), icls, dict(det, msg=o.msg))
        return
    pts = _points_of(ctx, o, pc, f"C19.{name}.count", callee, "any", det)
    if pts is None:
        return
    rep.evaluations += 1 + len(pts)
    if pts.shape != (n, 3):
        ctx.violation(f"C19.{name}.count", callee, "mismatch:count", icls, dict(det, got_shape=list(pts.shape)))
        return
    d = np.sqrt(((pts - np.array(c, dtype=float)) ** 2).sum(axis=1)) if np.isfinite(pts).all() else np.full(n, np.inf)
    slack = 1e-15 * (max(abs(x) for x in c) + r)
    bad = (d > r * (1 + 1e-12) + slack) if ball else ~(np.abs(d - r) <= 1e-12 * r + slack)
    if bad.any():
        i = int(np.argmax(bad))
        ctx.violation(f"C19.{name}.domain", callee, "mismatch:outside_ball" if ball else "mismatch:off_sphere", icls,
                      dict(det, point_index=i, point=pts[i], distance_to_centre=float(d[i]), radius=r))


def _overwrite_result(value):
    """what a caller may do with what a sampler handed back: overwrite it in place (arrays, point-cloud vertices)"""
    import numpy as np
    for part in (value if isinstance(value, tuple) else (value,)):
        if isinstance(part, np.ndarray):
            part[...] = 77.0
        else:
            for k in range(len(part.vertices)):
                _scribble(part.vertices[k])


def _run_hist_round(task, ctx: Ctx):
    from mouette import sampling
    rep = ctx.rep
    form, depth = task["form"], task["depth"]
    rep.flag(f"hist:round:form={form}")
    G = L.lattice_vectors(1)
    c = [float(x) for x in H_CENTRE]
    ctx.set_history(":call_history")
    n = 2
    for evs, _ in H.enumerate_histories(0, lambda st, e: H.round_events(st, e, len(H_RADII)), H.round_step, depth):
        centre = _as_form(H_CENTRE, form)
        kept = [("center", centre, c, form)]
        det0 = {"center": f"{form} {H_CENTRE}", "history": _event_text(evs)}
        rep.traces += 1
        rep.case(("hist_round", form, evs))
        last, api, args_ok = None, "sampling.sample_sphere", True
        for pos, ev in enumerate(evs):
            rep.transitions += 1
            rep.flag("hist:round:event:" + ev[0])
            if ev[0] == "overwrite_result":
                if last is not None and last.ok:
                    call(_overwrite_result, last.value)
                if args_ok:
                    args_ok = _kept_unchanged(ctx, kept, "C19.round.history.arguments_unchanged", api, dict(det0, changed_by="overwrite_result"))
                continue
            ball, r, pc = ev[0] == "ball", H_RADII[ev[1]], ev[2]
            rows = [G[(7 * pos + 5 * ev[1] + 11 * k) % len(G)] for k in range(n)]
            normals = [row[k] for k in range(3) for row in rows]
            uniforms = [U6[(pos + k + 2) % 6] for k in range(n)] if ball else ()
            api = "sampling.sample_" + ev[0]
            last = _exec(ctx, getattr(sampling, "sample_" + ev[0]), centre, r, n, pc, normals=normals, uniforms=uniforms)
            if True:
                _judge_round(ctx, last, ball, c, r, n, pc, dict(det0, call=pos, radius=r, n_pts=n, return_point_cloud=pc,
                                                                normal_draws_per_point=rows, uniform01_draws=list(uniforms)))
            rep.flag(f"hist:round:call{min(pos, 2) + 1}")
            if args_ok:
                args_ok = _kept_unchanged(ctx, kept, "C19.round.history.arguments_unchanged", api, dict(det0, changed_by=" ".join(map(str, ev))))
    ctx.set_history("")
    rep.sample({"sphere_ball_history": {"center_form": form, "depth": depth, "last_history": _event_text(evs)}})


# ---- polylines / surfaces
def _mesh_valid(what, elems):
    def valid(V):
        if what == "surface":
            return all(any(L.tri_normal_int(*(V[v] for v in f))) for f in elems)
        return all(V[a] != V[b] for a, b in elems)
    return valid


def _mesh_geometry(what, V, elems):
    coords = [list(p) for p in V]
    return _surface_geometry(coords, elems) if what == "surface" else _polyline_geometry(coords, elems)


def _mesh_sample(ctx, what, mesh, V, elems, pc, salt, det0):
    """one sampling call on one mesh of the population, judged against the geometry the model holds for it"""
    from mouette import sampling
    n = 2
    G = _mesh_geometry(what, V, elems)
    ne = len(elems)
    if what == "surface":
        rows = [((salt + k) % ne, U6[(salt + 2 * k + 1) % 6], U6[(2 * salt + k + 2) % 6]) for k in range(n)]
        o = _exec(ctx, sampling.sample_surface, mesh, n, pc, True, choices=[r[0] for r in rows], uniforms=[x for r in rows for x in r[1:]])
        det = dict(det0, vertices=G["coords"], faces=elems, n_pts=n, return_point_cloud=pc, return_normals=True)
        det["draws_per_point(face index, u1, u2)"] = rows
        _judge_surface_sample(ctx, o, G, n, pc, True, rows, det)
    else:
        rows = [((salt + k) % ne, U6[(salt + 2 * k + 1) % 6]) for k in range(n)]
        o = _exec(ctx, sampling.sample_polyline, mesh, n, pc, choices=[r[0] for r in rows] if ne > 1 else (), uniforms=[r[1] for r in rows])
        det = dict(det0, vertices=G["coords"], edges=elems, n_pts=n, return_point_cloud=pc)
        det["draws_per_point(edge index, uniform01)"] = rows
        _judge_polyline_sample(ctx, o, G, n, pc, rows, det)
    return o


def _run_hist_mesh(task, ctx: Ctx):
    import mouette as M
    from mc import families as F
    rep = ctx.rep
    what, coords, elems = H_MESHES[task["specimen"]]
    elems = [tuple(e) for e in elems]
    depth = task["depth"]
    rep.flag("hist:mesh:" + task["specimen"])
    build = (lambda: F.build_surface(coords, elems)) if what == "surface" else (lambda: F.build_polyline(coords, elems))
    valid = _mesh_valid(what, elems)
    init = H.mesh_init(coords)
    copies = [tuple(c) for c in task["copies"]]
    # reference: the fresh mesh, no history
    ctx.reference = True
    for pc in (False, True):
        _mesh_sample(ctx, what, build(), init[0][0], elems, pc, 0, {})
    ctx.reference = False
    ctx.set_history(":call_history")
    events_of = lambda st, evs: H.mesh_events(st, evs, copies)
    step = lambda st, ev: H.mesh_step(st, ev, valid)
    for evs, final in H.enumerate_histories(init, events_of, step, depth):
        meshes, st = [build()], init
        det0 = {"first_mesh": task["specimen"], "history": _event_text(evs), "translation": list(H.TRANSLATION),
                "vertex_move": {"index": H.MOVED_VERTEX, "by": list(H.VERTEX_MOVE)}}
        rep.traces += 1
        rep.case(("hist_mesh", task["specimen"], evs))
        last, ok = None, True
        for pos, ev in enumerate(evs):
            kind = ev[0]
            rep.transitions += 1
            rep.flag("hist:mesh:event:" + kind)
            st2 = step(st, ev)
            if kind == "sample":
                ctx.set_history(":call_history:" + ("sampled_mesh_is_the_copy" if ev[1] else "sampled_mesh_is_the_original"))
                last = _mesh_sample(ctx, what, meshes[ev[1]], st[0][ev[1]], elems, ev[2], pos + 1, dict(det0, call=pos, sampled_mesh=ev[1]))
                ctx.set_history(":call_history")
                st = st2
                continue
            if kind == "overwrite_result":
                if last is not None and last.ok:
                    call(_overwrite_result, last.value)
                st = st2
                continue
            if kind == "copy":
                api, o = "mesh.copy", call(M.mesh.copy, meshes[0], copy_attributes=ev[1], copy_connectivity=ev[2])
                if o.ok:
                    meshes.append(o.value)
            elif kind == "translate":
                api, o = "transform.translate", call(M.transform.translate, meshes[ev[1]], M.Vec(*[float(x) for x in H.TRANSLATION]))
            else:
                new = [float(x) for x in st2[0][ev[1]][H.MOVED_VERTEX]]
                api = "mesh.vertices"
                if kind == "assign_vertex":
                    o = call(meshes[ev[1]].vertices.__setitem__, H.MOVED_VERTEX, M.Vec(*new))
                else:
                    o = call(lambda: _assign_in_place(meshes[ev[1]].vertices, H.MOVED_VERTEX, new))
            if not o.ok:
                ctx.violation(f"C19.{what}.history.returns", api, exc_kind(o), kind, dict(det0, event=" ".join(map(str, ev)), msg=o.msg))
                ok = False
                break
            st = st2
        if not ok:
            continue
        for i, mesh in enumerate(meshes):
            ctx.set_history(":call_history:" + ("sampled_mesh_is_the_copy" if i else "sampled_mesh_is_the_original"))
            for pc in ((False, True) if len(evs) < depth or i == 0 else (False,)):
                _mesh_sample(ctx, what, mesh, st[0][i], elems, pc, len(evs) + i, dict(det0, call="after the history", sampled_mesh=i))
                rep.flag(f"hist:mesh:final_sample:population{len(meshes)}")
        ctx.set_history(":call_history")
    ctx.set_history("")
    rep.sample({"mesh_history": {"specimen": task["specimen"], "depth": depth, "last_history": _event_text(evs)}})


# ================================================================================================ documented defaults / argument forms
# Every public entry point of this property is also called in every ARGUMENT FORM the documented signature allows: all by keyword,
# positionally in the documented order (up to each option), every option that has its documented default left out (one at a time,
# all together).  By the documented signature all these calls mean the same, so - under the same scripted draws - they must hand
# back the same answer (type, count, every coordinate / index / attribute) as the fully explicit keyword call, which is itself judged
# against the exact expectation (here for the default sizes 100 / 20 x 20 the small families never reach, else by the regular tasks).
# The table is copied from the signatures / docstrings of the unchanged tree and is never read from the library at run time.
REQ = FM.REQ
DOC_SIGNATURE = {
    "sampling.sample_sphere": [["center", REQ], ["radius", REQ], ["n_pts", REQ], ["return_point_cloud", False]],
    "sampling.sample_ball": [["center", REQ], ["radius", REQ], ["n_pts", REQ], ["return_point_cloud", False]],
    "sampling.sample_AABB": [["box", REQ], ["n_pts", REQ], ["mode", "uniform"], ["return_point_cloud", False]],
    "sampling.sample_polyline": [["mesh", REQ], ["n_pts", REQ], ["return_point_cloud", False]],
    "sampling.sample_surface": [["mesh", REQ], ["n_pts", REQ], ["return_point_cloud", False], ["return_normals", False]],
    "AABB": [["p_min", REQ], ["p_max", REQ]],
    "AABB.unit_cube": [["dim", REQ], ["centered", False]],
    "AABB.of_points": [["points", REQ], ["padding", 0.0]],
    "AABB.of_mesh": [["mesh", REQ], ["padding", 0.0]],
    "BezierCurve": [["control_points", REQ]],
    "BezierCurve.evaluate": [["t", REQ]],
    "BezierCurve.as_polyline": [["n_pts", 100], ["custom_pos", None]],
    "BezierPatch": [["control_points", REQ]],
    "BezierPatch.evaluate": [["u", REQ], ["v", REQ]],
    "BezierPatch.as_surface": [["n1", 20], ["n2", 20]],
}
DEFAULTS_GROUPS = ["signature", "sphere", "ball", "box", "aabb", "polyline", "surface", "curve", "patch"]
D_CURVES = [[[0, 0, 0], [1, 2, -1], [-2, 1, 3]], [[0, 0], [1, 2], [-2, 1], [3, -1]]]


def _resolve(callee):
    import mouette as M
    from mouette import sampling
    from mouette.geometry import AABB
    parts = callee.split(".")
    obj = {"sampling": sampling, "AABB": AABB, "BezierCurve": M.splines.BezierCurve, "BezierPatch": M.splines.BezierPatch}[parts[0]]
    for a in parts[1:]:
        obj = getattr(obj, a)
    return obj


def _short(v):
    import numpy as np
    if isinstance(v, np.ndarray):
        return f"{type(v).__name__}({v.tolist()})"
    if isinstance(v, (list, tuple)) and len(v) > 8:
        return f"[{v[0]!r}, {v[1]!r}, ..., {v[-1]!r}]({len(v)} values)"
    return repr(v)


class FormsRun:
    """bookkeeping of one defaults task: does the value of an option change the answer (so that leaving it out can fail)?"""

    def __init__(self):
        self.answers = {}

    def note(self, callee, key, sig, values, show, truth):
        import json
        doc = {n: d for n, d in sig}
        blob = json.dumps(truth, sort_keys=True, default=repr)
        for p in FM.options_of(sig):
            k = repr((callee, key, p, [(q, show(values[q])) for q, _ in sig if q != p]))
            self.answers.setdefault((callee, p, k), []).append((FM.same_value(doc[p], values[p]), blob))

    def flush(self, rep):
        for (callee, p, _), entries in self.answers.items():
            if any(a[0] and not b[0] and a[1] != b[1] for a in entries for b in entries):
                rep.flag(f"defaults:matters:{callee}:{p}")


def _forms_check(ctx, fr, callee, sig, values, invoke, det0, key, labels=None, judge=None):
    """ONE requested meaning (values of all documented parameters) made in every argument form; invoke(pos, kw, strict) makes the
    call on the real code.  Reported: a form whose answer is not the answer of the fully explicit keyword call."""
    rep = ctx.rep
    labels = labels or {}
    show = lambda v: labels.get(id(v)) or _short(v)
    fs = FM.forms(sig, values)
    args_of = lambda f: ([values[n] for n in f["pos"]], {n: values[n] for n in f["kw"]})
    documented = [[n, d if isinstance(d, str) and d == REQ else repr(d)] for n, d in sig]
    o_truth = invoke(*args_of(fs[0]), True)
    truth = FM.canon(o_truth)
    truth_text = FM.call_text(callee, fs[0], values, show)
    rep.flag(f"defaults:keyword:{callee}")
    rep.case(("defaults", callee, repr(key), [show(values[n]) for n, _ in sig]))
    if truth[0] == "raises":
        # the unambiguous reading does not answer: if the all-positional call does, the keyword form is what is broken
        allpos = [f for f in fs if f["sub"] == "positional"][-1]
        o_pos = invoke(*args_of(allpos), True)
        if o_pos.ok:
            ctx.violation("C19.defaults.keyword", callee, exc_kind(o_truth), "all_by_keyword",
                          dict(det0, call=truth_text, msg=o_truth.msg, documented_signature=documented,
                               answers_when_called=FM.call_text(callee, allpos, values, show)))
            o_truth, truth, truth_text = o_pos, FM.canon(o_pos), FM.call_text(callee, allpos, values, show)
    if judge is not None and o_truth.ok:
        judge(o_truth)
    fr.note(callee, key, sig, values, show, truth)
    positional_failed, single_failed = False, False
    for f in fs[1:]:
        if f["sub"] == "positional":
            rep.flag(f"defaults:positional:{callee}:{f['pos'][-1]}")
            if positional_failed:
                continue
        else:
            for p in f["omitted"]:
                rep.flag(f"defaults:{'omitted_alone' if len(f['omitted']) == 1 else 'omitted_together'}:{callee}:{p}")
        o = invoke(*args_of(f), False)
        rep.traces += 1
        rep.evaluations += 1
        got = FM.canon(o)
        kind = FM.differ(truth, got)
        rep.outcome("defaults." + f["sub"], "same" if kind is None else kind)
        if kind is None:
            continue
        if f["sub"] == "positional":
            positional_failed = True
        elif len(f["omitted"]) == 1:
            single_failed = True
        elif single_failed:
            rep.count("defaults:several_together_fails_like_one_alone")
            continue
        det = dict(det0, call=FM.call_text(callee, f, values, show), must_answer_like=truth_text, documented_signature=documented,
                   got=FM.brief(got), want=FM.brief(truth))
        if f["omitted"]:
            det["left_out"] = {p: "documented default " + repr(dict(map(tuple, sig))[p]) for p in f["omitted"]}
        if not o.ok:
            det["msg"] = o.msg
        ctx.violation("C19.defaults." + f["sub"], callee, kind, f["cls"], det)


def _seam_invoke(ctx, fn, normals=(), uniforms=(), choices=()):
    return lambda pos, kw, strict: _exec(ctx, fn, *pos, normals=normals, uniforms=uniforms, choices=choices, strict=strict, **kw)


def _plain_invoke(ctx, fn):
    def inv(pos, kw, strict):
        ctx.rep.transitions += 1
        return call(fn, *pos, **kw)
    return inv


def _defaults_signature(ctx, fr):
    rep = ctx.rep
    for callee, sig in DOC_SIGNATURE.items():
        rep.traces += 1
        rep.transitions += 1
        documented = [[n, d if isinstance(d, str) and d == REQ else repr(d)] for n, d in sig]
        o = call(lambda: FM.signature_diffs(_resolve(callee), sig))
        for n, _ in sig:
            rep.evaluations += 1
            rep.flag(f"defaults:signature:{callee}:{n}")
        rep.case(("defaults:signature", callee))
        if not o.ok:
            ctx.violation("C19.defaults.signature", callee, exc_kind(o), "signature", {"documented": documented, "msg": o.msg})
            continue
        for kind, p, lib in o.value:
            ctx.violation("C19.defaults.signature", callee, kind, p, {"documented": documented, "library": lib})
    rep.sample({"documented_signatures": {k: [[n, repr(d)] for n, d in v] for k, v in DOC_SIGNATURE.items()}})


def _defaults_round(ctx, fr, ball):
    import mouette as M
    from mouette import sampling
    name = "ball" if ball else "sphere"
    callee = "sampling.sample_" + name
    fn = getattr(sampling, "sample_" + name)
    G = L.lattice_vectors(1)
    combos = [(g, u) for g in G[::5] for u in U6[1::2]] if ball else [(g, None) for g in G]
    for c, r in (([1.0, -2.0, 3.0], 3.0), ([0.0, 0.0, 0.0], 0.1)):
        for n in (1, 2):
            for off, rows in list(L.windows(combos, n, False))[:2]:
                normals = [row[0][k] for k in range(3) for row in rows]
                uniforms = [row[1] for row in rows] if ball else ()
                for pc in (False, True):
                    values = {"center": M.Vec(*c), "radius": r, "n_pts": n, "return_point_cloud": pc}
                    _forms_check(ctx, fr, callee, DOC_SIGNATURE[callee], values, _seam_invoke(ctx, fn, normals, uniforms),
                                 {"draws_per_point(normal xyz, uniform01)": rows[:3]}, (c, r, n, off))
    ctx.rep.sample({"defaults": callee, "center": c, "radius": r, "n_pts": [1, 2]})


def _judge_box(ctx, callee, lo, hi, det):
    def judge(o):
        import numpy as np
        b = o.value
        ctx.rep.evaluations += 1
        g = call(lambda: (np.asarray(b.mini, dtype=float).tolist(), np.asarray(b.maxi, dtype=float).tolist()))
        if not g.ok or g.value != ([float(x) for x in lo], [float(x) for x in hi]):
            ctx.violation("C19.defaults.explicit", callee, exc_kind(g) if not g.ok else "mismatch:box", "explicit_call",
                          dict(det, got=g.value if g.ok else g.msg, want=[list(lo), list(hi)]))
    return judge


def _defaults_box(ctx, fr):
    """the ways of asking for a domain: AABB(p_min, p_max), AABB.unit_cube, AABB.of_points, AABB.of_mesh (exact corners)"""
    import numpy as np
    from mouette.geometry import AABB
    from mc import families as F
    for box in ([[-2, 1]], [[-2, 1], [3, 5]], [[0, 1], [-2, 1], [3, 5]]):
        lo, hi = [float(b[0]) for b in box], [float(b[1]) for b in box]
        _forms_check(ctx, fr, "AABB", DOC_SIGNATURE["AABB"], {"p_min": lo, "p_max": hi}, _plain_invoke(ctx, AABB), {}, len(box),
                     judge=_judge_box(ctx, "AABB", lo, hi, {"p_min": lo, "p_max": hi}))
    for dim in (1, 2, 3, 4):
        for centered in (False, True):
            lo, hi = ([-0.5] * dim, [0.5] * dim) if centered else ([0.0] * dim, [1.0] * dim)
            _forms_check(ctx, fr, "AABB.unit_cube", DOC_SIGNATURE["AABB.unit_cube"], {"dim": dim, "centered": centered},
                         _plain_invoke(ctx, AABB.unit_cube), {}, dim,
                         judge=_judge_box(ctx, "AABB.unit_cube", lo, hi, {"dim": dim, "centered": centered}))
    clouds = [[[0.0, 0.0], [2.0, -1.0], [1.0, 3.0]], np.array(LINE_POINTS, dtype=float)]
    for ic, pts in enumerate(clouds):
        arr = np.array(pts, dtype=float)
        for pad in (0.0, 0.5):
            lo, hi = (arr.min(axis=0) - pad).tolist(), (arr.max(axis=0) + pad).tolist()
            _forms_check(ctx, fr, "AABB.of_points", DOC_SIGNATURE["AABB.of_points"], {"points": pts, "padding": pad},
                         _plain_invoke(ctx, AABB.of_points), {}, ic,
                         judge=_judge_box(ctx, "AABB.of_points", lo, hi, {"points": arr.tolist(), "padding": pad}))
    mesh = F.build_polyline(LINE_POINTS[:4], [(0, 1), (1, 2), (2, 3)])
    arr = np.array(LINE_POINTS[:4], dtype=float)
    for pad in (0.0, 0.5):
        lo, hi = (arr.min(axis=0) - pad).tolist(), (arr.max(axis=0) + pad).tolist()
        _forms_check(ctx, fr, "AABB.of_mesh", DOC_SIGNATURE["AABB.of_mesh"], {"mesh": mesh, "padding": pad},
                     _plain_invoke(ctx, AABB.of_mesh), {}, 0, labels={id(mesh): "<polyline on LINE_POINTS[:4]>"},
                     judge=_judge_box(ctx, "AABB.of_mesh", lo, hi, {"vertices": LINE_POINTS[:4], "padding": pad}))
    ctx.rep.sample({"defaults": "AABB / AABB.unit_cube / AABB.of_points / AABB.of_mesh", "dims": [1, 2, 3, 4], "padding": [0.0, 0.5]})


def _defaults_aabb(ctx, fr):
    from mouette import sampling
    callee = "sampling.sample_AABB"
    for box in ([[-2, 1]], [[-2, 1], [3, 5]], [[0, 1], [-2, 1], [3, 5]]):
        dim = len(box)
        combos = list(itertools.product(U6, repeat=dim))
        for n in (2, 9):
            for off, rows in list(L.windows(combos, n, False))[:1]:
                for mode in ("uniform", "grid"):
                    uniforms = [x for row in rows for x in row] if mode == "uniform" else ()
                    for pc in (False, True):
                        b = _make_box(box)
                        values = {"box": b, "n_pts": n, "mode": mode, "return_point_cloud": pc}
                        _forms_check(ctx, fr, callee, DOC_SIGNATURE[callee], values, _seam_invoke(ctx, sampling.sample_AABB, uniforms=uniforms),
                                     {"box_min": [x[0] for x in box], "box_max": [x[1] for x in box], "uniform01_draws_per_point": rows[:3]},
                                     (box, n, off), labels={id(b): "<box>"})
    ctx.rep.sample({"defaults": callee, "boxes": "dim 1-3", "n_pts": [2, 9], "modes": ["uniform", "grid"]})


def _defaults_polyline(ctx, fr):
    from mouette import sampling
    from mc import families as F
    callee = "sampling.sample_polyline"
    for edges in ([(0, 1)], [(0, 1), (1, 2)]):
        coords = LINE_POINTS[:len(edges) + 1]
        mesh = F.build_polyline(coords, edges)
        NE = len(edges)
        combos = [(e, t) for e in range(NE) for t in U6[1::2]]
        for n in (1, 2):
            for off, rows in list(L.windows(combos, n, False))[-2:]:
                choices = [row[0] for row in rows] if NE > 1 else ()
                uniforms = [row[1] for row in rows]
                for pc in (False, True):
                    values = {"mesh": mesh, "n_pts": n, "return_point_cloud": pc}
                    _forms_check(ctx, fr, callee, DOC_SIGNATURE[callee], values,
                                 _seam_invoke(ctx, sampling.sample_polyline, uniforms=uniforms, choices=choices),
                                 {"vertices": coords, "edges": [list(e) for e in edges], "draws_per_point(edge index, uniform01)": rows[:3]},
                                 (NE, n, off), labels={id(mesh): "<polyline>"})
    ctx.rep.sample({"defaults": callee, "vertices": coords, "edges": [list(e) for e in edges]})


def _defaults_surface(ctx, fr):
    from mouette import sampling
    from mc import families as F
    callee = "sampling.sample_surface"
    coords = SURF_POINTS["moment"]
    for faces in ([(0, 1, 2)], [(0, 1, 2), (0, 2, 3)]):
        mesh = F.build_surface(coords, faces)
        NF = len(faces)
        combos = [(f, u1, u2) for f in range(NF) for u1 in U6[1::2] for u2 in U6[2::2]]
        for n in (1, 2):
            for off, rows in list(L.windows(combos, n, False))[-2:]:
                choices = [row[0] for row in rows]
                uniforms = [x for row in rows for x in row[1:]]
                for pc in (False, True):
                    for wn in (False, True):
                        values = {"mesh": mesh, "n_pts": n, "return_point_cloud": pc, "return_normals": wn}
                        _forms_check(ctx, fr, callee, DOC_SIGNATURE[callee], values,
                                     _seam_invoke(ctx, sampling.sample_surface, uniforms=uniforms, choices=choices),
                                     {"vertices": coords, "faces": [list(f) for f in faces], "draws_per_point(face index, u1, u2)": rows[:3]},
                                     (NF, n, off), labels={id(mesh): "<surface>"})
    ctx.rep.sample({"defaults": callee, "vertices": coords, "faces": [list(f) for f in faces]})


def _defaults_curve(ctx, fr):
    import mouette as M
    rep = ctx.rep
    cls = M.splines.BezierCurve
    for ip, poly in enumerate(D_CURVES):
        dim = len(poly[0])
        scale = max(1.0, max(abs(x) for p in poly for x in p))
        Pq = [tuple(Fr(x) for x in p) for p in poly]
        pts = [tuple(float(x) for x in p) for p in poly]
        _forms_check(ctx, fr, "BezierCurve", DOC_SIGNATURE["BezierCurve"], {"control_points": pts}, _plain_invoke(ctx, cls), {}, ip)
        o = call(cls, pts)
        if not o.ok:
            continue                                   # the construction clause of the regular tasks
        curve = o.value
        for t in (0.0, 1.0 / 3.0, 1.0):
            def judge(o, t=t):
                rep.evaluations += 1
                got, want = _vec(o.value), L.bernstein_curve(Pq, L.frac(t))
                if not _vclose(got, want, scale):
                    ctx.violation("C19.bezier.curve.evaluate", "BezierCurve.evaluate", "mismatch:bernstein", "any",
                                  {"control_points": poly, "t": t, "got": got, "want": [float(x) for x in want]})
            _forms_check(ctx, fr, "BezierCurve.evaluate", DOC_SIGNATURE["BezierCurve.evaluate"], {"t": t},
                         _plain_invoke(ctx, curve.evaluate), {"control_points": poly}, ip, judge=judge)
        hundred = [i / 100.0 for i in range(101)]
        for n_pts, custom in ((100, None), (3, None), (100, [0.0, 0.5, 1.0]), (7, [0.0, 0.25, 1.0]), (100, hundred), (2, hundred)):
            def judge(o, n_pts=n_pts, custom=custom):
                if custom is None:
                    _check_polyline_export(ctx, o, poly, Pq, n_pts, [Fr(i, n_pts - 1) for i in range(n_pts)], f"{dim}d", "linspace",
                                           {"control_points": poly, "n_pts": n_pts}, scale)
                else:
                    rcls = "len(custom_pos)<=100" if len(custom) <= 100 else "len(custom_pos)>100(default n_pts)"
                    _check_polyline_export(ctx, o, poly, Pq, len(custom), [L.frac(x) for x in custom], f"{dim}d", rcls,
                                           {"control_points": poly, "n_pts": n_pts, "custom_pos": _short(custom)}, scale, custom=True)
            _forms_check(ctx, fr, "BezierCurve.as_polyline", DOC_SIGNATURE["BezierCurve.as_polyline"], {"n_pts": n_pts, "custom_pos": custom},
                         _plain_invoke(ctx, curve.as_polyline), {"control_points": poly}, ip, judge=judge)
    rep.sample({"defaults": "BezierCurve / evaluate / as_polyline", "control_points": D_CURVES,
                "as_polyline(n_pts, custom_pos)": "(100, None), (3, None), (100, 3 positions), (7, 3 positions), (100 | 2, 101 positions)"})


def _defaults_patch(ctx, fr):
    import mouette as M
    rep = ctx.rep
    cls = M.splines.BezierPatch
    for inet, net in enumerate([_generic_nets(2, 3)[0], _generic_nets(3, 3)[3]]):
        flat = [p for row in net for p in row]
        scale = max(1.0, max(abs(x) for p in flat for x in p))
        Pq = [[tuple(Fr(x) for x in p) for p in row] for row in net]
        pts = [[tuple(float(x) for x in p) for p in row] for row in net]
        _forms_check(ctx, fr, "BezierPatch", DOC_SIGNATURE["BezierPatch"], {"control_points": pts}, _plain_invoke(ctx, cls), {}, inet)
        o = call(cls, pts)
        if not o.ok:
            continue
        patch = o.value
        conv = [{"u_inner", "u_outer"}]

        def narrow(got, u, v):
            w = {"u_inner": L.bernstein_patch(Pq, v, u), "u_outer": L.bernstein_patch(Pq, u, v)}
            ok = {c for c in conv[0] if _vclose(got, w[c], scale)}
            if ok:
                conv[0] = ok
            return bool(ok), w

        for u, v in ((1.0, 0.0), (1.0 / 3.0, 0.25), (0.0, 1.0)):
            def judge(o, u=u, v=v):
                rep.evaluations += 1
                got = _vec(o.value)
                ok, w = narrow(got, L.frac(u), L.frac(v))
                if not ok:
                    ctx.violation("C19.bezier.patch.evaluate", "BezierPatch.evaluate", "mismatch:bernstein", "rows==cols" if len(net) == len(net[0]) else "rows!=cols",
                                  {"control_net": net, "u": u, "v": v, "got": got, "want_either": {k: [float(x) for x in x_] for k, x_ in w.items()}})
            _forms_check(ctx, fr, "BezierPatch.evaluate", DOC_SIGNATURE["BezierPatch.evaluate"], {"u": u, "v": v},
                         _plain_invoke(ctx, patch.evaluate), {"control_net": net}, inet, judge=judge)
        for n1, n2 in ((20, 20), (2, 3), (20, 3), (2, 20), (3, 2)):
            def judge(o, n1=n1, n2=n2):
                _check_surface_export(ctx, o, net, n1, n2, "n1==n2" if n1 == n2 else "n1!=n2", narrow, scale)
            _forms_check(ctx, fr, "BezierPatch.as_surface", DOC_SIGNATURE["BezierPatch.as_surface"], {"n1": n1, "n2": n2},
                         _plain_invoke(ctx, patch.as_surface), {"control_net": net}, inet, judge=judge)
    rep.sample({"defaults": "BezierPatch / evaluate / as_surface", "control_net": net, "as_surface(n1, n2)": [[20, 20], [2, 3], [20, 3], [2, 20], [3, 2]]})


def _run_defaults(task, ctx: Ctx):
    g = task["group"]
    fr = FormsRun()
    ctx.rep.flag("defaults:group:" + g)
    if g == "signature":
        _defaults_signature(ctx, fr)
    elif g in ("sphere", "ball"):
        _defaults_round(ctx, fr, ball=(g == "ball"))
    else:
        {"box": _defaults_box, "aabb": _defaults_aabb, "polyline": _defaults_polyline, "surface": _defaults_surface,
         "curve": _defaults_curve, "patch": _defaults_patch}[g](ctx, fr)
    fr.flush(ctx.rep)


# stand-ins for the selftest of the argument-form clauses: NOT the library
def _standin_good(box, n_pts, mode="uniform", flag=False):
    return (box, n_pts, mode, flag)


def _standin_changed_default(box, n_pts, mode="grid", flag=False):
    return (box, n_pts, mode, flag)


def _standin_flipped_default(box, n_pts, mode="uniform", flag=True):
    return (box, n_pts, mode, flag)


def _standin_swapped(box, n_pts, flag=False, mode="uniform"):
    return (box, n_pts, mode, flag)


def _selftest_defaults(rep):
    """the argument-form clauses and the signature guard can fail, each on the stand-in with exactly its slip, and stay
    silent on the stand-in that follows the documented signature"""
    sig = [["box", REQ], ["n_pts", REQ], ["mode", "uniform"], ["flag", False]]
    fake = Report()
    fctx = Ctx(fake)
    fr = FormsRun()
    sigs = {}
    for fn in (_standin_good, _standin_changed_default, _standin_flipped_default, _standin_swapped):
        sigs[fn.__name__] = {(k, p) for k, p, _ in FM.signature_diffs(fn, sig)}
        for mode in ("uniform", "grid"):
            for flag in (False, True):
                _forms_check(fctx, fr, fn.__name__, sig, {"box": 1, "n_pts": 2, "mode": mode, "flag": flag}, _plain_invoke(fctx, fn), {}, 0)
    fr.flush(fake)
    got = {(v["callee"], v["subcheck"], v["kind"], v["input_class"]) for v in fake.violations}
    want = {("_standin_changed_default", "C19.defaults.omitted", "mismatch:value", "mode"),
            ("_standin_flipped_default", "C19.defaults.omitted", "mismatch:value", "flag"),
            ("_standin_swapped", "C19.defaults.positional", "raises:TypeError", "positional_upto:mode")}
    want_sigs = {"_standin_good": set(), "_standin_changed_default": {("mismatch:default_value", "mode")},
                 "_standin_flipped_default": {("mismatch:default_value", "flag")},
                 "_standin_swapped": {("mismatch:parameter_order", "mode"), ("mismatch:parameter_order", "flag")}}
    matters = {f for f in fake.flags if f.startswith("defaults:matters:_standin_good:")}
    if got == want and sigs == want_sigs and len(matters) == 2 and not FM.selftest():
        rep.flag("selftest:defaults_clauses_can_fail")
    else:
        rep.notes.append(f"defaults selftest: got {sorted(got)} signatures {sigs} matters {sorted(matters)} helper {FM.selftest()}")


# ================================================================================================ self test
class _StandInCurve:
    """NOT the library: a correct Bernstein evaluation with two habits the clauses must catch (used by the selftest)."""

    def __init__(self, P):
        import numpy as np
        self.pts = [np.array(p, dtype=float) for p in P]
        self._last = None

    def evaluate(self, t):
        import numpy as np
        if t == 0:
            return self.pts[0]                                   # handed out by reference
        if t == 1:
            return self.pts[-1]
        if self._last is None or self._last[0] != t:             # one-entry cache, never invalidated
            n = len(self.pts) - 1
            self._last = (t, sum(math.comb(n, i) * t ** i * (1 - t) ** (n - i) * self.pts[i] for i in range(n + 1)))
        return np.array(self._last[1])

    def as_polyline(self, n):
        raise NotImplementedError("stand-in")


class _StandInPatch:
    def __init__(self, P):
        import numpy as np
        self.pts = [[np.array(p, dtype=float) for p in row] for row in P]
        self._row = None

    def evaluate(self, u, v):                                    # u along the inner index ("u_inner")
        import numpy as np
        if (u, v) == (0, 0):
            return self.pts[0][0]
        if self._row is None or self._row[0] != u:               # row cache keyed on u, never invalidated
            n = len(self.pts[0]) - 1
            self._row = (u, [sum(math.comb(n, j) * u ** j * (1 - u) ** (n - j) * r[j] for j in range(n + 1)) for r in self.pts])
        row, m = self._row[1], len(self.pts) - 1
        return np.array(sum(math.comb(m, i) * v ** i * (1 - v) ** (m - i) * row[i] for i in range(m + 1)))

    def as_surface(self, n1, n2):
        raise NotImplementedError("stand-in")


def _run_selftest(task, ctx: Ctx):
    """oracle self-tests; the ownership guard and the seam must be live (each must be able to fail)."""
    import numpy as np
    import random as pyrandom
    from mouette import sampling
    rep = ctx.rep
    for b in L.selftest():
        rep.count("harness:selftest_failed")
        rep.notes.append("oracle selftest: " + b)
    rep.flag("selftest:oracles_ran")
    # 1. ownership guard: a draw on numpy's / Python's global generator must be noticed
    probe = Report()
    pctx = Ctx(probe)
    st_np, st_py = np.random.get_state(), pyrandom.getstate()
    _exec(pctx, lambda: np.random.random())
    _exec(pctx, lambda: pyrandom.random())
    _exec(pctx, lambda: np.random.normal(size=3))
    np.random.set_state(st_np)
    pyrandom.setstate(st_py)
    if probe.counters.get("harness:rng_state_changed", 0) == 3:
        rep.flag("selftest:rng_guard_live")
    # 2. unknown way of drawing through the proxy raises SeamError and is counted
    probe = Report()
    pctx = Ctx(probe)
    _exec(pctx, lambda: sampling.np.random.default_rng)
    _exec(pctx, lambda: sampling.np.random.randint(3))
    if probe.counters.get("harness:unintercepted_draw", 0) == 2:
        rep.flag("selftest:seam_rejects_unknown_draws")
    # 3. the samplers really are fed by the seam: same script -> same answer, different script -> different
    import mouette as M
    a = _exec(ctx, sampling.sample_sphere, M.Vec(0., 0., 0.), 1.0, 1, normals=[0, 0, 2]).value
    b = _exec(ctx, sampling.sample_sphere, M.Vec(0., 0., 0.), 1.0, 1, normals=[0, 3, 0]).value
    if np.allclose(a, [[0, 0, 1]]) and np.allclose(b, [[0, 1, 0]]):
        rep.flag("selftest:seam_drives_sampler")
    # 4. containment oracles reject fabricated bad outputs (the checks can fail)
    fake = Report()
    fctx = Ctx(fake)
    from mc.core import Outcome
    _check_box_points(fctx, Outcome(True, np.array([[0.5, 1.5]])), False, 2, [[0, 1], [0, 1]], "uniform", 1, {}, {1})
    _check_box_points(fctx, Outcome(True, np.array([[0.5, 0.5], [0.1, 0.1]])), False, 2, [[0, 1], [0, 1]], "uniform", 1, {}, {1})
    if sorted(v["kind"] for v in fake.violations) == ["mismatch:count", "mismatch:outside_box"]:
        rep.flag("selftest:box_oracle_can_fail")
    # 5. the history and ownership clauses can fail: stand-ins with exactly the two habits they are about
    #    (a one-entry answer cache that survives an edit of the control points; end points handed out by reference)
    fake = Report()
    fctx = Ctx(fake)
    _curve_histories(fctx, _StandInCurve, [[0, 0, 0], [1, 2, -1], [-2, 1, 3]], "tuples")
    _curve_ownership(fctx, _StandInCurve, [[0, 0, 0], [1, 2, -1], [-2, 1, 3]], "ndarray")
    _patch_histories(fctx, _StandInPatch, [[[0, 0, 0], [1, 2, -1]], [[-2, 1, 3], [3, -1, 2]]], "tuples", ["u_inner"])
    _patch_ownership(fctx, _StandInPatch, [[[0, 0, 0], [1, 2, -1]], [[-2, 1, 3], [3, -1, 2]]], "ndarray", ["u_inner"])
    got = {(v["subcheck"], v["input_class"]) for v in fake.violations}
    want = {("C19.bezier.curve.history", "edit=replace:then=same_parameter"), ("C19.bezier.curve.history", "edit=in_place:then=same_parameter"),
            ("C19.bezier.curve.ownership", "parameter_at_end"),
            ("C19.bezier.patch.history", "edit=replace:then=same_u_other_v"), ("C19.bezier.patch.history", "edit=in_place:then=same_u_same_v"),
            ("C19.bezier.patch.ownership", "parameters_at_corner")}
    if want <= got and not any(c.endswith("parameter_interior") or c.endswith("then=other_parameter") or c.endswith("parameters_interior")
                               or c.endswith("then=other_u_same_v") for _, c in got):
        rep.flag("selftest:history_and_ownership_clauses_can_fail")
    else:
        rep.notes.append(f"stand-in selftest: got {sorted(got)}")
    # 6. the argument-form clauses (documented defaults, positional / keyword forms, signature guard) can fail
    _selftest_defaults(rep)
    # 7. the history clauses on the domain objects can fail: the box world on a stand-in whose pad works IN PLACE on the stored
    #    corner vectors (so a box derived from its corners, and the caller's corner arrays, are enlarged with it), and stays silent
    #    on the real class; the model of mc/c19_hist.py passes its own checks
    for b in H.selftest():
        rep.count("harness:selftest_failed")
        rep.notes.append("history model selftest: " + b)
    from mouette.geometry import AABB

    class _StandInBox(AABB):             # NOT the library
        def pad(self, pad):
            self._p1 -= np.full(self.dim, pad)
            self._p2 += np.full(self.dim, pad)

    fake = Report()
    fctx = Ctx(fake)
    with L.Installed(sampling, fctx.seam):
        _run_hist_box({"form": "f64", "dim": 2, "depth": 2}, fctx, box_cls=_StandInBox)
    got = {(v["subcheck"], v["callee"], v["input_class"]) for v in fake.violations}
    want = {("C19.aabb.history.inside", "sampling.sample_AABB", "box:call_history:sampled_box_never_padded"),
            ("C19.aabb.history.arguments_unchanged", "AABB.pad", "p_min:call_history")}
    quiet = Report()
    qctx = Ctx(quiet)
    with L.Installed(sampling, qctx.seam):
        _run_hist_box({"form": "f64", "dim": 2, "depth": 2}, qctx)
    if want <= got and not quiet.violations:
        rep.flag("selftest:domain_history_clauses_can_fail")
    else:
        rep.notes.append(f"domain history selftest: got {sorted(got)}, on the real class {[v['subcheck'] for v in quiet.violations]}")
    rep.traces += 1


# ================================================================================================ entry points
def run_task(task, rep: Report):
    import numpy as np
    import warnings
    warnings.filterwarnings("ignore")
    from mouette import sampling
    np.random.seed(SEED % (2 ** 32))        # any unintercepted draw would at least be reproducible (and is reported)
    ctx = Ctx(rep)
    with L.Installed(sampling, ctx.seam):
        if task.get("anisos"):
            # anisotropic deviation: the same reduced enumeration without it first (reference, only remembered), then with
            # coordinate k of every input multiplied by 2^e[k] for every vector e of the task (x every unit of length)
            ctx.reference = True
            _dispatch(dict(task, scale_exp=0), ctx)
            ctx.reference = False
            for vec in task["anisos"]:
                for ex in task.get("aniso_units") or [0]:
                    ctx.set_aniso(vec)
                    _dispatch(dict(task, scale_exp=ex), ctx)
            ctx.set_aniso(None)
        elif task.get("scale_exps"):
            ctx.reference = True
            _dispatch(dict(task, scale_exp=0), ctx)       # reference: same reduced enumeration at unit 1, only remembered
            ctx.reference = False
            for ex in task["scale_exps"]:
                _dispatch(dict(task, scale_exp=ex), ctx)
        else:
            _dispatch(task, ctx)


def _dispatch(task, ctx):
    kind = task["kind"]
    if kind == "selftest":
        _run_selftest(task, ctx)
    elif kind == "sphere":
        _run_round(task, ctx, ball=False)
    elif kind == "ball":
        _run_round(task, ctx, ball=True)
    elif kind == "aabb_grid":
        _run_aabb_grid(task, ctx)
    elif kind == "aabb_uniform":
        _run_aabb_uniform(task, ctx)
    elif kind == "polyline":
        _run_polyline(task, ctx)
    elif kind == "surface":
        _run_surface(task, ctx)
    elif kind == "curve":
        _run_curves(task, ctx)
    elif kind == "patch":
        _run_patches(task, ctx)
    elif kind == "curve_hist":
        _run_curve_hist(task, ctx)
    elif kind == "patch_hist":
        _run_patch_hist(task, ctx)
    elif kind == "defaults":
        _run_defaults(task, ctx)
    elif kind == "hist_box":
        _run_hist_box(task, ctx)
    elif kind == "hist_round":
        _run_hist_round(task, ctx)
    elif kind == "hist_mesh":
        _run_hist_mesh(task, ctx)
    else:
        raise ValueError(kind)


def finish(tier, rep: Report):
    fails = []
    for k, v in sorted(rep.counters.items()):
        if k.startswith("harness:") and v:
            fails.append(f"{k} = {v} ({'; '.join(rep.notes[:3])})")
    need = ["selftest:oracles_ran", "selftest:rng_guard_live", "selftest:seam_rejects_unknown_draws",
            "selftest:seam_drives_sampler", "selftest:box_oracle_can_fail",
            "sphere:radius<1", "sphere:radius==1", "sphere:radius>1", "sphere:centre==0", "sphere:centre!=0",
            "ball:radius<1", "ball:radius==1", "ball:radius>1", "ball:strictly_inside_seen",
            "aabb:grid:exact_power", "aabb:grid:non_power", "aabb:grid:box==unit_cube", "aabb:grid:box!=unit_cube",
            "aabb:uniform:strictly_inside_seen",
            "polyline:NE==1", "polyline:NE>1", "polyline:choice_called", "polyline:unequal_shares",
            "surface:NF==1", "surface:NF>1", "surface:choice_called", "surface:unequal_shares", "surface:normal_checked",
            "as_surface:n1==n2", "as_surface:n1<n2", "as_surface:n1>n2",
            "custom_pos:len(custom_pos)<=100", "custom_pos:len(custom_pos)>100(default n_pts)", "reject:nan"]
    need += [f"aabb:{m}:dim{d}" for m in ("grid", "uniform") for d in (1, 2, 3, 4)]
    need += [f"curve:degree{d}:{k}d" for d in (0, 1, 2, 3) for k in (2, 3)] + ["curve:int_control_points"]
    need += [f"patch:net{m}x{n}" for m in (2, 3) for n in (2, 3)]
    need += [f"surface:pc={a}:normals={b}" for a in (False, True) for b in (False, True)]
    need += [f"unit:2^{ex}:{k}" for ex in SCALE_EXPS
             for k in ("sphere", "ball", "aabb_grid", "aabb_uniform", "polyline", "surface", "curve", "patch")]
    need += ["selftest:domain_history_clauses_can_fail"]
    need += [f"hist:box:form={f}" for f in BOX_FORMS] + [f"hist:box:dim{d}" for d in (1, 2, 3)]
    need += [f"hist:box:event:{e}" for e in ("corners_of", "same_args", "union", "inter", "pad", "sweep")]
    need += [f"hist:box:pad_vector_form={f}" for f in VEC_FORMS]
    need += [f"hist:box:sampled:{w}:population{k}" for w in ("padded", "never_padded") for k in (1, 2, 3)]
    need += [f"hist:round:form={f}" for f in CENTRE_FORMS] + [f"hist:round:call{k}" for k in (1, 2, 3)]
    need += [f"hist:round:event:{e}" for e in ("sphere", "ball", "overwrite_result")]
    need += [f"hist:mesh:{sp}" for sp in H_MESHES] + [f"hist:mesh:final_sample:population{k}" for k in (1, 2)]
    need += [f"hist:mesh:event:{e}" for e in ("sample", "copy", "translate", "assign_vertex", "edit_vertex_in_place", "overwrite_result")]
    need += [f"aniso:{k}" for k in ("polyline", "surface", "aabb_grid", "aabb_uniform", "curve", "patch")]
    need += [f"aniso:2^{k}" for k in ANISO_EXPS[tier]]
    need += ["aniso:surface:needle_face(aspect>=2^20)", "aniso:surface:unequal_shares", "aniso:polyline:edge_lengths_differ_by>=2^20",
             "surface:needle_tolerance_used"]
    need += ["polyline:unequal_shares:total_length<1e-8", "selftest:history_and_ownership_clauses_can_fail",
             "curve_hist:edit_changes_the_answer_at_the_same_parameter", "patch_hist:edit_changes_the_answer_at_the_same_parameters",
             "patch_hist:convention_decided"]
    need += [f"{k}_hist:edit={e}" for k in ("curve", "patch") for e in ("replace", "in_place")]
    need += [f"{k}_hist:form={f}" for k in ("curve", "patch") for f in FORMS]
    need += [f"{k}_owner:inputs_checked:form={f}" for k in ("curve", "patch") for f in FORMS]
    need += [f"curve_hist:then={x}" for x in ("same_parameter", "other_parameter", "export")]
    need += [f"patch_hist:then={x}" for x in ("same_u_same_v", "same_u_other_v", "other_u_same_v", "export")]
    need += [f"curve_owner:evaluate:{x}" for x in ("degree==0", "parameter_at_end", "parameter_interior")]
    need += ["curve_owner:as_polyline:parameter_at_end", "patch_owner:as_surface:parameters_at_corner"]
    need += [f"patch_owner:evaluate:{x}" for x in ("net1x1", "parameters_at_corner", "parameters_on_border", "parameters_interior")]
    # documented defaults / argument forms: every entry of the pinned table was compared with the signature, called by keyword,
    # positionally up to it, left out alone (and together with the others) and its value changes the answer somewhere
    need += ["selftest:defaults_clauses_can_fail"] + ["defaults:group:" + g for g in DEFAULTS_GROUPS]
    for callee, sig in DOC_SIGNATURE.items():
        opts = FM.options_of(sig)
        need.append(f"defaults:keyword:{callee}")
        need += [f"defaults:signature:{callee}:{n}" for n, _ in sig]
        need += [f"defaults:positional:{callee}:{n}" for n in ([FM.required_of(sig)[-1]] if FM.required_of(sig) else []) + opts]
        need += [f"defaults:{w}:{callee}:{p}" for p in opts for w in ("omitted_alone", "matters")]
        if len(opts) >= 2:
            need += [f"defaults:omitted_together:{callee}:{p}" for p in opts]
    for f in need:
        if f not in rep.flags:
            fails.append("coverage flag missing: " + f)
    convs = [f for f in rep.flags if f.startswith("patch_convention:")]
    if len(convs) != 1:
        fails.append(f"patches must follow exactly one (u,v) convention over the whole run, saw {sorted(convs)}")
    for kind in ("curve.evaluate", "patch.evaluate", "sample_polyline.edge_hit", "sample_surface.face_hit",
                 "sample_ball.radial_fraction", "sample_sphere.octant", "sample_AABB.grid.count"):
        if len(rep.outcomes.get(kind, ())) < 2:
            fails.append(f"event kind {kind} produced a single outcome")
    return fails



def stale_variant(task, tier):
    """Tasks that are also run on meshes with a stale attribute blackboard (mc/families.py STALE; the runner appends
    ':stale_attribute_blackboard' to the input class of anything found there)."""
    return bool(task.get("kind") in ("polyline", "surface") and not task.get("scale_exps") and not task.get("anisos"))


def dupflag_variant(task, tier):
    """Tasks that are also run with config.display_duplicate_attribute_warning = True (the runner appends
    ':duplicate_attribute_flag' to the input class of anything found there)."""
    return bool(task.get("kind") in ("polyline", "surface") and not task.get("scale_exps") and not task.get("anisos"))


def warm_variant(task, tier):
    """Tasks that are also run on meshes whose attribute blackboard is already filled with (valid) persistent attributes
    (mc/families.py WARM; the runner appends ':warm_attribute_blackboard' to the input class of anything found there)."""
    return bool(task.get("kind") in ("polyline", "surface") and not task.get("scale_exps") and not task.get("anisos"))
