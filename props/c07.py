"""C07 - geometric quantities match their textbook definitions, are covariant under rigid motions, scales
and renumberings, and do not depend on the state of the attribute blackboard (S2 + S1).

Phases (one kind of task each):
  opts     every function of mouette.attributes named in the statement x the full cross product of its options,
           on a fresh mesh per persistent call, compared element by element with the exact oracle (mc/c07_lib.py)
  partners the same mesh under the 24 axis-permuting rotations x 2 translations, scales 2 and 1/2, relabelings
           (all for n<=5, transpositions beyond) and a re-listing of the faces; library(partner) is compared with
           transform(library(base))
  bfs      breadth-first search over the ORDER in which persistent quantities are requested on one mesh object;
           in every distinct blackboard state every quantity is recomputed and compared with the oracle
  interp   a constant attribute (scalar and 3-vector, dense and sparse) pushed through every interpolation /
           scatter / average function and weighting mode, in several blackboard states
  vol...   the same for tetrahedral meshes
  unit     (opts / interp / vol_opts tasks with 'units', partners 'unit_of_length') the same mesh expressed in the units of
           length 2^-20 and 2^20: every quantity scales with its power of the factor (lengths s, areas s^2, volumes s^3,
           angles / cotangents / normals / degrees / constant interpolation unchanged), against the oracle on the scaled
           coordinates and against the base mesh; a case already wrong in the base unit is left to its own clause
  deform   histories on ONE mesh object: quantities requested persistently, the geometry changed in place by a map that is
           not a similarity (transform.scale_xyz with unequal factors, one vertex moved through the container), the same
           functions called again: an explicit call describes the CURRENT geometry. Quantities derived from other stored
           attributes are judged only after those inputs were requested again (the library reuses them by design)
  convex   every strictly convex lattice polygon of the 4x4 grid (one per symmetry class: trapezoids, kites, irregular
           quads, pentagons ... the octagon) under the integer affine maps, listed from every corner in both orientations,
           alone and glued to a triangle: areas, normals, barycentres, angles, sums and means against the exact oracle
  far      (opts / interp / vol_opts tasks and partners tasks with 'far') the same mesh FAR FROM THE ORIGIN: p -> 2^j p + (2^k, -2^k, 2^(k-1))
           with (k, j) in {(30, 0), (24, -10)} (thorough + (34, 0), (27, -10)), only where every coordinate stays an exact float
           (exact predicate): a translation is a rigid motion, so every quantity equals the oracle on the translated coordinates
           (full option cross product) and the value on the base mesh (scalars and directions unchanged, points moved); points are
           compared relative to the SIZE of the mesh (+ 64 float spacings at that distance), not to the distance
  kept     (inside bfs / deform / vol_bfs / vol_deform) OWNERSHIP OF RESULTS: every attribute object put on the blackboard by the
           earlier calls of a history is kept with its values and re-read after every later call (same function with other options,
           other functions; same geometry, after an in-place deformation, after an in-place similarity transform.scale(3) /
           transform.translate((8,-16,32))): it still holds the values it had when it was returned
  defaults every function called with each optional argument OMITTED (one at a time in every combination of the other options,
           and all together) and with the options passed POSITIONALLY in the documented order (every prefix): same observable
           behaviour (raise / storage class / where stored / values / whole blackboard) as the call passing the documented
           default by keyword; the documented signatures are pinned in DOC_SIGNATURE and compared with inspect.signature().
           Which storage class a given value of `dense` selects is NOT judged (on the persistent path 8 functions ignore
           `dense`: noted defect, the statement is about values) - only that omitting an option changes nothing
"""
from __future__ import annotations
import itertools, math
from mc.core import Report, call, exc_kind, h64
from mc import families as F
from mc import c07_lib as L
from mc import exact as X

ID = "C07"
TECHNIQUE = ("bounded-exhaustive input families x full option cross product vs exact rational oracle; metamorphic "
             "partners (rotations, translations, scales, units of length, relabelings); BFS over request orders of persistent "
             "attributes; request / deform in place / request again histories; argument forms (each option omitted / positional) "
             "against the pinned documented signatures; placements far from the origin (exact translates by 2^24 .. 2^34, distance / size up to 2e10); "
             "result objects kept across every history and re-read after every later call")
RULE = ("inputs: every labelled oriented manifold triangle complex on <=5 vertices, one per isomorphism class on 6 "
        "(thorough: all labelled), ZOO specimens incl. planar-faced quad/polygon polyhedra under integer affine maps, "
        "every labelled tetrahedral complex on <=5 vertices + classes on 6; x coordinate alphabets (moment curve, "
        "lattice, generic); x every option vector of every function; x partners; x blackboard states reached by BFS; "
        "x units of length {1, 2^-20, 2^20}; x histories request / in-place deformation / request again; every strictly "
        "convex lattice polygon of the 4x4 grid (one per symmetry class) x 3 affine maps x every listing rotation x both orientations; "
        "x argument forms: every option vector with one option omitted / all omitted / the first k options positional, on 4 surfaces and 2 volumes. "
        "x placements far from the origin p -> 2^j p + (2^k, -2^k, 2^(k-1)), (k, j) in {(30, 0), (24, -10)} (thorough: + (34, 0), (27, -10)), on every "
        "specimen whose coordinates stay exact floats (as partners of every partners task, full option cross product on the unit-of-length "
        "meshes, constant interpolation); x result objects kept by the caller: every attribute object a history leaves on the blackboard is "
        "re-read after every later call of the history (BFS over request orders; request / deformation or similarity in place / request again). "
        "A case = one (mesh, coordinates, phase, option vector / partner / blackboard state); non-trivial = the mesh "
        "has at least one non-degenerate face or cell")
ASSUMPTIONS = [
    "unit normals follow the right-hand rule of the face's vertex order (the library documents no convention; pinned as observed)",
    "cotangent edge weight = (cot a + cot b)/2 (textbook Pinkall-Polthier weight; the docstring says 'sum', the Laplacian code uses the half)",
    "angle defect on a border vertex = pi - sum of angles (needed for the Gauss-Bonnet clause of the statement), 0 with zero_border=True",
    "mean_*(mesh, n) = mean of the first min(n, N) elements ('early stopping'); n = 0 is excluded",
    "corners with an angle < ~9.97 deg or > ~170.03 deg (cos^2 > 97/100, evaluated in rationals) and quantities derived from them are excluded and counted; non-planar or non-strictly-convex polygons likewise (exact predicate)",
    "vertices where the weighted normal sum is shorter than 1e-3 x (sum of weights) are excluded and counted",
    "float comparisons: relative 1e-9 (+1e-12 x length unit^dimension)",
    "mesh.edges / volume mesh.faces are taken from the library (construction is C02/C03's subject); their SET is checked against the face/cell list",
    "after an in-place deformation only explicit calls are judged, and a quantity that the library derives from other stored attributes (cotangent from 'angles', cotan_weights from 'cotan', angle_defects from 'angles', vertex_normals from face 'normals', sums and means from 'area' / 'volume') only after those were requested again; the new coordinates are read back from the mesh (transform.* itself is not C07's subject); default config.display_duplicate_attribute_warning only",
    "documented defaults and parameter order = the signatures of the unchanged tree, pinned in DOC_SIGNATURE (where the prose of a docstring contradicts its own signature - dense of border_normals / triangle_aspect_ratio, name of face_circumcenter - the signature is taken); an omitted option means its documented default (same raise / returned storage class / place where it is stored / values / blackboard as the explicit call), options may be passed positionally in the documented order; which storage class a value of `dense` selects is not judged",
    "far from the origin: only specimens whose coordinates are exactly representable after the map (integer / dyadic coordinates; icosahedron, torus are filtered and counted); offsets up to 2^30 (thorough 2^34) with sizes down to ~1e-2, i.e. distance / size <= ~2e10 (beyond it face_area of faces with >= 5 corners, which fans the polygon around an absolutely positioned barycentre, is itself no longer right to 1e-9: 5e-11 at 2^40, 3e-6 at 2^36 / 4096; stated bound, handed over as a finding); a POINT far from the origin is compared up to 1e-9 x (size of the mesh) + 64 spacings of the floating point numbers at that distance, scalars and directions with the usual relative 1e-9",
    "a result object returned by a call (and every by-product it stores on the mesh) belongs to the caller: later calls of the history leave it bit-identical (default config.display_duplicate_attribute_warning only). Pinned as observed: cotangent(persistent=True) refills the attribute already stored under its name - same values (1e-9) while the geometry is unchanged or moved by a similarity, not judged after another deformation. Results displaced from the blackboard stay kept. Edits of a kept result by the CALLER followed by further library calls are not explored (a stored attribute is documented input of the derived quantities)",
    "units of length are powers of two (2^-20, 2^20) so that the scaled coordinates are exact; face_barycenter = mean of the corners (as documented), polygon area of a planar convex polygon = shoelace / vector area",
]
BOUNDS = {
    "quick": "full option cross product (persistent x dense x zero_border x interpolation x custom normals x n) on one representative per isomorphism class of SURF triangles n<=6 (38) x {lattice, generic, moment} + ZOO (grids and holey grids under affine maps, prisms, cube/pyritohedron/cuboctahedron/truncated octahedron/prisms/pyramids x 3 integer affine maps + bordered variants, octa/icosahedron, tori); every labelled SURF n<=5 (434) x {lattice, generic} with default options; partners: 24 rotations (alternating between 2 translations), scales 2 and 1/2, all relabelings for n<=5 (generic), transpositions + face re-listing otherwise; blackboard BFS depth 2 (x both values of config.display_duplicate_attribute_warning) on 31 meshes; constant interpolation on 24 meshes x 3 blackboard pre-states; TET n<=5 all (27) + TET(6) classes (16) x 3 alphabets, partners, blackboard BFS depth 3; "
             "units 2^-20 and 2^20: as two more partners of every partners task (surfaces and volumes), full option cross product vs oracle on the class representatives n<=5 (generic) + 11 ZOO meshes and on every TET representative (generic), constant interpolation in both units on every interp mesh (empty blackboard); "
             "deformation histories (3 deformations: scale_xyz(2,1,1/2), scale_xyz(1,4,1), last vertex moved by (1,-2,3)) x {one function alone, every function} on the 31 BFS meshes + 3 generic-quad grids and on the TET representatives n>=5; "
             "convex lattice polygons of the 4x4 grid: all 89 quad classes, the 5 pentagon/hexagon classes of the 3x3 grid and every 4th other class (126 shapes), each under 3 affine maps (all 2k listings under one, 2 under the others) alone and glued to a triangle; ZOO also contains trapezoid / irregular-quad grids; "
             "far from the origin: placements (k, j) = (30, 0) and (24, -10) as two more partners of every partners task (surfaces and volumes; inexact specimens filtered), full option cross product vs oracle on the unit-of-length meshes (class representatives n<=5 generic + 11 ZOO) and on every TET representative (generic), constant interpolation under one of the two placements per task in rotation, the first listing (alone and glued) of every convex lattice polygon under one placement per shape in rotation; "
             "kept result objects: re-read after every event of the blackboard BFS (depth 2; volumes depth 3), after every re-call of the deformation histories, and in the histories 'every quantity; transform.scale(3) | transform.translate((8,-16,32)); every quantity again' on every deform / vol_deform mesh; "
             "argument forms: 23 functions with options (60 pinned defaults) + 7 without, on a bordered and a closed triangulation (5 vertices), a mixed tri/quad grid, a sheared cube, 2 tetrahedral meshes: full cross product of {default, other values} per option explicitly, each option omitted in every combination of the others, all omitted, every positional prefix over the {default, first other value} vectors; signatures compared with the pinned table",
    "thorough": "quick + full option cross product on every labelled SURF n<=5 x 3 alphabets; all labelled SURF(6) triangle complexes (12934) x {generic, lattice} and all labelled TET(6) (2422) x {generic, moment} against the oracle (default options); partners with all 24 x 2 rigid motions on every alphabet and larger ZOO; blackboard BFS depth 3 on all class representatives (volumes: depth 4); 5 blackboard pre-states for interpolation; unit-of-length option cross product on all class representatives x {generic, lattice}, both units x 2 pre-states for interpolation, TET x {generic, moment}; deformation histories on all BFS meshes of the tier; all 219 convex lattice polygon classes of the 4x4 grid; argument forms as in quick; far from the origin: four placements (2^30, 2^24/1024, 2^34, 2^27/1024) everywhere, two of the four per interp task in rotation; kept result objects on BFS depth 3 (volumes 4) and all deform meshes of the tier",
}

ALPHAS = ("lattice", "generic", "moment")
BATCH = 12


# ================================================================================================ inputs
def _classes(lists, n):
    seen, out = set(), []
    for fl in lists:
        c = F.canonical_class(fl, n)
        if c not in seen:
            seen.add(c); out.append(c)
    return out


def _surf_zoo(tier):
    """(name, pts, faces) with explicit integer (or exact float) coordinates."""
    out = []
    for k, l in ((2, 3), (3, 3)) + (((3, 4), (4, 4)) if tier == "thorough" else ()):
        for mode in ("tri", "tri2", "quad", "mixed"):
            p, f = F.grid(k, l, mode)
            for aff in ("id", "shear"):
                out.append((f"grid{k}x{l}{mode}:{aff}", L.affine(p, aff), f))
    # non-planar quads: must be excluded by the exact planarity predicate (vacuity of the filter)
    p, f = F.grid(3, 3, "quad", z=lambda i, j: i * j)
    out.append(("grid3x3quad:saddle", p, f))
    p, f = F.grid(3, 3, "tri", z=lambda i, j: i * j - j)
    out.append(("grid3x3tri:saddle", p, f))
    for name in ("cube", "pyritohedron", "cuboctahedron", "truncated_octahedron", "prism5", "prism6", "pyramid4", "pyramid5"):
        p, f = L.polyhedron(name)
        for aff in L.AFFINE:
            out.append((f"{name}:{aff}", L.affine(p, aff), f))
        # bordered variant: drop the first face (and unused vertices)
        p2, f2 = F.compact(L.affine(p, "shear"), f[1:])
        if F.is_oriented_manifold(f2, len(p2)):
            out.append((f"{name}-open:shear", p2, f2))
    for n, anti in ((3, False), (4, True), (5, False)):
        p, f = F.prism_annulus(n, anti)
        out.append((f"annulus{n}{'a' if anti else 'p'}", L.affine(p, "id"), f))
    p, f = F.octahedron(); out.append(("octahedron:skew", L.affine(p, "skew"), f))
    p, f = F.tetrahedron_surface(); out.append(("tetrahedron", p, f))
    p, f = F.icosahedron(); out.append(("icosahedron", p, f))
    p, f = F.torus_grid(3, 4); out.append(("torus3x4", p, f))
    p, f = F.csaszar_torus(); out.append(("csaszar", p, f))
    # generic planar convex quads (no parallelogram among them): a perspective image of the grid (rows of different
    # widths: trapezoids) and the grid with its inner vertex moved (irregular quads); affine maps keep them planar and convex
    p, f = F.grid(3, 3, "quad")
    for aff in ("id", "skew"):
        out.append((f"grid3x3quad-trapezoids:{aff}", L.affine([(i * (j + 2), 3 * j, 0) for i, j, _ in p], aff), f))
    q = [(3 * i, 3 * j, 0) for i, j, _ in p]
    q[4] = (4, 2, 0)
    out.append(("grid3x3quad-irregular:shear", L.affine(q, "shear"), f))
    p, f = F.grid(3, 3, "mixed")
    out.append(("grid3x3mixed-trapezoids:shear", L.affine([(i * (j + 2), 3 * j, 0) for i, j, _ in p], "shear"), f))
    cnt = 0
    for mask, p, f in F.holey_grids(3, 3, "tri", max_removed=2):
        if cnt % (3 if tier == "quick" else 1) == 0:
            out.append((f"holey3x3t{mask}", L.affine(p, "shear"), f))
        cnt += 1
    return [(n, L.pts_to_json(p), [list(x) for x in f]) for n, p, f in out]


def _desc(name, alpha, n, faces):
    return (f"{name}:{alpha}", L.pts_to_json(L.coords(alpha, n)), [list(f) for f in faces])


def _surf_small(alpha):
    out = []
    for n in (3, 4, 5):
        for i, fl in enumerate(F.surf_enum(n)):
            out.append(_desc(f"tri{n}#{i}", alpha, n, fl))
    return out


def _surf_reps():
    """(name, n, faces): one representative per isomorphism class."""
    out = []
    for n in (3, 4, 5):
        for i, fl in enumerate(_classes(F.surf_enum(n), n)):
            out.append((f"tri{n}c{i}", n, fl))
    for i, fl in enumerate(F.surf6_classes()):
        out.append((f"tri6c{i}", 6, fl))
    return out


def _tet_small():
    out = []
    for n in (4, 5):
        for i, cl in enumerate(F.tet_enum(n)):
            out.append((f"tet{n}#{i}", n, cl))
    return out


def _tet_reps():
    out = [(f"tet{n}c{i}", n, cl) for n in (4, 5) for i, cl in enumerate(F.tet_classes(n))]
    out += [(f"tet6c{i}", 6, cl) for i, cl in enumerate(F.tet6_classes())]
    return out


def _batches(items, size):
    return [items[i:i + size] for i in range(0, len(items), size)]


ZOO_KEY = ("cube:shear", "pyritohedron-open:shear", "cuboctahedron:skew", "pyramid5:shear", "grid2x3mixed:shear", "octahedron:skew",
           "annulus4a", "prism6-open:shear")
ZOO_GENERIC = ("grid3x3quad-trapezoids:skew", "grid3x3quad-irregular:shear", "grid3x3mixed-trapezoids:shear")
ZOO_PARTNERS_QUICK = ZOO_KEY + ZOO_GENERIC + ("grid3x3quad:id", "grid2x3tri:shear", "truncated_octahedron:id", "pyritohedron:skew", "tetrahedron",
                                "icosahedron", "torus3x4", "prism5:id", "pyramid4-open:shear", "grid3x3tri:saddle")


def tasks(tier):
    out = [{"phase": "selftest"}, {"phase": "notched"}]
    thorough = tier == "thorough"
    far = _far_of(tier)
    reps = _surf_reps()
    zoo_list = _surf_zoo(tier)
    zoo = {m[0]: m for m in zoo_list}
    # ---- opts: full option cross product vs oracle (class representatives + ZOO; thorough: every labelled mesh n<=5)
    for alpha in ALPHAS:
        items = _surf_small(alpha) if thorough else [_desc(nm, alpha, n, fl) for nm, n, fl in reps if n <= 5]
        items += [_desc(nm, alpha, n, fl) for nm, n, fl in reps if n == 6]
        for b in _batches(items, 6):
            out.append({"phase": "opts", "meshes": b})
    for b in _batches(zoo_list, 3):
        out.append({"phase": "opts", "meshes": b})
    # ---- every labelled mesh n<=5, default options, vs oracle
    for alpha in ("lattice", "generic"):
        for n in (3, 4, 5):
            N = len(F.surf_enum(n))
            for i in range(0, N, 70):
                out.append({"phase": "labelled", "alpha": alpha, "n": n, "lo": i, "hi": min(i + 70, N)})
    # ---- partners
    motions = "24x2" if thorough else "24"
    for nm, n, fl in reps:
        for alpha in (ALPHAS if thorough else ("generic", "lattice")):
            if n == 6 and alpha != "generic" and not thorough:
                continue
            rl = "all" if (n <= 5 and (alpha == "generic" or thorough)) else "transpositions"
            out.append({"phase": "partners", "mesh": _desc(nm, alpha, n, fl), "n": n, "relabel": rl, "motions": motions, "far": far})
    for m in zoo_list:
        if (thorough and len(m[1]) <= 24) or m[0] in ZOO_PARTNERS_QUICK:
            out.append({"phase": "partners", "mesh": m, "n": len(m[1]), "relabel": "transpositions" if len(m[1]) <= 8 else "few", "motions": motions,
                        "far": far})
    # ---- blackboard BFS (both values of config.display_duplicate_attribute_warning)
    depth = 3 if thorough else 2
    bfs_reps = [r for r in reps if r[1] in (4, 5)] + [r for i, r in enumerate(r for r in reps if r[1] == 6) if thorough or i % 3 == 0]
    bfs_in = [_desc(nm, "generic", n, fl) for nm, n, fl in bfs_reps]
    bfs_in += [_desc(nm, "lattice", n, fl) for nm, n, fl in reps if n == 5]
    bfs_in += [zoo[k] for k in ZOO_KEY]
    for m in bfs_in:
        out.append({"phase": "bfs", "mesh": m, "depth": depth})
    # ---- interpolation of constants
    interp_in = [_desc(nm, "generic", n, fl) for nm, n, fl in reps if thorough or n <= 5 or int(nm.split("c")[1]) % 4 == 0] + \
                [zoo[k] for k in ZOO_KEY[:5] + ("grid3x3quad:id", "annulus3p", "truncated_octahedron:id")]
    interp_in += [zoo[k] for k in ZOO_GENERIC]
    for ib, b in enumerate(_batches(interp_in, 2)):
        # far placements: two of the four per task (thorough) / one of the two per task (quick), in rotation
        out.append({"phase": "interp", "meshes": b, "prestates": 5 if thorough else 3, "units": list(UNIT_EXPONENTS),
                    "unit_prestates": 2 if thorough else 1,
                    "far": [far[(2 * ib + q) % len(far)] for q in range(2)] if thorough else [far[ib % len(far)]]})
    # ---- unit of length: the full option cross product on the same meshes expressed in the units 2^-20 and 2^20
    unit_in = [_desc(nm, "generic", n, fl) for nm, n, fl in reps if thorough or n <= 5] + [zoo[k] for k in ZOO_KEY + ZOO_GENERIC]
    if thorough:
        unit_in += [_desc(nm, "lattice", n, fl) for nm, n, fl in reps]
    for b in _batches(unit_in, 3):
        out.append({"phase": "opts", "meshes": b, "units": list(UNIT_EXPONENTS), "clause": "unit_of_length", "far": far})
    # ---- histories on one mesh object: request, deform in place, request again
    for m in bfs_in + [zoo[k] for k in ZOO_GENERIC]:
        out.append({"phase": "deform", "mesh": m})
    # ---- generic planar convex polygons (every strictly convex lattice polygon of the 4x4 grid, one per symmetry class)
    shapes = _convex_shapes(tier)
    nb = 16 if thorough else 8
    for i in range(nb):
        out.append({"phase": "convex", "shapes": shapes[i::nb], "far": far})
    # ---- default values and argument forms (options omitted / passed positionally) + the pinned signatures
    out.append({"phase": "defaults", "what": "signature"})
    byname = {r[0]: r for r in reps}
    dsurf = [_desc(nm, alpha, byname[nm][1], byname[nm][2]) for nm, alpha in DEFAULTS_TRI_MESHES] + [zoo[k] for k in DEFAULTS_ZOO_MESHES]
    # one task = a group of functions on ALL the meshes (one defect = one fingerprint, whatever the mesh)
    rest = [f for f in DEFAULTS_SURF if f not in ("vertex_normals", "angle_defects") and f not in INTERP_CONT]
    for fns in (["vertex_normals"], ["angle_defects"] + sorted(INTERP_CONT), rest[:len(rest) // 2], rest[len(rest) // 2:]):
        out.append({"phase": "defaults", "what": "surface", "meshes": dsurf, "functions": fns})
    tbyname = {r[0]: r for r in _tet_reps()}
    out.append({"phase": "defaults", "what": "volume", "functions": DEFAULTS_VOL,
                "meshes": [(f"{nm}:{alpha}", L.pts_to_json(L.coords(alpha, tbyname[nm][1])), [list(c) for c in tbyname[nm][2]]) for nm, alpha in DEFAULTS_TET_MESHES]})
    # ---- volumes
    for alpha in ("moment", "generic", "lattice"):
        items = [(f"{nm}:{alpha}", L.pts_to_json(L.coords(alpha, n)), [list(c) for c in cl]) for nm, n, cl in _tet_small()]
        items += [(f"{nm}:{alpha}", L.pts_to_json(L.coords(alpha, n)), [list(c) for c in cl]) for nm, n, cl in _tet_reps() if n == 6]
        for b in _batches(items, 6):
            out.append({"phase": "vol_opts", "meshes": b})
    for alpha in ("moment", "generic"):
        for nm, n, cl in _tet_reps():
            if n == 6 and alpha == "moment" and not thorough:
                continue
            out.append({"phase": "vol_partners", "mesh": (f"{nm}:{alpha}", L.pts_to_json(L.coords(alpha, n)), [list(c) for c in cl]),
                        "n": n, "relabel": "all" if n <= 5 else "transpositions", "motions": motions, "far": far})
    for nm, n, cl in _tet_reps():
        if n >= 5:
            out.append({"phase": "vol_bfs", "mesh": (f"{nm}:generic", L.pts_to_json(L.coords("generic", n)), [list(c) for c in cl]),
                        "depth": depth + 1})
    for alpha in (("generic", "moment") if thorough else ("generic",)):
        items = [(f"{nm}:{alpha}", L.pts_to_json(L.coords(alpha, n)), [list(c) for c in cl]) for nm, n, cl in _tet_reps()]
        for b in _batches(items, 6):
            out.append({"phase": "vol_opts", "meshes": b, "units": list(UNIT_EXPONENTS), "clause": "unit_of_length", "far": far})
        for it in items:
            if len(it[1]) >= 5:
                out.append({"phase": "vol_deform", "mesh": it})
    # ---- thorough: whole labelled families on 6 vertices against the oracle, default options
    if thorough:
        for alpha in ("generic", "lattice"):
            allsix = F.surf_enum(6)
            for i in range(0, len(allsix), 150):
                out.append({"phase": "labelled", "alpha": alpha, "n": 6, "lo": i, "hi": min(i + 150, len(allsix))})
        alltet = F.tet_enum(6)
        for alpha in ("generic", "moment"):
            for i in range(0, len(alltet), 100):
                out.append({"phase": "vol_labelled", "alpha": alpha, "n": 6, "lo": i, "hi": min(i + 100, len(alltet))})
    return out


# ================================================================================================ bookkeeping
def _okey(opts):
    return tuple(sorted((k, repr(v)) for k, v in opts.items()))


def _opt_class(failed, ran):
    """Coarse label of the set of failing option vectors relative to those that ran: the smallest set of option
    keys whose observed failing values select exactly the failing vectors, e.g. "n='n>N'" or "weight='angle'|'area'"."""
    failed, ran = set(failed), set(ran) | set(failed)
    if failed == ran:
        return "opts=any"
    keys = sorted(set(k for o in ran for k, _ in o))
    cons = {}
    for k in keys:
        allv = set(dict(o).get(k) for o in ran)
        fv = set(dict(o).get(k) for o in failed)
        if fv != allv:
            cons[k] = fv
    for size in range(1, len(cons) + 1):
        for sub in itertools.combinations(sorted(cons), size):
            match = set(o for o in ran if all(dict(o).get(k) in cons[k] for k in sub))
            if match == failed:
                return ",".join(f"{k}=" + "|".join(sorted(map(str, cons[k]))) for k in sub)
    return "opts=mixed"


class Collector:
    """Failures of ONE mesh, aggregated so that one defect gives one fingerprint: the option/blackboard class of a
    fingerprint is computed from the set of option vectors that failed relative to those that ran."""

    def __init__(self, rep: Report, mclass, base_detail):
        # mclass = "<arity class>:<closed|bordered>" (surfaces) or "tet"
        self.rep, self.mclass, self.base = rep, mclass, base_detail
        self.ran, self.fails = {}, {}
        self.ctx = {}          # transient context (e.g. the history) copied into details at failure time
        self.calls_failed = 0  # number of fail() calls (a repeated option vector is stored once)
        self.baseline = False  # True: failures are only remembered (the case is reported by another phase)
        self.wrong_in_base_unit = set()

    def run(self, callee, opts):
        if not self.baseline:
            self.ran.setdefault(callee, set()).add(_okey(opts))

    def fail(self, subcheck, callee, kind, opts, detail):
        self.calls_failed += 1
        # a case that is already wrong in the base unit of length is not a unit-of-length defect: reported once, by its own clause
        k0 = (callee, _okey({k: v for k, v in opts.items() if k not in ("unit", "placement")}))
        if opts.get("unit") in (None, "2^0") and opts.get("placement") is None:
            self.wrong_in_base_unit.add(k0)
        elif k0 in self.wrong_in_base_unit:
            return
        if self.baseline:
            return
        d = self.fails.setdefault((subcheck, callee, kind), {})
        d.setdefault(_okey(opts), dict(self.ctx, **dict(detail, options=dict(opts))))

    def flush(self):
        for (sub, callee, kind), d in sorted(self.fails.items()):
            label = _opt_class(set(d), self.ran.get(callee, set()))
            cls = _relevant_class(callee, self.mclass)
            if "duplicate_attribute_flag=True" in label or "reused_output=True" in label or ".own_attribute_present=True" in label:
                cls = cls.split(":")[0] if cls == "tet" else "surf"      # history defects: the trigger is the blackboard, not the mesh shape
            self.rep.violation(sub, "attributes." + callee, kind, f"{cls}:{label}",
                               dict(self.base, **d[sorted(d)[0]]))
        self.fails = {}


# which coarse features of the mesh a function's result can depend on (keeps one defect = one fingerprint)
ARITY_FUNCS = {"face_area", "face_normals", "corner_angles", "vertex_normals", "face_barycenter", "border_normals", "curvature_matrices"}
BORDER_FUNCS = {"angle_defects", "cotan_weights", "vertex_normals", "border_normals", "curvature_matrices", "euler_characteristic"}


def _relevant_class(callee, mclass):
    if callee in ("mean_edge_length", "mean_face_area", "barycenter", "edge_length", "edge_middle_point", "degree"):
        return "mesh"           # same code path for surfaces and volumes
    if ":" not in mclass:
        return mclass
    arity, border = mclass.split(":")[:2]
    out = arity if callee in ARITY_FUNCS else "surf"
    return out + (":" + border if callee in BORDER_FUNCS else "")


def _py(x):
    """library value -> python float / tuple of floats / nested tuples"""
    import numpy as np
    if isinstance(x, np.ndarray):
        return tuple(_py(v) for v in x.tolist()) if x.ndim else _py(x.item())
    if isinstance(x, (list, tuple)):
        return tuple(_py(v) for v in x)
    if isinstance(x, np.generic):
        return x.item()
    return x


def _read(attr, n):
    return [_py(attr[i]) for i in range(n)]


def _mclass(geo):
    ar = set(len(f) for f in geo.faces)
    kind = "tri" if ar == {3} else "quad" if ar == {4} else "poly" if min(ar) >= 5 else "mixed"
    return f"{kind}:{'closed' if geo.closed else 'bordered'}"


def _build_surface(desc):
    name, pts, faces = desc
    m = F.build_surface(pts, [tuple(f) for f in faces])
    return m


def _geo_of(m, desc, rep):
    name, pts, faces = desc
    edges = [tuple(int(v) for v in e) for e in m.edges]
    got_faces = [tuple(int(v) for v in f) for f in m.faces]
    if got_faces != [tuple(f) for f in faces] or set(map(frozenset, edges)) != set(map(frozenset, F.undirected_edges(faces))) \
            or len(edges) != len(F.undirected_edges(faces)) or list(m.face_corners) != [v for f in faces for v in f]:
        rep.count("premise_failed"); rep.notes.append(f"{name}: containers differ from the input face list")
        return None
    return L.SurfGeo(pts, faces, edges)


# ================================================================================================ surface quantities
PD = [dict(persistent=p, dense=d) for p in (False, True) for d in (True, False)]
# name, container, value type, dimension (power of length), triangles only
SURF_SPECS = [
    ("degree", "v", "s", 0, False),
    ("edge_length", "e", "s", 1, False),
    ("edge_middle_point", "e", "pt", 1, False),
    ("cotan_weights", "e", "s", 0, True),
    ("face_area", "f", "s", 2, False),
    ("face_normals", "f", "dir", 0, False),
    ("face_barycenter", "f", "pt", 1, False),
    ("face_circumcenter", "f", "pt", 1, True),
    ("triangle_aspect_ratio", "f", "s", 0, True),
    ("corner_angles", "c", "s", 0, False),
    ("cotangent", "c", "s", 0, True),
    ("angle_defects", "v", "s", 0, True),
    ("vertex_normals", "v", "dir", 0, False),
]
SPEC = {s[0]: s for s in SURF_SPECS}
STORED = {"degree": ("vertices", "degree"), "edge_length": ("edges", "length"), "edge_middle_point": ("edges", "middle"),
          "cotan_weights": ("edges", "cotan_weight"), "face_area": ("faces", "area"), "face_normals": ("faces", "normals"),
          "face_barycenter": ("faces", "barycenter"), "face_circumcenter": ("faces", "circumcenter"),
          "triangle_aspect_ratio": ("faces", "aspect_ratio"), "corner_angles": ("face_corners", "angles"),
          "cotangent": ("face_corners", "cotan"), "angle_defects": ("vertices", "angleDefect"), "vertex_normals": ("vertices", "normals"),
          "cell_volume": ("cells", "volume"), "cell_barycenter": ("cells", "barycenter"), "cell_faces_on_boundary": ("cells", "boundary")}


def _size(geo, cont):
    return {"v": geo.n, "e": geo.ne, "f": geo.nf, "c": geo.nc}[cont]


def _option_vectors(fname):
    if fname == "angle_defects":
        return [dict(o, zero_border=z) for o in PD for z in (False, True)]
    if fname == "vertex_normals":
        return [dict(o, interpolation=w, custom=c) for o in PD for w in ("uniform", "area", "angle") for c in (None, "sparse", "dense")]
    return [dict(o) for o in PD]


def _custom_vectors(nf):
    return [(float(f % 3 + 1), float(2 - f % 2), float((f * f) % 5 + 1)) for f in range(nf)]    # non-unit, same half space


def _custom_attr(M, kind, nf):
    from mouette.mesh.mesh_attributes import Attribute, ArrayAttribute
    a = ArrayAttribute(float, nf, 3) if kind == "dense" else Attribute(float, 3)
    for f, g in enumerate(_custom_vectors(nf)):
        a[f] = M.Vec(*g)
    return a


def surf_want(geo, fname, i, opts):
    """(expected value, None) or (None, reason why the element is excluded)."""
    if fname == "degree":
        return geo.degree(i), None
    if fname == "edge_length":
        return geo.edge_length(i), None
    if fname == "edge_middle_point":
        return L.fl(geo.edge_mid(i)), None
    if fname == "cotan_weights":
        w = geo.cotan_weight(i)
        return (w, None) if w is not None else (None, "ill_corner")
    fd = geo.face(i) if SPEC[fname][1] == "f" else None
    if fname == "face_area":
        return (fd["area"], None) if fd["ok"] else (None, "nonplanar_or_nonconvex" if fd["a2"] != 0 else "degenerate")
    if fname == "face_normals":
        return (fd["normal"], None) if fd["ok"] else (None, "nonplanar_or_nonconvex" if fd["a2"] != 0 else "degenerate")
    if fname == "face_barycenter":
        return L.fl(fd["bary"]), None
    if fname == "face_circumcenter":
        return (L.fl(fd["circum"]), None) if geo.tri_ok(i) else (None, "ill_corner")
    if fname == "triangle_aspect_ratio":
        if not geo.tri_ok(i):
            return None, "ill_corner"
        a, b, c = geo.faces[i]
        la, lb, lc = (math.sqrt(float(X.sqnorm(X.sub(geo.P[x], geo.P[y])))) for x, y in ((a, b), (b, c), (c, a)))
        s = (la + lb + lc) / 2
        return la * lb * lc * s / (2 * float(fd["a2"])), None       # R/(2r) = abc s / (8 K^2), 4 K^2 = a2
    if fname == "corner_angles":
        cd = geo.corner(i)
        return (cd["angle"], None) if cd["ok"] else (None, "degenerate" if cd["degenerate"] else "ill_corner")
    if fname == "cotangent":
        cd = geo.corner(i)
        return (cd["cot"], None) if cd["ok"] else (None, "degenerate" if cd["degenerate"] else "ill_corner")
    if fname == "angle_defects":
        d = geo.defect(i, bool(opts.get("zero_border", False)))
        return (d, None) if d is not None else (None, "ill_corner")
    if fname == "vertex_normals":
        custom = _custom_vectors(geo.nf) if opts.get("custom") else None
        return geo.vertex_normal(i, opts.get("interpolation", "area"), custom)
    raise KeyError(fname)


def _vclose_abs(got, want, tol):
    try:
        g = [float(x) for x in got]; w = [float(x) for x in want]
    except Exception:
        return False
    return len(g) == len(w) and not any(x != x for x in g) and max(abs(a - b) for a, b in zip(g, w)) <= tol


def _pt_close(geo, got, want):
    """points: relative to the largest coordinate; for a mesh placed far from the origin (geo.pt_tol set) relative to its SIZE"""
    tol = getattr(geo, "pt_tol", None)
    return L.vclose(got, want, unit=geo.M) if tol is None else _vclose_abs(got, want, tol)


def _compare(vtype, dim, geo, got, want):
    if vtype == "s":
        return L.close(got, want, unit=geo.L ** dim)
    if vtype == "pt":
        return _pt_close(geo, got, want)
    return L.vclose(got, want, unit=1.0)


LIB_KWARGS = ("persistent", "dense", "zero_border", "interpolation")


def _call_surface(M, m, fname, opts, geo):
    A = M.attributes
    kw = {k: v for k, v in opts.items() if k in LIB_KWARGS}      # every other key only labels the case (history, unit, shape ...)
    if opts.get("custom"):
        kw["custom_fnormals"] = _custom_attr(M, opts["custom"], geo.nf)
    return call(getattr(A, fname), m, **kw)


def check_surface_function(col, M, m, geo, fname, opts, rep, clause="definition"):
    """Calls one function with one option vector on mesh object m, compares every element with the oracle.
    Returns the list of values read (or None)."""
    _, cont, vtype, dim, tri_only = SPEC[fname]
    col.run(fname, opts)
    o = _call_surface(M, m, fname, opts, geo)
    rep.transitions += 1
    sub = f"C07.{fname}.{clause}"
    if not o.ok:
        if tri_only and not geo.tri:
            rep.outcome(fname, "raise:nontriangular")
            return None         # documented rejection of non-triangulated meshes
        rep.outcome(fname, "raise:" + o.exc)
        if fname == "vertex_normals" and any(surf_want(geo, fname, v, opts)[1] in ("cancel", "nonplanar_or_nonconvex") for v in range(geo.n)):
            rep.count("filtered_cancel")          # a zero normal sum cannot be normalised: degenerate input
            return None
        col.fail(sub, fname, exc_kind(o), opts, {"msg": o.msg})
        return None
    if tri_only and not geo.tri and fname != "triangle_aspect_ratio":
        col.fail(sub, fname, "mismatch:answers_on_nontriangular_mesh", opts, {})
        return None
    if o.value is None:
        col.fail(sub, fname, "mismatch:returns_None", opts, {})
        return None
    n = _size(geo, cont)
    r = call(_read, o.value, n)
    if not r.ok:
        col.fail(sub, fname, "raises:" + r.exc, opts, {"msg": r.msg, "when": "reading the returned attribute"})
        return None
    vals = r.value
    if opts.get("persistent"):
        cname, aname = STORED[fname]
        container = getattr(m, cname)
        if not container.has_attribute(aname) or container.get_attribute(aname) is not o.value:
            col.fail(f"C07.{fname}.persistent_is_stored", fname, "mismatch:not_stored", opts, {"attribute": aname})
    bad = False
    for i in range(n):
        if fname in ("face_circumcenter", "triangle_aspect_ratio", "cotangent") and len(geo.faces[i if cont == "f" else geo.corner_f[i]]) != 3:
            continue
        want, skip = surf_want(geo, fname, i, opts)
        if skip:
            rep.count("filtered_" + skip)
            continue
        rep.evaluations += 1
        if not _compare(vtype, dim, geo, vals[i], want):
            col.fail(sub, fname, "mismatch:value", opts, {"element": i, "got": vals[i], "want": want})
            bad = True
            break
    if n:
        rep.outcome(fname, repr(vals[0])[:40])
    if bad:
        return vals          # the clauses on sums below would only repeat the same defect
    # ---- clauses on sums
    if fname == "corner_angles":
        for f in range(geo.nf):
            if len(geo.faces[f]) == 3 and geo.face(f)["a2"] != 0:
                s = sum(vals[geo.off[f] + k] for k in range(3))
                rep.evaluations += 1
                if not L.close(s, math.pi):
                    col.fail("C07.corner_angles.sum_pi", fname, "mismatch:sum", opts, {"face": f, "got": s, "want": math.pi})
                    break
    if fname == "angle_defects" and not opts.get("zero_border") and geo.tri and geo.nondegenerate():
        s = sum(vals)
        rep.evaluations += 1
        rep.flag("gauss_bonnet_chi=%d" % geo.chi)
        if not L.close(s, 2 * math.pi * geo.chi, unit=1.0, rel=1e-9 * max(1, geo.n)):
            col.fail("C07.angle_defects.gauss_bonnet", fname, "mismatch:sum", opts, {"got": s, "want": 2 * math.pi * geo.chi, "chi": geo.chi})
    return vals


# ---- global quantities
def _n_classes(N):
    out = [("n=None", None), ("n=N", N), ("n>N", N + 1), ("n>N", 2 * N + 1)]
    if N >= 2:
        out += [("n<N", 1), ("n<N", N - 1)]
    return out


def check_surface_globals(col, M, m, geo, rep, extra=None, rebuild=None, only=None, clause="definition"):
    """euler_characteristic, mean_edge_length, mean_face_area, total_area, barycenter. mean_face_area stores an
    'area' attribute as a side effect: `rebuild()` (if given) must return a mesh in the same blackboard state."""
    A = M.attributes
    extra = extra or {}
    def run(fname, opts, fn, want, unit, vec=False, clause=clause):
        if only is not None and fname not in only:
            return
        opts = dict(opts, **extra)
        col.run(fname, opts)
        o = call(fn)
        rep.transitions += 1
        if not o.ok:
            col.fail(f"C07.{fname}.{clause}", fname, exc_kind(o), opts, {"msg": o.msg}); return
        if want is None:
            return
        rep.evaluations += 1
        got = _py(o.value)
        good = _pt_close(geo, got, want) if vec else L.close(got, want, unit=unit)
        if not good:
            col.fail(f"C07.{fname}.{clause}", fname, "mismatch:value", opts, {"got": got, "want": want})
        rep.outcome(fname, repr(got)[:40])
    run("euler_characteristic", {}, lambda: A.euler_characteristic(m), geo.chi if len(set(geo.corner_v)) == geo.n else None, 1.0)
    run("barycenter", {}, lambda: A.barycenter(m), L.fl(X.barycenter(geo.P)), geo.M, vec=True)
    all_ok = all(geo.face(f)["ok"] for f in range(geo.nf))
    run("total_area", {}, lambda: A.total_area(m), sum(geo.face(f)["area"] for f in range(geo.nf)) if all_ok else None, geo.L ** 2)
    for label, n in _n_classes(geo.ne):
        k = geo.ne if n is None else min(n, geo.ne)
        run("mean_edge_length", {"n": label}, (lambda n=n: A.mean_edge_length(m, n)), sum(geo.edge_length(e) for e in range(k)) / k, geo.L)
    for label, n in _n_classes(geo.nf):
        k = geo.nf if n is None else min(n, geo.nf)
        ok = all(geo.face(f)["ok"] for f in range(k))
        mm = rebuild() if rebuild else m
        run("mean_face_area", {"n": label}, (lambda n=n, mm=mm: A.mean_face_area(mm, n)),
            sum(geo.face(f)["area"] for f in range(k)) / k if ok else None, geo.L ** 2)


# ================================================================================================ phase: opts
def _bb_key(m, containers=("vertices", "edges", "faces", "face_corners", "cells")):
    """Canonical key of the attribute blackboard (names, storage class, values) of a mesh object."""
    parts = []
    for cn in containers:
        cont = getattr(m, cn, None)
        if cont is None:
            continue
        for name in sorted(cont._attr):
            a = cont._attr[name]
            parts.append((cn, name, type(a).__name__, a.elemsize, repr(_read(a, len(cont)))))
    return h64(repr(parts)), tuple((p[0], p[1]) for p in parts)


UNIT_EXPONENTS = (-20, 20)        # the same mesh expressed in a unit of length 2^-e (exact in binary floating point)


def _unit_pts(pts, e):
    return [[float(x) * 2.0 ** e for x in p] for p in pts] if e else pts


def _unit_tag(e):
    return {} if e is None else {"unit": "2^%d" % e}


# FAR FROM THE ORIGIN: the same mesh under p -> 2^j p + (2^k, -2^k, 2^(k-1)). A translation is a rigid motion: every
# quantity of the statement is unchanged (points move with the mesh), whatever the ratio distance-to-origin / size is.
# Only specimens whose coordinates stay EXACT binary floating point numbers under the map are placed (exact predicate,
# the others are counted): the oracle and the library then see the same geometry and every difference of two
# coordinates is exact, so a formula built on edge vectors loses nothing, while one built on products of positions
# loses log2((distance/size)^2) bits. (k, j): 2^30 with the integer coordinates as they are (products of two positions
# exceed 2^53); 2^24 with the coordinates divided by 1024 (fractional coordinates, size ~ 1e-2 .. 1e-1).
FAR_QUICK = ((30, 0), (24, -10))
FAR_THOROUGH = FAR_QUICK + ((34, 0), (27, -10))
# BOUND distance / size <= ~2e10. Beyond it the pinned tree itself stops being right to 1e-9 for faces with >= 5 corners:
# face_area fans the polygon around its barycentre taken as an ABSOLUTE position (sum(pts)/n), whose rounding (one float
# spacing at that distance) enters the area to second order: relative error ~ (spacing / size)^2 = 5e-11 at (40, 0), 3e-6
# at (36, -12), 1e-8 at (44, 0) on a pentagon of size 15 (triangles, quads, volumes stay exact). Handed over as a finding
# (fix: fan the polygon in coordinates relative to one of its corners); with the fix (40, 0) and (36, -12) can be added here.
FAR_ULPS = 64        # a point far from the origin is compared up to 1e-9 x size + FAR_ULPS spacings of the floats at that distance


def _far_of(tier):
    return [list(x) for x in (FAR_THOROUGH if tier == "thorough" else FAR_QUICK)]


def _far_vector(k):
    return (2 ** k, -(2 ** k), 2 ** (k - 1))


def _far_label(k, j):
    return "T2^%d:x2^%d" % (k, j)


def _far_pts(pts, k, j):
    """the points under p -> 2^j p + T_k as floats, or None if one coordinate is not exactly representable"""
    T, s = _far_vector(k), X.Fr(2) ** j
    out = []
    for p in pts:
        row = []
        for x, t in zip(p, T):
            q = X.Fr(x) * s + t
            f = float(q)
            if X.Fr(f) != q:
                return None
            row.append(f)
        out.append(row)
    return out


def _far_pt_tol(geo):
    """absolute tolerance on a point of a mesh placed far from the origin: relative to the SIZE of the mesh, plus a few
    spacings of the floating point numbers at that distance (no float formula can do better)"""
    return REL_FAR * geo.L + FAR_ULPS * geo.M * 2.0 ** -52


REL_FAR = 1e-9


def _placements(task):
    """[None] (the mesh as given), or the base placement followed by the other units of length and the far placements"""
    if not (task.get("units") or task.get("far")):
        return [None]
    return [("unit", 0)] + [("unit", int(e)) for e in task.get("units") or []] + [("far", int(k), int(j)) for k, j in task.get("far") or []]


def _place(pts, pl):
    """(points, option tag, detail context, clause or None) of a placement; points None = not exactly representable"""
    if pl is None:
        return pts, {}, {}, None
    if pl[0] == "unit":
        e = pl[1]
        return _unit_pts(pts, e), _unit_tag(e), {"points_multiplied_by": 2.0 ** e}, None
    _, k, j = pl
    return _far_pts(pts, k, j), {"placement": _far_label(k, j)}, {"points_multiplied_by": 2.0 ** j, "then_translated_by": [float(t) for t in _far_vector(k)]}, "far_from_origin"


def run_opts(task, rep: Report):
    """Full option cross product against the oracle. With task['units'] (exponents e) the whole cross product is repeated
    on the same mesh with every coordinate multiplied by 2^e (clause 'unit_of_length': lengths x s, areas x s^2, angles,
    cotangents, normals, degrees unchanged - the oracle is evaluated on the scaled coordinates)."""
    import mouette as M
    for desc in task["meshes"]:
        desc = (desc[0], desc[1], [tuple(f) for f in desc[2]])
        col = None
        for pl in _placements(task):
            ppts, tag, ctx, pclause = _place(desc[1], pl)
            if ppts is None:
                rep.count("far_filtered_inexact_coordinates"); continue
            clause = pclause or task.get("clause", "definition")
            d = (desc[0], ppts, desc[2])
            m0 = _build_surface(d)
            geo = _geo_of(m0, d, rep)
            if geo is None:
                continue
            if col is None:
                col = Collector(rep, _mclass(geo), {"mesh": desc[0], "points": desc[1], "faces": [list(f) for f in desc[2]]})
            col.baseline = (pl == ("unit", 0))        # base placement inside a unit-of-length / far task: only remembers what is wrong there already
            col.ctx = ctx
            rep.traces += 1
            rep.flag("closed" if geo.closed else "bordered")
            rep.flag("class:" + _mclass(geo).split(":")[0])
            if pl and pl[0] == "unit" and pl[1]:
                rep.flag("unit:2^%d" % pl[1])
            if pl and pl[0] == "far":
                geo.pt_tol = _far_pt_tol(geo)
                rep.flag("far:" + tag["placement"]); rep.count("far_opts_meshes")
                rep.flag("far_class:" + _mclass(geo).split(":")[0])
            if geo.nondegenerate():
                rep.case(("opts", d[1], desc[2]))
            shared = m0
            k0 = _bb_key(shared)[0]
            for fname, cont, vtype, dim, tri_only in SURF_SPECS:
                for opts in _option_vectors(fname):
                    if opts["persistent"]:
                        m = _build_surface(d)             # fresh blackboard for every persistent call
                    else:
                        m = shared
                    check_surface_function(col, M, m, geo, fname, dict(opts, **tag), rep, clause=clause)
                    if not opts["persistent"] and _bb_key(shared)[0] != k0:
                        rep.count("nonpersistent_call_changed_blackboard:" + fname)
                        shared = _build_surface(d)
            check_surface_globals(col, M, _build_surface(d), geo, rep, extra=tag, rebuild=lambda: _build_surface(d), clause=clause)
        if col is None:
            continue
        col.flush()
        if len(rep.samples) < 2:
            rep.sample({"phase": "opts", "mesh": desc[0], "faces": desc[2], "option_vectors": sum(len(_option_vectors(s[0])) for s in SURF_SPECS)})


# ================================================================================================ phase: partners
DEFAULT_QUERIES = [("degree", {}), ("edge_length", {}), ("edge_middle_point", {}), ("cotan_weights", {}), ("face_area", {}),
                   ("face_normals", {}), ("face_barycenter", {}), ("face_circumcenter", {}), ("corner_angles", {}), ("cotangent", {}),
                   ("angle_defects", {"zero_border": False}), ("angle_defects", {"zero_border": True}),
                   ("vertex_normals", {"interpolation": "uniform"}), ("vertex_normals", {"interpolation": "area"}),
                   ("vertex_normals", {"interpolation": "angle"}), ("border_normals", {}), ("curvature_matrices", {})]
EXTRA_SPEC = {"border_normals": ("border_normals", "v", "dir", 0, False), "curvature_matrices": ("curvature_matrices", "e", "mat", 0, False)}


def _spec(fname):
    return SPEC.get(fname) or EXTRA_SPEC[fname]


def collect_surface(M, m, geo, rep):
    """qkey -> list of values | ('raise', exc)   with default (non persistent, dense) options, plus globals."""
    A = M.attributes
    out = {}
    for fname, extra in DEFAULT_QUERIES:
        key = fname + "".join(f"[{k}={v}]" for k, v in sorted(extra.items()))
        if fname == "curvature_matrices":
            o = call(A.curvature_matrices, m)
            out[key] = [_py(x) for x in o.value] if o.ok else ("raise", o.exc)
        else:
            o = call(getattr(A, fname), m, persistent=False, **extra)
            if o.ok and o.value is not None:
                r = call(_read, o.value, _size(geo, _spec(fname)[1]))
                out[key] = r.value if r.ok else ("raise", r.exc)
            else:
                out[key] = ("raise", o.exc if not o.ok else "None")
        rep.transitions += 1
    for gname, fn in (("euler_characteristic", lambda: A.euler_characteristic(m)), ("barycenter", lambda: A.barycenter(m)),
                      ("total_area", lambda: A.total_area(m)), ("mean_edge_length", lambda: A.mean_edge_length(m)),
                      ("mean_face_area", lambda: A.mean_face_area(m))):
        o = call(fn)
        out["global:" + gname] = _py(o.value) if o.ok else ("raise", o.exc)
        rep.transitions += 1
    return out


GLOBAL_KIND = {"euler_characteristic": ("s", 0), "barycenter": ("pt", 1), "total_area": ("s", 2), "mean_edge_length": ("s", 1),
               "mean_face_area": ("s", 2), "mean_cell_volume": ("s", 3)}


def _transform_value(vtype, dim, val, R, s, t):
    s = float(s)
    if vtype == "s":
        return val * s ** dim
    if vtype == "dir":
        return L.matvec(R, val)
    if vtype == "pt":
        return tuple(c + float(tt) for c, tt in zip(L.matvec(R, tuple(x * s for x in val)), t))
    if vtype == "mat":       # R M R^T
        RM = [[sum(R[i][k] * val[k][j] for k in range(3)) for j in range(3)] for i in range(3)]
        return tuple(tuple(sum(RM[i][k] * R[j][k] for k in range(3)) for j in range(3)) for i in range(3))
    raise KeyError(vtype)


def _close_value(vtype, dim, got, want, L_, M_, pt_tol=None):
    if vtype == "s":
        return L.close(got, want, unit=L_ ** dim)
    if vtype == "mat":
        return L.vclose([x for r in got for x in r], [x for r in want for x in r], unit=1.0)
    if vtype == "pt" and pt_tol is not None:
        return _vclose_abs(got, want, pt_tol)
    return L.vclose(got, want, unit=M_ if vtype == "pt" else 1.0)


def _index_maps(gb, gp, perm):
    """base index -> partner index for every container, through the vertex relabeling perm (old -> new)."""
    emap = {frozenset(e): i for i, e in enumerate(gp.edges)}
    fmap = {frozenset(f): i for i, f in enumerate(gp.faces)}
    maps = {"v": [perm[v] for v in range(gb.n)],
            "e": [emap[frozenset(perm[v] for v in e)] for e in gb.edges],
            "f": [fmap[frozenset(perm[v] for v in f)] for f in gb.faces]}
    cm = []
    for c in range(gb.nc):
        f2 = maps["f"][gb.corner_f[c]]
        cm.append(gp.off[f2] + gp.faces[f2].index(perm[gb.corner_v[c]]))
    maps["c"] = cm
    return maps


def _valid_mask(geo, fname, extra):
    """which elements are compared (well-conditioned in the base mesh); memoised on the oracle object"""
    memo = geo.__dict__.setdefault("_mask_memo", {})
    mk = (fname, _okey(extra))
    if mk not in memo:
        memo[mk] = _valid_mask_(geo, fname, extra)
    return memo[mk]


def _valid_mask_(geo, fname, extra):
    _, cont, vtype, dim, tri_only = _spec(fname)
    n = _size(geo, cont)
    if fname in SPEC:
        out = []
        for i in range(n):
            if tri_only and len(geo.faces[i if cont == "f" else 0]) != 3 and cont == "f":
                out.append(False); continue
            if tri_only and not geo.tri:
                out.append(False); continue
            out.append(surf_want(geo, fname, i, extra)[1] is None)
        return out
    if fname == "border_normals":
        return [v in geo.border_vertices and all(geo.face(geo.corner_f[c])["ok"] for c in geo.v_corners[v]) for v in range(n)]
    if fname == "curvature_matrices":
        ok = []
        for (a, b) in geo.edges:
            fs = [geo.he[k][0] for k in ((a, b), (b, a)) if k in geo.he]
            ok.append(all(geo.face(f)["ok"] for f in fs))
        return ok
    return [True] * n


def compare_partner(col, rep, clause, base, part, gb, gp, perm, R, s, t, tag):
    maps = _index_maps(gb, gp, perm)
    for fname, extra in DEFAULT_QUERIES:
        key = fname + "".join(f"[{k}={v}]" for k, v in sorted(extra.items()))
        _, cont, vtype, dim, tri_only = _spec(fname)
        opts = dict(extra, partner=tag)
        col.run(fname, opts)
        b, p = base[key], part[key]
        sub = f"C07.{fname}.{clause}"
        braise = isinstance(b, tuple) and bool(b) and b[0] == "raise"
        praise = isinstance(p, tuple) and bool(p) and p[0] == "raise"
        if (braise or praise) and fname in ("vertex_normals", "border_normals") and \
                (fname == "border_normals" or any(surf_want(gb, fname, v, extra)[1] in ("cancel", "nonplanar_or_nonconvex") for v in range(gb.n))):
            rep.count("filtered_cancel"); continue
        if braise:
            if not praise:
                col.fail(sub, fname, "mismatch:answers_only_after_transform", opts, {"base": list(b)})
            continue
        if praise:
            col.fail(sub, fname, "raises:" + str(p[1]), opts, {"note": "base mesh answered"})
            continue
        mask = _valid_mask(gb, fname, extra)
        for i, ok in enumerate(mask):
            if not ok:
                continue
            bv = b[i]
            if fname in EXTRA_SPEC and any(x != x for x in (bv if vtype == "dir" else [y for r in bv for y in r])):
                rep.count("filtered_nan_in_base"); continue
            want = _transform_value(vtype, dim, bv, R, s, t)
            got = p[maps[cont][i]]
            rep.evaluations += 1
            if not _close_value(vtype, dim, got, want, gp.L, gp.M, getattr(gp, "pt_tol", None)):
                col.fail(sub, fname, "mismatch:value", opts, {"element": i, "partner_element": maps[cont][i], "partner_value": got,
                                                              "transformed_base_value": want, "base_value": bv})
                break
    for gname, (vtype, dim) in GLOBAL_KIND.items():
        key = "global:" + gname
        if key not in base:
            continue
        opts = {"partner": tag}
        col.run(gname, opts)
        b, p = base[key], part[key]
        if isinstance(b, tuple) and b and b[0] == "raise" or isinstance(p, tuple) and p and p[0] == "raise":
            if b != p:
                col.fail(f"C07.{gname}.{clause}", gname, "mismatch:raise", opts, {"base": b, "partner": p})
            continue
        if gname in ("total_area", "mean_face_area") and not all(gb.face(f)["ok"] for f in range(gb.nf)):
            continue
        rep.evaluations += 1
        if not _close_value(vtype, dim, p, _transform_value(vtype, dim, b, R, s, t), gp.L, gp.M, getattr(gp, "pt_tol", None)):
            col.fail(f"C07.{gname}.{clause}", gname, "mismatch:value", opts, {"base_value": b, "partner_value": p})


IDENT = [[1, 0, 0], [0, 1, 0], [0, 0, 1]]
TRANSLATIONS = [(0, 0, 0), (7, -3, 11)]


def _relabelings(n, mode):
    if mode == "all":
        return [list(p) for p in itertools.permutations(range(n))][1:]
    perms = []
    for a in range(n):
        for b in range(a + 1, n):
            p = list(range(n)); p[a], p[b] = p[b], p[a]
            perms.append(p)
    if mode == "few":
        perms = perms[:3] + [list(range(n))[::-1], list(range(1, n)) + [0]]
    return perms


def run_partners(task, rep: Report):
    import mouette as M
    name, pts, faces = task["mesh"]
    faces = [tuple(f) for f in faces]
    desc = (name, pts, faces)
    m = _build_surface(desc)
    gb = _geo_of(m, desc, rep)
    if gb is None:
        return
    col = Collector(rep, _mclass(gb), {"mesh": name, "points": pts, "faces": [list(f) for f in faces]})
    base = collect_surface(M, m, gb, rep)
    rep.traces += 1
    n = len(pts)
    ident = list(range(n))

    def partner(clause, tag, P2, faces2, perm, R, s, t):
        d2 = (name + ":" + tag, L.pts_to_json(P2), faces2)
        m2 = _build_surface(d2)
        g2 = _geo_of(m2, d2, rep)
        if g2 is None:
            return
        if clause == "far_from_origin":
            g2.pt_tol = _far_pt_tol(g2)
        part = collect_surface(M, m2, g2, rep)
        rep.traces += 1
        rep.case(("partner", pts, faces, clause, tag))
        compare_partner(col, rep, clause, base, part, gb, g2, perm, R, s, t, clause)

    for ri, R in enumerate(L.rotations24()):
        for ti, t in enumerate(TRANSLATIONS):
            if (ri == 0 and ti == 0) or (task.get("motions") == "24" and ti != (ri + 1) % 2):
                continue
            partner("rigid_motion", f"R{ri}T{ti}", L.transform_points(pts, R, 1, t), faces, ident, R, 1, t)
    for s in (2, X.Fr(1, 2)):
        partner("scale", f"S{s}", L.transform_points(pts, IDENT, s, (0, 0, 0)), faces, ident, IDENT, s, (0, 0, 0))
    for e in UNIT_EXPONENTS:          # another unit of length: every quantity scales with its power of 2^e, however small or large
        s = X.Fr(2) ** e
        partner("unit_of_length", f"U{e}", L.transform_points(pts, IDENT, s, (0, 0, 0)), faces, ident, IDENT, s, (0, 0, 0))
        rep.flag("unit:2^%d" % e)
    for k, j in task.get("far") or []:      # the same mesh far from the origin (a translation, after an exact change of unit)
        s, t = X.Fr(2) ** j, _far_vector(k)
        P2 = L.transform_points(pts, IDENT, s, t)
        if any(X.Fr(float(x)) != x for p in P2 for x in p):
            rep.count("far_filtered_inexact_coordinates"); continue
        partner("far_from_origin", _far_label(k, j), P2, faces, ident, IDENT, s, t)
        rep.flag("far_partner:" + _far_label(k, j)); rep.count("far_partner_meshes")
    for perm in _relabelings(n, task["relabel"]):
        P2 = [None] * n
        for v in range(n):
            P2[perm[v]] = pts[v]
        faces2 = [tuple(x) for x in F.relabel(faces, perm)]
        partner("renumbering", "P" + "".join(map(str, perm)) if n <= 10 else "P", P2, faces2, perm, IDENT, 1, (0, 0, 0))
    # re-listing of the faces: reversed face order, every face started one vertex later
    faces3 = [tuple(f[1:] + f[:1]) for f in reversed(faces)]
    partner("renumbering", "faces_relisted", [tuple(p) for p in pts], faces3, ident, IDENT, 1, (0, 0, 0))
    col.flush()


# ================================================================================================ kept result objects
# OWNERSHIP OF RESULTS. A returned attribute object holds the values of the call that returned it for as long as the
# caller keeps it: a later call (the same function with other options, another function, the same function after the
# mesh was edited) answers in its OWN result and leaves every earlier result alone. Every other clause reads a result
# immediately after the call that made it; here every attribute object that a history has put on the blackboard (the
# objects returned by the persistent calls and the by-products they store) is kept with the values it had when first
# seen, and re-read after every later call of the history.
BB_CONTAINERS = ("vertices", "edges", "faces", "face_corners", "cells")
CACHE_ATTRS = ("border", "hard_edges")         # lazily built connectivity caches stored as attributes: C01's subject
# pinned as observed: cotangent(persistent=True) refills the attribute already stored under its name instead of replacing
# it. Invisible while the geometry is unchanged or moved by a similarity (cotangents are invariant); after another
# deformation the kept object holds the new cotangents, which the statement does not forbid: not judged there.
REFILLED_IN_PLACE = (("face_corners", "cotan"),)


def _keep_results(m, kept):
    """adds every attribute object now on the blackboard of m and not kept yet: id -> (container, name, object, values now, n)"""
    for cn in BB_CONTAINERS:
        cont = getattr(m, cn, None)
        if cont is None:
            continue
        for name in sorted(cont._attr):
            a = cont._attr[name]
            if name in CACHE_ATTRS or id(a) in kept:
                continue
            r = call(_read, a, len(cont))
            if r.ok:
                kept[id(a)] = (cn, name, a, r.value, len(cont))


def _same_kept(was, now, exact):
    """an untouched object reads back IDENTICAL values (NaN = NaN); the attribute that the library refills in place
    (dimensionless cotangents, possibly through its other formula) reads back the same values up to 1e-9 relative + 1e-12"""
    def flat(x):
        return [z for y in x for z in flat(y)] if isinstance(x, (list, tuple)) else [x]
    a, b = flat(was), flat(now)
    if len(a) != len(b):
        return False
    for x, y in zip(a, b):
        if type(x) != type(y):
            return False
        if x == y or (x != x and y != y):
            continue
        if exact or not isinstance(x, float) or not abs(x - y) <= 1e-9 * max(abs(x), abs(y)) + 1e-12:
            return False
    return True


def _check_kept(rep, done, kept, cls, later, history_kind, detail, exempt=()):
    """every kept object still holds the values it held when first seen; a changed object is reported once (coarse
    fingerprint: whose result / which later call / which kind of history) and dropped"""
    producers = {v: k for k, v in STORED.items()}
    for key in sorted(kept, key=lambda k: kept[k][:2]):
        cn, name, a, was, n = kept[key]
        if (cn, name) in exempt:
            continue
        rep.evaluations += 1
        rep.count("kept_results_reread")
        r = call(_read, a, n)
        if r.ok and _same_kept(list(was), list(r.value), exact=(cn, name) not in REFILLED_IN_PLACE):
            continue
        del kept[key]
        producer = producers.get((cn, name), f"{cn}.{name}")
        fp = (producer, later, history_kind)
        if fp in done:
            continue
        done.add(fp)
        rep.violation(f"C07.{producer}.result_kept", "attributes." + later, "side_effect:earlier_result_changed",
                      f"{cls}:{'same_function' if producer == later else 'other_function'}:{history_kind}",
                      dict(detail, kept_attribute=f"{cn}.{name}", values_when_returned=[list(x) if isinstance(x, tuple) else x for x in was],
                           values_now=[list(x) if isinstance(x, tuple) else x for x in r.value] if r.ok else "unreadable:" + str(r.exc)))


# ================================================================================================ phase: bfs
RELEVANT = {
    "cotangent": [("face_corners", "angles"), ("face_corners", "cotan")],
    "cotan_weights": [("face_corners", "angles"), ("face_corners", "cotan"), ("edges", "cotan_weight")],
    "angle_defects": [("face_corners", "angles"), ("vertices", "angleDefect")],
    "vertex_normals": [("faces", "normals"), ("faces", "area"), ("face_corners", "angles"), ("vertices", "normals")],
    "mean_face_area": [("faces", "area")], "total_area": [("faces", "area")],
    "mean_cell_volume": [("cells", "volume")],
}


def _has_flags(fname, names):
    rel = RELEVANT.get(fname)
    if rel is None:
        rel = [STORED[fname]] if fname in STORED else []
    return {f"has_{c}.{a}": ((c, a) in names) for c, a in rel}


SURF_EVENTS = [("corner_angles", {}), ("cotangent", {}), ("cotan_weights", {}), ("face_area", {"dense": True}), ("face_area", {"dense": False}),
               ("face_normals", {}), ("vertex_normals", {"interpolation": "uniform"}), ("vertex_normals", {"interpolation": "area"}),
               ("vertex_normals", {"interpolation": "angle"}), ("angle_defects", {"zero_border": False}),
               ("angle_defects", {"zero_border": True}), ("mean_face_area", {})]
SELF_EVENTS = [("degree", {}), ("edge_length", {}), ("edge_middle_point", {}), ("face_barycenter", {}), ("face_circumcenter", {})]


def _bfs_queries():
    """(function, options): non persistent; both storages for the functions that read the blackboard."""
    qs = []
    for fname, cont, vtype, dim, tri_only in SURF_SPECS:
        for d in ((True, False) if fname in RELEVANT else (True,)):
            if fname == "angle_defects":
                qs += [(fname, dict(persistent=False, dense=d, zero_border=z)) for z in (False, True)]
            elif fname == "vertex_normals":
                # custom face normals must be honoured in every blackboard state (also when face normals are cached)
                qs += [(fname, dict(persistent=False, dense=d, interpolation=w, custom=c)) for w in ("uniform", "area", "angle")
                       for c in (None, "sparse")]
            else:
                qs.append((fname, dict(persistent=False, dense=d)))
    return qs


def _bb_ids(m):
    """cheap structural key: which attribute objects sit on the blackboard"""
    # ('border' / 'hard_edges' are lazily built connectivity caches stored as attributes: C01's subject, ignored here)
    return tuple((cn, name, id(a)) for cn in ("vertices", "edges", "faces", "face_corners") for name, a in sorted(getattr(m, cn)._attr.items())
                 if name not in ("border", "hard_edges"))


def run_bfs(task, rep: Report):
    import mouette as M
    name, pts, faces = task["mesh"]
    desc = (name, pts, [tuple(f) for f in faces])
    geo = _geo_of(_build_surface(desc), desc, rep)
    if geo is None:
        return
    col = Collector(rep, _mclass(geo), {"mesh": name, "points": pts, "faces": faces})
    old = M.config.display_duplicate_attribute_warning
    try:
        # Only the default value of config.display_duplicate_attribute_warning is explored: the statement quantifies over
        # the options of each function, not over that process-wide switch, whose documentation contradicts itself
        # (config.py: 'returns the attribute currently carrying this name' / create_attribute: 'will be overridden').
        for dup in (False,):
            # config.display_duplicate_attribute_warning=True makes create_attribute hand back the existing attribute
            M.config.display_duplicate_attribute_warning = dup
            _run_bfs(M, desc, geo, col, rep, dup, int(task["depth"]))
    finally:
        M.config.display_duplicate_attribute_warning = old
    col.flush()


def _run_bfs(M, desc, geo, col, rep, dup, depth):
    name, pts, faces = desc
    events = [e for e in SURF_EVENTS + (SELF_EVENTS if dup else []) if geo.tri or not _spec_tri_only(e[0])]
    queries = [q for q in _bfs_queries() if geo.tri or not SPEC[q[0]][4]]
    A = M.attributes
    flag = {"duplicate_attribute_flag": dup}
    # with the flag set, only re-requests matter: states are evaluated up to depth 1, events applied up to depth 2
    eval_depth = 1 if dup else depth
    expand_depth = 2 if dup else depth

    def apply_event(m, ev, check, hist):
        fname, extra = ev
        if fname == "mean_face_area":
            if check:
                names = set(_bb_key(m)[1])
                opts = dict(n="n=None", **_has_flags(fname, names), **flag)
                col.run(fname, opts)
                o = call(A.mean_face_area, m)
                ok = all(geo.face(f)["ok"] for f in range(geo.nf))
                if not o.ok:
                    col.fail("C07.mean_face_area.definition", fname, exc_kind(o), opts, {"history": hist, "msg": o.msg})
                elif ok and not L.close(o.value, sum(geo.face(f)["area"] for f in range(geo.nf)) / geo.nf, unit=geo.L ** 2):
                    col.fail("C07.mean_face_area.definition", fname, "mismatch:value", opts, {"history": hist, "got": _py(o.value)})
            else:
                call(A.mean_face_area, m)
            return
        opts = dict(extra, persistent=True)
        if check:
            names = set(_bb_key(m)[1])
            opts2 = dict(opts, **_has_flags(fname, names), **flag)
            opts2.setdefault("dense", True)
            if fname == "vertex_normals":
                opts2["custom"] = None
            col.ctx = {"history": hist}
            check_surface_function(col, M, m, geo, fname, opts2, rep)
        else:
            call(getattr(A, fname), m, **opts)

    def rebuild(hist, kept=None):
        m = _build_surface(desc)
        for ev in hist:
            apply_event(m, ev, False, None)
            if kept is not None:
                _keep_results(m, kept)
        return m

    kept_done = set()
    kcls = "surf" + (":duplicate_attribute_flag" if dup else "")
    base_detail = {"mesh": name, "points": pts, "faces": [list(f) for f in faces]}

    if not dup:
        # re-requests of the quantities nobody else reads (default config: the attribute is silently replaced)
        for ev in SELF_EVENTS:
            if geo.tri or not _spec_tri_only(ev[0]):
                kept = {}
                m = rebuild((ev,), kept)
                apply_event(m, ev, True, [[ev[0], ev[1]]] * 2)
                rep.transitions += 1
                _check_kept(rep, kept_done, kept, kcls, ev[0], "same_geometry", dict(base_detail, history=[[ev[0], ev[1]]] * 2))
    k0 = _bb_key(_build_surface(desc))[0]
    seen = {k0: ()}
    queue = [()]
    empty_vals = {}
    while queue:
        hist = queue.pop(0)
        hlist = [[e[0], e[1]] for e in hist]
        if len(hist) <= eval_depth:
            # ---- every quantity, recomputed in this blackboard state
            m = rebuild(hist)
            key, names = _bb_key(m)
            names = set(names)
            ids = _bb_ids(m)
            rep.states += 1
            rep.case(("bfs", pts, faces, dup, key))
            for fname, opts in queries:
                opts2 = dict(opts, **_has_flags(fname, names), **flag)
                col.ctx = {"history": hlist}
                vals = check_surface_function(col, M, m, geo, fname, opts2, rep)
                qk = (fname, _okey(opts))
                if not hist:
                    empty_vals[qk] = vals
                elif vals is not None and empty_vals.get(qk) is not None:
                    _, cont, vtype, dim, _t = SPEC[fname]
                    for i, (g, w) in enumerate(zip(vals, empty_vals[qk])):
                        rep.evaluations += 1
                        if not (_compare(vtype, dim, geo, g, w) or (_nan(g) and _nan(w))):
                            col.fail(f"C07.{fname}.same_in_every_blackboard_state", fname, "mismatch:value", opts2,
                                     {"history": hlist, "element": i, "got": g, "on_fresh_mesh": w})
                            break
                if _bb_ids(m) != ids:
                    rep.count("nonpersistent_call_changed_blackboard:" + fname)
                    m = rebuild(hist)
                    ids = _bb_ids(m)
            if _bb_key(m)[0] != key:
                rep.count("nonpersistent_calls_changed_blackboard_values")
                m = rebuild(hist)
            col.ctx = {"history": hlist}
            check_surface_globals(col, M, m, geo, rep, extra=dict(_has_flags("mean_face_area", names), **flag),
                                  rebuild=lambda: rebuild(hist), only=None if not hist else ("total_area", "mean_face_area"))
        # ---- successors
        if len(hist) >= expand_depth:
            continue
        for ev in events:
            kept = {}
            m = rebuild(hist, kept)
            apply_event(m, ev, True, hlist + [[ev[0], ev[1]]])
            rep.transitions += 1
            if kept:        # the results of the earlier calls of the history, re-read after this one
                rep.flag("kept_after:" + ev[0])
                _check_kept(rep, kept_done, kept, kcls, ev[0], "same_geometry", dict(base_detail, history=hlist + [[ev[0], ev[1]]]))
            k = _bb_key(m)[0]
            if k not in seen:
                seen[k] = hist + (ev,)
                queue.append(hist + (ev,))
    rep.traces += len(seen)
    rep.count("bfs_states_max:%04d" % min(len(seen), 9999))
    if len(seen) > 1:
        rep.flag("bfs_multi_state")
    if len(rep.samples) < 3 and not dup:
        rep.sample({"phase": "bfs", "mesh": name, "states": len(seen), "longest_history": [[e[0], e[1]] for e in max(seen.values(), key=len)]})


def _spec_tri_only(fname):
    return fname in SPEC and SPEC[fname][4]


def _nan(x):
    try:
        return any(v != v for v in x) if isinstance(x, (tuple, list)) else x != x
    except Exception:
        return False


# ================================================================================================ phase: interp
CONSTS = {"scalar": 2.5, "vector": (1.5, -2.0, 0.25)}
PRESTATES = [(), (("face_area", {"dense": True}),), (("face_area", {"dense": False}),), (("corner_angles", {}),),
             (("face_area", {"dense": True}), ("corner_angles", {}))]


def _mk_attr(M, dense, n, size):
    from mouette.mesh.mesh_attributes import Attribute, ArrayAttribute
    return ArrayAttribute(float, n, size) if dense else Attribute(float, size)


def _fill(M, attr, n, const):
    for i in range(n):
        attr[i] = M.Vec(*const) if isinstance(const, tuple) else const


def run_interp(task, rep: Report):
    import mouette as M
    A = M.attributes
    for desc in task["meshes"]:
        desc = (desc[0], desc[1], [tuple(f) for f in desc[2]])
        geo = _geo_of(_build_surface(desc), desc, rep)
        if geo is None or not geo.nondegenerate():
            rep.count("interp_skipped_degenerate"); continue
        col = Collector(rep, _mclass(geo), {"mesh": desc[0], "points": desc[1], "faces": [list(f) for f in desc[2]]})
        sizes = {"v": geo.n, "f": geo.nf, "c": geo.nc}
        nfaces_at = [len(geo.v_corners[v]) for v in range(geo.n)]
        # (function, source kind, target kind, weights, multiplicity for weight 'sum')
        plan = [("interpolate_vertices_to_faces", "v", "f", [None], None),
                ("interpolate_faces_to_vertices", "f", "v", ["uniform", "area", "angle", "sum", "Uniform"], lambda i: nfaces_at[i]),
                ("scatter_vertices_to_corners", "v", "c", [None], None),
                ("scatter_faces_to_corners", "f", "c", [None], None),
                ("average_corners_to_vertices", "c", "v", ["uniform", "angle", "sum"], lambda i: nfaces_at[i]),
                ("average_corners_to_faces", "c", "f", ["uniform", "angle", "sum"], lambda i: len(geo.faces[i]))]
        prestates = PRESTATES[:int(task.get("prestates", 5))] if int(task.get("prestates", 5)) != 3 else (PRESTATES[0], PRESTATES[2], PRESTATES[4])
        unit_prestates = int(task.get("unit_prestates", 1))      # the other units of length are crossed with the first k blackboard pre-states
        for ip, pre in enumerate(prestates):
          for pl in (_placements(task) if ip < unit_prestates else [("unit", 0)]):
            pl = pl or ("unit", 0)
            names = None
            upts, ptag, pctx, pclause = _place(desc[1], pl)
            if upts is None:
                rep.count("far_filtered_inexact_coordinates"); continue
            e = pl[1] if pl[0] == "unit" else None
            udesc = (desc[0], upts, desc[2])
            if e:
                rep.flag("interp_unit:2^%d" % e)
            if pclause:
                rep.flag("interp_far:" + ptag["placement"])
            for fname, src, dst, weights, mult in plan:
                for w in weights:
                    for cname, const in CONSTS.items():
                        for din in (True, False):
                            for dout in (True, False):
                                m = _build_surface(udesc)
                                for ev in pre:
                                    getattr(A, ev[0])(m, persistent=True, **ev[1])
                                if names is None:
                                    names = set(_bb_key(m)[1])
                                size = 3 if cname == "vector" else 1
                                a_in = _mk_attr(M, din, sizes[src], size); _fill(M, a_in, sizes[src], const)
                                a_out = _mk_attr(M, dout, sizes[dst], size)
                                opts = dict({"weight": w, "value": cname, "in_dense": din, "out_dense": dout,
                                             "has_area": ("faces", "area") in names, "has_angles": ("face_corners", "angles") in names}, **ptag)
                                args = (m, a_in, a_out) + ((w,) if w is not None else ())
                                col.ctx = pctx if (e or pclause) else {}
                                for reuse in (False, True):
                                    o2 = dict(opts, reused_output=reuse)
                                    col.run(fname, o2)
                                    o = call(getattr(A, fname), *args)
                                    rep.transitions += 1
                                    sub = "C07.interpolate.far_from_origin" if pclause else "C07.interpolate.unit_of_length" if e else \
                                        "C07.interpolate.reused_output" if reuse else "C07.interpolate.constant"
                                    if not o.ok:
                                        col.fail(sub, fname, exc_kind(o), o2, {"msg": o.msg}); break
                                    r = call(_read, o.value if o.value is not None else a_out, sizes[dst])
                                    if not r.ok:
                                        col.fail(sub, fname, "raises:" + r.exc, o2, {"msg": r.msg}); break
                                    for i, got in enumerate(r.value):
                                        k = mult(i) if (w == "sum" and mult) else 1
                                        want = tuple(k * x for x in const) if isinstance(const, tuple) else k * const
                                        rep.evaluations += 1
                                        good = L.vclose(got, want) if isinstance(const, tuple) else L.close(got, want)
                                        if not good:
                                            col.fail(sub, fname, "mismatch:value", o2, {"element": i, "got": got, "want": want}); break
                                    rep.outcome(fname, repr(r.value[0])[:40] if r.value else "empty")
            rep.case(("interp", desc[1], desc[2], pre, pl))
        rep.traces += 1
        col.flush()


# ================================================================================================ volumes
VOL_SPECS = [("cell_volume", "cell", "s", 3), ("cell_barycenter", "cell", "pt", 1), ("cell_faces_on_boundary", "cell", "s", 0),
             ("face_area", "f", "s", 2), ("face_barycenter", "f", "pt", 1), ("face_circumcenter", "f", "pt", 1),
             ("edge_length", "e", "s", 1), ("edge_middle_point", "e", "pt", 1), ("degree", "v", "s", 0)]
VSPEC = {s[0]: s for s in VOL_SPECS}


def _build_volume(desc):
    return F.build_volume(desc[1], [tuple(c) for c in desc[2]])


def _vgeo_of(m, desc, rep):
    cells = [tuple(int(v) for v in c) for c in m.cells]
    if cells != [tuple(c) for c in desc[2]]:
        rep.count("premise_failed"); return None
    g = L.VolGeo(desc[1], cells, [tuple(int(v) for v in f) for f in m.faces], [tuple(int(v) for v in e) for e in m.edges])
    if not g.premises():
        rep.count("premise_failed"); rep.notes.append(f"{desc[0]}: faces/edges of the volume mesh differ from the cells' faces/edges")
        return None
    return g


def _vsize(g, cont):
    return {"v": g.n, "e": len(g.edges), "f": len(g.faces), "cell": g.nc}[cont]


def vol_want(g, fname, i):
    if fname == "cell_volume":
        return (g.volume(i), None) if g.vol6(i) != 0 else (None, "degenerate")
    if fname == "cell_barycenter":
        return L.fl(g.cell_bary(i)), None
    if fname == "cell_faces_on_boundary":
        return g.boundary_faces(i), None
    if fname == "face_area":
        fd = g.S.face(i)
        return (fd["area"], None) if fd["a2"] != 0 else (None, "degenerate")
    if fname == "face_barycenter":
        return L.fl(g.S.face(i)["bary"]), None
    if fname == "face_circumcenter":
        return (L.fl(g.S.face(i)["circum"]), None) if g.S.tri_ok(i) else (None, "ill_corner")
    if fname == "edge_length":
        return g.S.edge_length(i), None
    if fname == "edge_middle_point":
        return L.fl(g.S.edge_mid(i)), None
    if fname == "degree":
        return g.S.degree(i), None
    raise KeyError(fname)


def check_volume_function(col, M, m, g, fname, opts, rep, clause="definition"):
    _, cont, vtype, dim = VSPEC[fname]
    col.run(fname, opts)
    kw = {k: v for k, v in opts.items() if k in LIB_KWARGS}
    o = call(getattr(M.attributes, fname), m, **kw)
    rep.transitions += 1
    sub = f"C07.{fname}.{clause}"
    if not o.ok:
        col.fail(sub, fname, exc_kind(o), opts, {"msg": o.msg}); return None
    if o.value is None:
        col.fail(sub, fname, "mismatch:returns_None", opts, {}); return None
    n = _vsize(g, cont)
    r = call(_read, o.value, n)
    if not r.ok:
        col.fail(sub, fname, "raises:" + r.exc, opts, {"msg": r.msg, "when": "reading the returned attribute"}); return None
    for i in range(n):
        want, skip = vol_want(g, fname, i)
        if skip:
            rep.count("filtered_" + skip); continue
        rep.evaluations += 1
        if not _compare(vtype, dim, g, r.value[i], want):
            col.fail(sub, fname, "mismatch:value", opts, {"element": i, "got": r.value[i], "want": want}); break
    if n:
        rep.outcome("vol:" + fname, repr(r.value[0])[:40])
    return r.value


def check_volume_globals(col, M, m, g, rep, extra=None, rebuild=None, clause="definition", common=None):
    A = M.attributes
    def run(fname, opts, fn, want, unit, vec=False):
        opts = dict(opts, **(extra or {}).get(fname, {}))
        opts.update(common or {})
        col.run(fname, opts)
        o = call(fn)
        rep.transitions += 1
        if not o.ok:
            col.fail(f"C07.{fname}.{clause}", fname, exc_kind(o), opts, {"msg": o.msg}); return
        if want is None:
            return
        rep.evaluations += 1
        got = _py(o.value)
        if not (_pt_close(g, got, want) if vec else L.close(got, want, unit=unit)):
            col.fail(f"C07.{fname}.{clause}", fname, "mismatch:value", opts, {"got": got, "want": want})
    run("barycenter", {}, lambda: A.barycenter(m), L.fl(X.barycenter(g.P)), g.M, vec=True)
    ne, nf = len(g.edges), len(g.faces)
    for label, n in _n_classes(ne):
        k = ne if n is None else min(n, ne)
        run("mean_edge_length", {"n": label}, (lambda n=n: A.mean_edge_length(m, n)), sum(g.S.edge_length(e) for e in range(k)) / k, g.L)
    for label, n in _n_classes(nf):
        k = nf if n is None else min(n, nf)
        mm = rebuild() if rebuild else m
        run("mean_face_area", {"n": label}, (lambda n=n, mm=mm: A.mean_face_area(mm, n)), sum(g.S.face(f)["area"] for f in range(k)) / k, g.L ** 2)
    for label, n in _n_classes(g.nc):
        k = g.nc if n is None else min(n, g.nc)
        mm = rebuild() if rebuild else m
        run("mean_cell_volume", {"n": label}, (lambda n=n, mm=mm: A.mean_cell_volume(mm, n)), sum(g.volume(c) for c in range(k)) / k, g.L ** 3)


def run_vol_opts(task, rep: Report, default_only=False):
    import mouette as M
    for desc in task["meshes"]:
        col = Collector(rep, "tet", {"mesh": desc[0], "points": desc[1], "cells": desc[2]})
        for pl in _placements(task):
            ppts, tag, ctx, pclause = _place(desc[1], pl)
            if ppts is None:
                rep.count("far_filtered_inexact_coordinates"); continue
            clause = pclause or task.get("clause", "definition")
            d = (desc[0], ppts, desc[2])
            m0 = _build_volume(d)
            g = _vgeo_of(m0, d, rep)
            if g is None:
                continue
            col.baseline = (pl == ("unit", 0))
            col.ctx = ctx
            if pl and pl[0] == "far":
                g.pt_tol = g.S.pt_tol = _far_pt_tol(g)
                rep.flag("vol_far:" + tag["placement"]); rep.count("far_vol_meshes")
            rep.traces += 1
            if all(g.vol6(c) != 0 for c in range(g.nc)):
                rep.case(("vol", d[1], desc[2]))
            else:
                rep.count("volume_meshes_with_degenerate_cell")
            for fname, cont, vtype, dim in VOL_SPECS:
                for opts in ([dict(persistent=False, dense=True)] if default_only else PD):
                    m = _build_volume(d) if opts["persistent"] else m0
                    check_volume_function(col, M, m, g, fname, dict(opts, **tag), rep, clause=clause)
            check_volume_globals(col, M, _build_volume(d), g, rep, rebuild=(lambda: _build_volume(d)), clause=clause, common=tag)
        col.flush()


def collect_volume(M, m, g, rep):
    A = M.attributes
    out = {}
    for fname, cont, vtype, dim in VOL_SPECS:
        o = call(getattr(A, fname), m, persistent=False)
        rep.transitions += 1
        if o.ok and o.value is not None:
            r = call(_read, o.value, _vsize(g, cont))
            out[fname] = r.value if r.ok else ("raise", r.exc)
        else:
            out[fname] = ("raise", o.exc if not o.ok else "None")
    for gname, fn in (("barycenter", lambda: A.barycenter(m)), ("mean_edge_length", lambda: A.mean_edge_length(m)),
                      ("mean_face_area", lambda: A.mean_face_area(_build_like(m))), ("mean_cell_volume", lambda: A.mean_cell_volume(_build_like(m)))):
        o = call(fn)
        rep.transitions += 1
        out["global:" + gname] = _py(o.value) if o.ok else ("raise", o.exc)
    return out


def _build_like(m):
    return F.build_volume([tuple(float(x) for x in p) for p in m.vertices], [tuple(c) for c in m.cells])


def run_vol_partners(task, rep: Report):
    import mouette as M
    name, pts, cells = task["mesh"]
    cells = [tuple(c) for c in cells]
    desc = (name, pts, cells)
    m = _build_volume(desc)
    gb = _vgeo_of(m, desc, rep)
    if gb is None:
        return
    if any(gb.vol6(c) == 0 for c in range(gb.nc)):
        rep.count("volume_meshes_with_degenerate_cell")
    col = Collector(rep, "tet", {"mesh": name, "points": pts, "cells": [list(c) for c in cells]})
    base = collect_volume(M, m, gb, rep)
    n = len(pts)
    ident = list(range(n))
    rep.traces += 1

    def partner(clause, tag, P2, cells2, perm, R, s, t):
        d2 = (name + ":" + tag, L.pts_to_json(P2), cells2)
        m2 = _build_volume(d2)
        g2 = _vgeo_of(m2, d2, rep)
        if g2 is None:
            return
        ptol = _far_pt_tol(g2) if clause == "far_from_origin" else None
        part = collect_volume(M, m2, g2, rep)
        rep.traces += 1
        rep.case(("vpartner", pts, cells, clause, tag))
        maps = {"v": [perm[v] for v in range(n)],
                "e": [{frozenset(e): i for i, e in enumerate(g2.edges)}[frozenset(perm[v] for v in e)] for e in gb.edges],
                "f": [{frozenset(f): i for i, f in enumerate(g2.faces)}[frozenset(perm[v] for v in f)] for f in gb.faces],
                "cell": [{frozenset(c): i for i, c in enumerate(g2.cells)}[frozenset(perm[v] for v in c)] for c in gb.cells]}
        for fname, cont, vtype, dim in VOL_SPECS:
            opts = {"partner": clause}
            col.run(fname, opts)
            b, p = base[fname], part[fname]
            sub = f"C07.{fname}.{clause}"
            if isinstance(b, tuple) and b and b[0] == "raise" or isinstance(p, tuple) and p and p[0] == "raise":
                if b != p:
                    col.fail(sub, fname, "mismatch:raise", opts, {"base": b, "partner": p})
                continue
            for i in range(_vsize(gb, cont)):
                if vol_want(gb, fname, i)[1]:
                    continue
                want = _transform_value(vtype, dim, b[i], R, s, t)
                got = p[maps[cont][i]]
                rep.evaluations += 1
                if not _close_value(vtype, dim, got, want, g2.L, g2.M, ptol):
                    col.fail(sub, fname, "mismatch:value", opts, {"element": i, "partner_value": got, "transformed_base_value": want,
                                                                  "partner_points": d2[1], "partner_cells": [list(c) for c in cells2]})
                    break
        for gname in ("barycenter", "mean_edge_length", "mean_face_area", "mean_cell_volume"):
            vtype, dim = GLOBAL_KIND[gname]
            opts = {"partner": clause}
            col.run(gname, opts)
            b, p = base["global:" + gname], part["global:" + gname]
            if isinstance(b, tuple) and b and b[0] == "raise" or isinstance(p, tuple) and p and p[0] == "raise":
                if b != p:
                    col.fail(f"C07.{gname}.{clause}", gname, "mismatch:raise", opts, {"base": b, "partner": p})
                continue
            rep.evaluations += 1
            if not _close_value(vtype, dim, p, _transform_value(vtype, dim, b, R, s, t), g2.L, g2.M, ptol):
                col.fail(f"C07.{gname}.{clause}", gname, "mismatch:value", opts, {"base_value": b, "partner_value": p})

    for ri, R in enumerate(L.rotations24()):
        for ti, t in enumerate(TRANSLATIONS):
            if (ri or ti) and not (task.get("motions") == "24" and ti != (ri + 1) % 2):
                partner("rigid_motion", f"R{ri}T{ti}", L.transform_points(pts, R, 1, t), cells, ident, R, 1, t)
    for s in (2, X.Fr(1, 2)):
        partner("scale", f"S{s}", L.transform_points(pts, IDENT, s, (0, 0, 0)), cells, ident, IDENT, s, (0, 0, 0))
    for e in UNIT_EXPONENTS:
        s = X.Fr(2) ** e
        partner("unit_of_length", f"U{e}", L.transform_points(pts, IDENT, s, (0, 0, 0)), cells, ident, IDENT, s, (0, 0, 0))
    for k, j in task.get("far") or []:
        s, t = X.Fr(2) ** j, _far_vector(k)
        P2 = L.transform_points(pts, IDENT, s, t)
        if any(X.Fr(float(x)) != x for p in P2 for x in p):
            rep.count("far_filtered_inexact_coordinates"); continue
        partner("far_from_origin", _far_label(k, j), P2, cells, ident, IDENT, s, t)
        rep.flag("vol_far_partner:" + _far_label(k, j))
    for perm in _relabelings(n, task["relabel"]):
        P2 = [None] * n
        for v in range(n):
            P2[perm[v]] = pts[v]
        partner("renumbering", "P" + "".join(map(str, perm)), P2, [tuple(c) for c in F.relabel_cells(cells, perm)], perm, IDENT, 1, (0, 0, 0))
    # vertex order inside the cells (both orientations) and order of the cells
    for k, order in enumerate(((1, 0, 2, 3), (1, 2, 3, 0), (3, 2, 1, 0), (0, 2, 3, 1))):
        cells3 = [tuple(c[j] for j in order) for c in reversed(cells)]
        partner("renumbering", f"cells_relisted{k}", [tuple(p) for p in pts], cells3, ident, IDENT, 1, (0, 0, 0))
    col.flush()


VOL_EVENTS = [("cell_volume", {"dense": True}), ("cell_volume", {"dense": False}), ("face_area", {"dense": True}), ("face_area", {"dense": False}),
              ("mean_cell_volume", {}), ("mean_face_area", {})]


def run_vol_bfs(task, rep: Report):
    import mouette as M
    A = M.attributes
    desc = tuple(task["mesh"])
    g = _vgeo_of(_build_volume(desc), desc, rep)
    if g is None:
        return
    col = Collector(rep, "tet", {"mesh": desc[0], "points": desc[1], "cells": desc[2]})

    def apply_event(m, ev):
        return call(getattr(A, ev[0]), m, **(dict(ev[1], persistent=True) if ev[0] in VSPEC else {}))

    def rebuild(hist, kept=None):
        m = _build_volume(desc)
        for ev in hist:
            apply_event(m, ev)
            if kept is not None:
                _keep_results(m, kept)
        return m

    kept_done = set()
    seen = {_bb_key(_build_volume(desc))[0]: ()}
    queue = [()]
    while queue:
        hist = queue.pop(0)
        m = rebuild(hist)
        key, names = _bb_key(m)
        names = set(names)
        rep.states += 1
        rep.case(("vbfs", desc[1], desc[2], key))
        col.ctx = {"history": [[e[0], e[1]] for e in hist]}
        flags = {"mean_cell_volume": {"has_cells.volume": ("cells", "volume") in names},
                 "mean_face_area": {"has_faces.area": ("faces", "area") in names}}
        for fname in ("cell_volume", "face_area"):
            for d in (True, False):
                check_volume_function(col, M, m, g, fname, dict(persistent=False, dense=d, **_has_flags(fname, names)), rep)
        check_volume_globals(col, M, m, g, rep, extra=flags, rebuild=lambda: rebuild(hist))
        if len(hist) >= int(task["depth"]):
            continue
        for ev in VOL_EVENTS:
            kept = {}
            m = rebuild(hist, kept)
            if ev[0] in VSPEC:
                col.ctx = {"history": [[e[0], e[1]] for e in hist + (ev,)]}
                check_volume_function(col, M, m, g, ev[0], dict(ev[1], persistent=True, **_has_flags(ev[0], set(_bb_key(m)[1]))), rep)
            else:
                apply_event(m, ev)
            rep.transitions += 1
            if kept:
                rep.flag("vol_kept_after:" + ev[0])
                _check_kept(rep, kept_done, kept, "tet", ev[0], "same_geometry",
                            {"mesh": desc[0], "points": desc[1], "cells": desc[2], "history": [[e[0], e[1]] for e in hist + (ev,)]})
            k = _bb_key(m)[0]
            if k not in seen:
                seen[k] = hist + (ev,); queue.append(hist + (ev,))
    rep.traces += len(seen)
    if len(seen) > 1:
        rep.flag("vol_bfs_multi_state")
    col.flush()


# ================================================================================================ whole labelled families (thorough)
def run_labelled(task, rep: Report):
    import mouette as M
    n, alpha = task["n"], task["alpha"]
    pts = L.pts_to_json(L.coords(alpha, n))
    for i, fl in enumerate(F.surf_enum(n)[task["lo"]:task["hi"]]):
        desc = (f"tri{n}#{task['lo'] + i}:{alpha}", pts, [tuple(f) for f in fl])
        m = _build_surface(desc)
        geo = _geo_of(m, desc, rep)
        if geo is None:
            continue
        col = Collector(rep, _mclass(geo), {"mesh": desc[0], "points": pts, "faces": [list(f) for f in fl]})
        rep.traces += 1
        rep.case(("labelled", alpha, fl))
        for fname, opts in DEFAULT_QUERIES:
            if fname in SPEC:
                o = dict(opts, persistent=False, dense=True)
                if fname == "vertex_normals":
                    o["custom"] = None
                check_surface_function(col, M, m, geo, fname, o, rep)
        col.flush()


def run_vol_labelled(task, rep: Report):
    n, alpha = task["n"], task["alpha"]
    pts = L.pts_to_json(L.coords(alpha, n))
    meshes = [(f"tet{n}#{task['lo'] + i}:{alpha}", pts, [list(c) for c in cl]) for i, cl in enumerate(F.tet_enum(n)[task["lo"]:task["hi"]])]
    run_vol_opts({"meshes": meshes}, rep, default_only=True)


# ================================================================================================ phase: deform
# History on ONE mesh object: quantities are requested (persistent=True), the geometry is then changed IN PLACE by a map
# that is not a similarity, and the same functions are called again. An explicit call of a quantity function describes
# the CURRENT geometry (the library recomputes: with the default configuration a persistent call replaces or refills the
# stored attribute). Quantities that the library derives from OTHER stored attributes (cotangent <- 'angles',
# cotan_weights <- 'cotan', angle_defects <- 'angles', vertex_normals <- face 'normals', sums and means <- 'area') reuse
# them by design: they are judged only after those inputs have themselves been requested again on the new geometry.
DEFORMATIONS = [("scale_xyz", [2.0, 1.0, 0.5]), ("scale_xyz", [1.0, 4.0, 1.0]), ("move_vertex", [1.0, -2.0, 3.0])]
# in-place SIMILARITIES (the motions and the uniform scale of the statement applied to the mesh object itself, exact on the
# integer / dyadic coordinates): history 'every quantity; similarity; every quantity again'. The second answers are judged
# like after any deformation; the results of the first calls, kept by the caller, must still hold the first values
SIMILARITIES = [("scale", [3.0]), ("translate", [8.0, -16.0, 32.0])]
PRODUCER = {("face_corners", "angles"): "corner_angles", ("face_corners", "cotan"): "cotangent",
            ("faces", "normals"): "face_normals", ("faces", "area"): "face_area"}
INPUT_ORDER = [("face_corners", "angles"), ("face_corners", "cotan"), ("faces", "normals"), ("faces", "area")]
DEFORM_ORDER = ["degree", "edge_length", "edge_middle_point", "face_area", "face_normals", "face_barycenter", "face_circumcenter",
                "triangle_aspect_ratio", "corner_angles", "cotangent", "cotan_weights", "angle_defects", "vertex_normals"]
CLAUSE_DEFORM = "recomputed_after_deformation"


def _variants(fname):
    if fname == "angle_defects":
        return [{"zero_border": False}, {"zero_border": True}]
    if fname == "vertex_normals":
        return [{"interpolation": w} for w in ("uniform", "area", "angle")]
    return [{}]


def _deform(M, m, d):
    kind, a = d
    if kind == "scale_xyz":
        M.transform.scale_xyz(m, *a)
    elif kind == "scale":
        M.transform.scale(m, a[0])
    elif kind == "translate":
        M.transform.translate(m, M.Vec(*a))
    else:                                     # one vertex moved through the container API
        v = len(m.vertices) - 1
        m.vertices[v] = m.vertices[v] + M.Vec(*a)


def _points_now(m):
    return [[float(x) for x in m.vertices[i]] for i in range(len(m.vertices))]


def _nfails(col):
    return col.calls_failed


def _inputs_of(fname):
    own = STORED.get(fname)
    return [ca for ca in INPUT_ORDER if ca in RELEVANT.get(fname, ()) and ca != own]


def run_deform(task, rep: Report):
    import mouette as M
    A = M.attributes
    name, pts, faces = task["mesh"]
    faces = [tuple(f) for f in faces]
    desc = (name, pts, faces)
    geo0 = _geo_of(_build_surface(desc), desc, rep)
    if geo0 is None:
        return
    col = Collector(rep, _mclass(geo0), {"mesh": name, "points": pts, "faces": [list(f) for f in faces]})
    fnames = [f for f in DEFORM_ORDER if geo0.tri or not SPEC[f][4]]
    scratch = Collector(rep, _mclass(geo0), {})      # calls before the deformation: judged by other clauses, only remembered here
    scratch.baseline = True
    rep.traces += 1

    def geometry_after(m, d):
        _deform(M, m, d)
        p1 = _points_now(m)
        g1 = L.SurfGeo(p1, faces, geo0.edges)
        if p1 == [[float(x) for x in p] for p in pts]:
            rep.count("deformation_left_the_points_unchanged")
        if any(g1.corner(c).get("angle") is not None and geo0.corner(c).get("angle") is not None
               and abs(g1.corner(c)["angle"] - geo0.corner(c)["angle"]) > 1e-3 for c in range(g1.nc)):
            rep.flag("deformation_changed_an_angle")
        rep.case(("deform", pts, faces, d))
        return g1, p1

    kept_done = set()
    kdetail = {"mesh": name, "points": pts, "faces": [list(f) for f in faces]}
    for d in DEFORMATIONS + SIMILARITIES:
        tag = {"deformation": d[0]}
        similar = d in SIMILARITIES
        hkind = "after_similarity" if similar else "after_deformation"
        exempt = () if similar else REFILLED_IN_PLACE
        # ---- history 'solo': f; deformation; the stored inputs of f requested again; f
        for fname in (() if similar else fnames):
            for extra in _variants(fname):
                m = _build_surface(desc)
                o0 = dict(extra, persistent=True, dense=True)
                if fname == "vertex_normals":
                    o0["custom"] = None
                before = _nfails(scratch)
                check_surface_function(scratch, M, m, geo0, fname, o0, rep)
                if _nfails(scratch) != before:
                    rep.count("deform_not_judged_wrong_before"); continue  # wrong before any deformation: the 'definition' clause reports it
                kept = {}
                _keep_results(m, kept)
                g1, p1 = geometry_after(m, d)
                hist = [[fname, extra], list(d)]
                inputs_ok = True
                for ca in _inputs_of(fname):
                    if getattr(m, ca[0]).has_attribute(ca[1]):
                        before = _nfails(col)
                        col.ctx = {"history": hist + [[PRODUCER[ca], {}]], "points_now": p1}
                        check_surface_function(col, M, m, g1, PRODUCER[ca], dict(persistent=True, dense=True, history="solo", **tag), rep,
                                               clause=CLAUSE_DEFORM)
                        hist = hist + [[PRODUCER[ca], {}]]
                        inputs_ok = inputs_ok and _nfails(col) == before
                        _check_kept(rep, kept_done, kept, "surf", PRODUCER[ca], hkind, dict(kdetail, history=hist), exempt)
                if not inputs_ok:
                    rep.count("deform_not_judged_input_wrong"); continue    # one defect = one fingerprint
                col.ctx = {"history": hist + [[fname, extra]], "points_now": p1}
                opts = dict(extra, persistent=True, dense=True, history="solo", **tag)
                if fname == "vertex_normals":
                    opts["custom"] = None
                check_surface_function(col, M, m, g1, fname, opts, rep, clause=CLAUSE_DEFORM)
                _check_kept(rep, kept_done, kept, "surf", fname, hkind, dict(kdetail, history=hist + [[fname, extra]]), exempt)
                rep.count("deform_recalls_judged")
                rep.traces += 1
        # ---- history 'all': every quantity; deformation; every quantity again (inputs before the quantities derived from them)
        m = _build_surface(desc)
        wrong = set()
        for fname, cont, vtype, dim, tri_only in SURF_SPECS:
            if fname in fnames:
                for extra in _variants(fname)[:1]:
                    o0 = dict(extra, persistent=True, dense=True, **_has_flags(fname, set(_bb_key(m)[1])))
                    if fname == "vertex_normals":
                        o0["custom"] = None
                    before = _nfails(scratch)
                    check_surface_function(scratch, M, m, geo0, fname, o0, rep)
                    if _nfails(scratch) != before:
                        wrong.add(fname); rep.count("deform_not_judged_wrong_before")
        kept = {}
        _keep_results(m, kept)
        g1, p1 = geometry_after(m, d)
        if similar:
            rep.flag("similarity_history:" + d[0])
        for fname in fnames:
            for extra in _variants(fname):
                htxt = "every quantity (persistent); %s; every quantity again, ending with %s" % (list(d), fname)
                if fname in wrong or any(PRODUCER[ca] in wrong for ca in _inputs_of(fname)):
                    call(getattr(A, fname), m, persistent=True, **extra)
                    rep.count("deform_not_judged_input_wrong")
                    _check_kept(rep, kept_done, kept, "surf", fname, hkind, dict(kdetail, history=htxt), exempt)
                    continue
                before = _nfails(col)
                col.ctx = {"history": htxt, "points_now": p1}
                opts = dict(extra, persistent=True, dense=True, history="all", **tag)
                if fname == "vertex_normals":
                    opts["custom"] = None
                check_surface_function(col, M, m, g1, fname, opts, rep, clause=CLAUSE_DEFORM)
                rep.count("deform_recalls_judged")
                if _nfails(col) != before:
                    wrong.add(fname)
                # the results of the calls made BEFORE the deformation, kept by the caller, re-read after this call
                _check_kept(rep, kept_done, kept, "surf", fname, hkind, dict(kdetail, history=htxt), exempt)
                rep.count("kept_after_deformation_checks")
        if "face_area" not in wrong:
            col.ctx = {"history": "every quantity (persistent); %s; every quantity again; global" % (list(d),), "points_now": p1}
            check_surface_globals(col, M, m, g1, rep, extra=dict(history="all", **tag), clause=CLAUSE_DEFORM,
                                  only=("barycenter", "total_area", "mean_edge_length", "mean_face_area"))
        rep.traces += 1
    col.flush()


def run_vol_deform(task, rep: Report):
    import mouette as M
    A = M.attributes
    desc = tuple(task["mesh"])
    g0 = _vgeo_of(_build_volume(desc), desc, rep)
    if g0 is None:
        return
    col = Collector(rep, "tet", {"mesh": desc[0], "points": desc[1], "cells": desc[2]})
    scratch = Collector(rep, "tet", {})
    scratch.baseline = True
    kept_done = set()
    for d in DEFORMATIONS + SIMILARITIES:
        tag = {"deformation": d[0]}
        similar = d in SIMILARITIES
        for hist in (("all",) if similar else ("solo", "all")):
            for fname in ([s[0] for s in VOL_SPECS] if hist == "solo" else [None]):
                m = _build_volume(desc)
                before = _nfails(scratch)
                for f2 in ([fname] if fname else [s[0] for s in VOL_SPECS]):
                    check_volume_function(scratch, M, m, g0, f2, dict(persistent=True, dense=True), rep)
                if _nfails(scratch) != before:
                    rep.count("deform_not_judged_wrong_before"); continue
                if hist == "all":
                    call(A.mean_cell_volume, m); call(A.mean_face_area, m)
                kept = {}
                _keep_results(m, kept)
                _deform(M, m, d)
                p1 = _points_now(m)
                g1 = _vgeo_of(m, (desc[0], p1, desc[2]), rep)
                if g1 is None:
                    continue
                rep.case(("vdeform", desc[1], desc[2], d, fname))
                if any(abs(g1.volume(c) - g0.volume(c)) > 1e-9 for c in range(g1.nc)):
                    rep.flag("deformation_changed_a_volume")
                col.ctx = {"history": [fname or "every quantity", list(d), fname or "every quantity again"], "points_now": p1}
                bad = False
                for f2 in ([fname] if fname else [s[0] for s in VOL_SPECS]):
                    before = _nfails(col)
                    check_volume_function(col, M, m, g1, f2, dict(persistent=True, dense=True, history=hist, **tag), rep, clause=CLAUSE_DEFORM)
                    bad = bad or _nfails(col) != before
                    _check_kept(rep, kept_done, kept, "tet", f2, "after_similarity" if similar else "after_deformation",
                                {"mesh": desc[0], "points": desc[1], "cells": desc[2], "history": [fname or "every quantity", list(d), f2]})
                    rep.count("vol_kept_after_deformation_checks")
                if similar:
                    rep.flag("vol_similarity_history:" + d[0])
                if hist == "all" and not bad:      # the stored 'volume' / 'area' were requested again: sums and means are current
                    check_volume_globals(col, M, m, g1, rep, clause=CLAUSE_DEFORM, common=dict(history=hist, **tag))
                rep.traces += 1
    col.flush()


# ================================================================================================ phase: convex
# Planar strictly convex polygons that are NOT parallelograms / regular: every strictly convex lattice k-gon of the 4x4
# grid (one per symmetry class: trapezoids, kites, irregular quads, irregular pentagons ... the octagon), embedded by
# the integer affine maps, listed from every corner and in both orientations, alone and glued to a triangle. Areas,
# normals, barycentres, corner angles are exact rationals / square roots of rationals in the oracle.
CONVEX_GRID = 4


def _convex_shapes(tier):
    out = []
    for k in (4, 5, 6, 7, 8):
        for i, cyc in enumerate(L.convex_lattice_polygons(CONVEX_GRID, k)):
            fits3 = max(max(p[0] for p in cyc) - min(p[0] for p in cyc), max(p[1] for p in cyc) - min(p[1] for p in cyc)) <= 2
            if tier == "thorough" or k == 4 or fits3 or i % 4 == 0:
                out.append([k * 1000 + i, [list(p) for p in cyc]])
    return out


def run_convex(task, rep: Report):
    import mouette as M
    cols = {}
    affs = sorted(L.AFFINE)
    far = task.get("far") or []
    for si, cyc in task["shapes"]:
        cyc = [tuple(p) for p in cyc]
        k = len(cyc)
        shape = L.polygon_shape(cyc)
        kind = "quad" if k == 4 else "poly"
        rep.flag(f"convex_shape:{kind}:{shape}")
        rep.count("convex_shapes")
        for ai, aff in enumerate(affs):
            full = ai == si % len(affs)      # every listing of the face under one map, the first listing under the other two
            base = L.affine([(x, y, 0) for x, y in cyc], aff)
            for rot in range(k if full else 1):
                for orient in (1, -1):
                    order = [(rot + orient * i) % k for i in range(k)]
                    for glue in ((False, True) if rot == 0 else (False,)):
                        pts, faces = list(base), [tuple(order)]
                        if glue:        # a triangle across the first side of the polygon, on the other side of it
                            a, b, c = (X.F(base[order[j]]) for j in (0, 1, 2))
                            pts.append(tuple(int(x) for x in X.sub(X.add(a, b), c)))
                            faces.append((order[1], order[0], k))
                        # the first listing under the fully listed map is also placed far from the origin (one placement per shape, in rotation)
                        places = [None] + ([tuple(["far"] + list(far[si % len(far)]))] if (far and full and rot == 0 and orient == 1) else [])
                        for pl in places:
                            ppts, ptag, pctx, pclause = _place(L.pts_to_json(pts), pl)
                            if ppts is None:
                                rep.count("far_filtered_inexact_coordinates"); continue
                            desc = (f"convex{k}gon#{si % 1000}:{aff}:listing{rot}{'+' if orient > 0 else '-'}{':glued' if glue else ''}", ppts, faces)
                            m = _build_surface(desc)
                            geo = _geo_of(m, desc, rep)
                            if geo is None:
                                continue
                            if not all(geo.face(f)["ok"] for f in range(geo.nf)):
                                rep.count("premise_failed"); rep.notes.append(f"{desc[0]}: not planar strictly convex"); continue
                            if pclause:
                                geo.pt_tol = _far_pt_tol(geo)
                                rep.count("far_convex_meshes")
                            mc = _mclass(geo)
                            col = cols.get(mc)
                            if col is None:
                                col = cols[mc] = Collector(rep, mc, {})
                            col.ctx = dict({"mesh": desc[0], "points": desc[1], "faces": [list(f) for f in faces], "polygon_2d": [list(p) for p in cyc], "shape": shape}, **pctx)
                            rep.traces += 1
                            rep.case(("convex", desc[1], faces))
                            tag = dict({"symmetry": "central" if shape in ("parallelogram", "centrally_symmetric") else "none",
                                        "listing": "first_corner" if rot == 0 else "other_corner", "orientation": "ccw" if orient > 0 else "cw", "map": aff}, **ptag)
                            clause = pclause or "convex_polygon"
                            for fname, cont, vtype, dim, tri_only in SURF_SPECS:
                                if tri_only:
                                    continue
                                for extra in _variants(fname):
                                    opts = dict(extra, persistent=False, dense=True, **tag)
                                    if fname == "vertex_normals":
                                        opts["custom"] = None
                                    check_surface_function(col, M, m, geo, fname, opts, rep, clause=clause)
                            check_surface_globals(col, M, m, geo, rep, extra=tag, clause=clause,
                                                  only=("barycenter", "total_area", "mean_face_area", "euler_characteristic"))
    for mc in sorted(cols):
        cols[mc].flush()


# ================================================================================================ phase: defaults
# DEFAULT VALUES and ARGUMENT FORMS. Every other phase passes each option explicitly, so the value a keyword takes when
# it is OMITTED, and the position an option has in the signature, would be invisible. Here every function is called
#   * with each optional argument omitted (one at a time, in every combination of values of the other options, and all
#     omitted together): the observable behaviour (raise / storage class of the returned attribute / where it is stored /
#     its values / the whole attribute blackboard afterwards) must equal that of the call passing the DOCUMENTED default;
#   * with the options passed positionally in the documented order (every prefix length, every option vector): same
#     behaviour as by keyword.
# The documented signatures are PINNED below (copied from the signatures of the unchanged tree; where the prose of a
# docstring contradicts the signature - border_normals / triangle_aspect_ratio 'dense', face_circumcenter 'name' - the
# signature wins). They are NOT read from the library at run
# time; a separate guard compares them with inspect.signature(): a default that differs from the documented one IS the defect.
DOC_SIGNATURE = {
    # function: (required positional parameters, ((optional parameter, documented default), ... in documented order))
    "degree": (("mesh",), (("name", "degree"), ("persistent", True), ("dense", True))),
    "angle_defects": (("mesh",), (("zero_border", False), ("name", "angleDefect"), ("persistent", True), ("dense", True))),
    "vertex_normals": (("mesh",), (("name", "normals"), ("persistent", True), ("interpolation", "area"), ("dense", True), ("custom_fnormals", None))),
    "border_normals": (("mesh",), (("name", "borderNormals"), ("persistent", True), ("dense", False))),
    "edge_length": (("mesh",), (("name", "length"), ("persistent", True), ("dense", True))),
    "edge_middle_point": (("mesh",), (("name", "middle"), ("persistent", True), ("dense", True))),
    "cotan_weights": (("mesh",), (("name", "cotan_weight"), ("persistent", True), ("dense", True))),
    "curvature_matrices": (("mesh",), ()),
    "face_area": (("mesh",), (("name", "area"), ("persistent", True), ("dense", True))),
    "face_normals": (("mesh",), (("name", "normals"), ("persistent", True), ("dense", True))),
    "face_barycenter": (("mesh",), (("name", "barycenter"), ("persistent", True), ("dense", True))),
    "face_circumcenter": (("mesh",), (("name", "circumcenter"), ("persistent", True), ("dense", True))),
    "triangle_aspect_ratio": (("mesh",), (("name", "aspect_ratio"), ("persistent", True), ("dense", True))),
    "corner_angles": (("mesh",), (("name", "angles"), ("persistent", True), ("dense", True))),
    "cotangent": (("mesh",), (("name", "cotan"), ("persistent", True), ("dense", True))),
    "cell_volume": (("mesh",), (("name", "volume"), ("persistent", True), ("dense", True))),
    "cell_barycenter": (("mesh",), (("name", "barycenter"), ("persistent", True), ("dense", True))),
    "cell_faces_on_boundary": (("mesh",), (("name", "boundary"), ("persistent", True), ("dense", False))),
    "euler_characteristic": (("mesh",), ()),
    "total_area": (("mesh",), ()),
    "barycenter": (("mesh",), ()),
    "mean_edge_length": (("mesh",), (("n", None),)),
    "mean_face_area": (("mesh",), (("n", None),)),
    "mean_cell_volume": (("mesh",), (("n", None),)),
    "interpolate_vertices_to_faces": (("mesh", "vattr", "fattr"), ()),
    "interpolate_faces_to_vertices": (("mesh", "fattr", "vattr"), (("weight", "uniform"),)),
    "scatter_vertices_to_corners": (("mesh", "vattr", "cattr"), ()),
    "scatter_faces_to_corners": (("mesh", "fattr", "cattr"), ()),
    "average_corners_to_vertices": (("mesh", "cattr", "vattr"), (("weight", "uniform"),)),
    "average_corners_to_faces": (("mesh", "cattr", "fattr"), (("weight", "uniform"),)),
}
# the other values of each option (the default must be told apart from them on at least one input: vacuity guard)
DEFAULTS_ALT = {"name": ("zz_other",), "zero_border": (True,), "interpolation": ("uniform", "angle"), "custom_fnormals": ("sparse",),
                "n": ("one", "all_but_one")}
WEIGHT_ALT = {"interpolate_faces_to_vertices": ("area", "angle", "sum"), "average_corners_to_vertices": ("angle", "sum"),
              "average_corners_to_faces": ("angle", "sum")}
INTERP_CONT = {"interpolate_faces_to_vertices": ("faces", "vertices"), "average_corners_to_vertices": ("face_corners", "vertices"),
               "average_corners_to_faces": ("face_corners", "faces")}
MEAN_CONT = {"mean_edge_length": "edges", "mean_face_area": "faces", "mean_cell_volume": "cells"}
DEFAULTS_SURF = [s[0] for s in SURF_SPECS] + ["border_normals", "mean_edge_length", "mean_face_area"] + sorted(INTERP_CONT)
DEFAULTS_VOL = ["cell_volume", "cell_barycenter", "cell_faces_on_boundary", "mean_cell_volume", "mean_face_area", "mean_edge_length",
                "face_area", "edge_length", "degree"]
OBS_FIELDS = ("outcome", "return_type", "stored_as", "blackboard_names", "value", "output", "blackboard")
OBS_KIND = {"outcome": "mismatch:raise", "return_type": "mismatch:storage_class", "stored_as": "mismatch:stored_as",
            "blackboard_names": "side_effect:blackboard_names", "value": "mismatch:value", "output": "mismatch:output_attribute",
            "blackboard": "side_effect:blackboard_values"}


DEFAULTS_TRI_MESHES = (("tri5c1", "generic"), ("tri5c2", "lattice"))       # a bordered and a closed triangulation
DEFAULTS_ZOO_MESHES = ("grid2x3mixed:shear", "cube:shear")                  # triangles + quads with a border, closed quads
DEFAULTS_TET_MESHES = (("tet5c1", "generic"), ("tet6c0", "moment"))


def _alt_values(fname, p, default):
    if isinstance(default, bool):
        return (not default,)
    return WEIGHT_ALT[fname] if p == "weight" else DEFAULTS_ALT[p]


def _option_space(fname, two_valued=False):
    """every vector of option values (documented default + the other values) of a function, as dicts in documented order"""
    opt = DOC_SIGNATURE[fname][1]
    sets = [((d,) + _alt_values(fname, p, d))[:2 if two_valued else None] for p, d in opt]
    return [dict(zip([p for p, _ in opt], combo)) for combo in itertools.product(*sets)]


def _approx_eq(a, b):
    if isinstance(a, float) or isinstance(b, float):
        try:
            fa, fb = float(a), float(b)
        except Exception:
            return False
        if isinstance(a, bool) != isinstance(b, bool):
            return False
        return (fa != fa and fb != fb) or fa == fb or abs(fa - fb) <= 1e-9 * max(abs(fa), abs(fb))
    if isinstance(a, (list, tuple)) and isinstance(b, (list, tuple)):
        return len(a) == len(b) and all(_approx_eq(x, y) for x, y in zip(a, b))
    if isinstance(a, dict) and isinstance(b, dict):
        return sorted(a) == sorted(b) and all(_approx_eq(a[k], b[k]) for k in a)
    return type(a) == type(b) and a == b


def _obs_diff(a, b):
    """first field (in the order of OBS_FIELDS) in which two observations of a call differ, or None"""
    for f in OBS_FIELDS:
        if not _approx_eq(a.get(f), b.get(f)):
            return f
    return None


def _observe(m, o, ret_container, out_attr=None):
    """JSON-able record of everything a caller can see of one call on the fresh mesh m"""
    obs = {"outcome": "ok" if o.ok else "raise:" + str(o.exc), "return_type": None, "stored_as": None, "value": None, "output": None}
    board, where = {}, {}
    for cn in ("vertices", "edges", "faces", "face_corners", "cells"):
        cont = getattr(m, cn, None)
        if cont is None:
            continue
        for name in sorted(cont._attr):
            a = cont._attr[name]
            r = call(_read, a, len(cont))
            board[f"{cn}.{name}"] = [type(a).__name__, int(a.elemsize), [list(x) if isinstance(x, tuple) else x for x in r.value] if r.ok else "unreadable:" + str(r.exc)]
            where[id(a)] = f"{cn}.{name}"
    obs["blackboard_names"] = sorted(board)
    obs["blackboard"] = board
    if o.ok:
        v = o.value
        obs["return_type"] = type(v).__name__ if hasattr(v, "elemsize") else "number" if isinstance(_py(v), (int, float)) else type(v).__name__
        if hasattr(v, "elemsize"):
            obs["stored_as"] = where.get(id(v))
            r = call(_read, v, len(getattr(m, ret_container)))
            obs["value"] = [list(x) if isinstance(x, tuple) else x for x in r.value] if r.ok else "unreadable:" + str(r.exc)
        else:
            pv = _py(v)
            obs["value"] = list(pv) if isinstance(pv, tuple) else pv
    if out_attr is not None:
        r = call(_read, out_attr[0], out_attr[1])
        obs["output"] = [list(x) if isinstance(x, tuple) else x for x in r.value] if r.ok else "unreadable:" + str(r.exc)
    return obs


def _ret_container(fname):
    if fname in INTERP_CONT:
        return INTERP_CONT[fname][1]
    return STORED[fname][0] if fname in STORED else "vertices"


def _defaults_call(M, fn, fname, build, V, omit=(), npos=0):
    """one call of fn on a fresh mesh: the options of V except those in `omit`, the first npos of them positionally"""
    from mouette.mesh.mesh_attributes import ArrayAttribute
    m = build()
    order = [p for p, _ in DOC_SIGNATURE[fname][1]]
    vals = {}
    for p in order:
        if p in omit:
            continue
        v = V[p]
        if p == "custom_fnormals" and v is not None:
            v = _custom_attr(M, v, len(m.faces))
        elif p == "n" and v is not None:
            N = len(getattr(m, MEAN_CONT[fname]))
            v = 1 if v == "one" else max(1, N - 1)
        vals[p] = v
    pre, out_attr = (), None
    if fname in INTERP_CONT:
        src, dst = (len(getattr(m, c)) for c in INTERP_CONT[fname])
        a_in, a_out = ArrayAttribute(float, src), ArrayAttribute(float, dst)
        for i in range(src):
            a_in[i] = float((i * i) % 7 + 1)          # NOT constant: the weighting modes give different answers
        pre, out_attr = (a_in, a_out), (a_out, dst)
    pos = [vals.pop(p) for p in order[:npos]]
    o = call(fn, m, *pre, *pos, **vals)
    return _observe(m, o, _ret_container(fname), out_attr)


def _call_text(fname, V, omit=(), npos=0):
    order = [p for p, _ in DOC_SIGNATURE[fname][1]]
    args = ["mesh"] + list(DOC_SIGNATURE[fname][0][1:]) + [repr(V[p]) for p in order[:npos]] + \
           [f"{p}={V[p]!r}" for p in order[npos:] if p not in omit]
    return f"attributes.{fname}({', '.join(args)})"


def _trim(obs):
    s = {k: v for k, v in obs.items() if k != "blackboard"}
    s["blackboard"] = {k: [v[0], v[1]] for k, v in obs["blackboard"].items()}
    return s


def defaults_engine(M, rep, found, fname, fn, build, mesh_name, count=True):
    """Runs the two clauses (options omitted / options positional) for one function on one mesh.
    `found` collects {(subcheck, callee): {...}} so that one defect gives one fingerprint over all meshes of the task."""
    opt = DOC_SIGNATURE[fname][1]
    order = [p for p, _ in opt]
    default = dict(opt)
    if not opt:
        return
    space = _option_space(fname)
    explicit = {}

    def E(V):
        k = _okey(V)
        if k not in explicit:
            explicit[k] = _defaults_call(M, fn, fname, build, V)
            if count:
                rep.transitions += 1
        return explicit[k]

    # ---- the documented default must be told apart from the other values of the option (otherwise the clause is vacuous)
    for p in order:
        for V in space:
            if V[p] == default[p]:
                for alt in _alt_values(fname, p, default[p]):
                    if _obs_diff(E(V), E(dict(V, **{p: alt}))) and count:
                        rep.flag(f"defaults_discriminated:{fname}.{p}")
    # ---- each option omitted, one at a time, in every combination of the others; all omitted together
    st = found.setdefault(("C07.defaults.omitted", fname), {})
    for p in order:
        for V in space:
            if V[p] != default[p]:
                continue
            got = _defaults_call(M, fn, fname, build, V, omit=(p,))
            if count:
                rep.transitions += 1; rep.evaluations += 1; rep.flag(f"defaults_omitted:{fname}.{p}")
            f = _obs_diff(got, E(V))
            if f:
                old = st.get(p)
                if old is None or OBS_FIELDS.index(f) < OBS_FIELDS.index(old["field"]):
                    st[p] = {"field": f, "mesh": mesh_name, "call_with_option_omitted": _call_text(fname, V, omit=(p,)),
                             "call_with_documented_default": _call_text(fname, V), "documented_default": default[p],
                             "observed_omitted": _trim(got), "observed_explicit": _trim(E(V))}
    got = _defaults_call(M, fn, fname, build, default, omit=tuple(order))
    if count:
        rep.transitions += 1; rep.evaluations += 1; rep.flag(f"defaults_all_omitted:{fname}")
    f = _obs_diff(got, E(default))
    if f and "all" not in st:
        st["all"] = {"field": f, "mesh": mesh_name, "call_with_option_omitted": _call_text(fname, default, omit=tuple(order)),
                     "call_with_documented_default": _call_text(fname, default), "observed_omitted": _trim(got),
                     "observed_explicit": _trim(E(default))}
    # ---- options passed positionally in the documented order (every prefix) mean the same as passed by keyword
    st = found.setdefault(("C07.defaults.positional", fname), {})
    for V in _option_space(fname, two_valued=True):
        for k in range(1, len(order) + 1):
            got = _defaults_call(M, fn, fname, build, V, npos=k)
            if count:
                rep.transitions += 1; rep.evaluations += 1; rep.flag(f"defaults_positional:{fname}.{order[k - 1]}")
            f = _obs_diff(got, E(V))
            if f:
                if "k" not in st or k < st["k"]:
                    st.update({"k": k, "field": f, "mesh": mesh_name, "positional_call": _call_text(fname, V, npos=k),
                               "keyword_call": _call_text(fname, V), "observed_positional": _trim(got), "observed_keyword": _trim(E(V))})
                break


def defaults_flush(rep, found):
    for (sub, fname), st in sorted(found.items()):
        callee = "attributes." + fname
        if sub.endswith("omitted"):
            singles = sorted(p for p in st if p != "all")
            for p in singles:
                d = dict(st[p]); f = d.pop("field")
                rep.violation(sub, callee, OBS_KIND[f], "omitted=" + p, d)
            if "all" in st and not singles:        # otherwise the same defect again
                d = dict(st["all"]); f = d.pop("field")
                rep.violation(sub, callee, OBS_KIND[f], "omitted=all", d)
        elif st:
            d = dict(st); f = d.pop("field"); k = d.pop("k")
            rep.violation(sub, callee, OBS_KIND[f], "position%d=%s" % (k, DOC_SIGNATURE[fname][1][k - 1][0]), d)


def defaults_signature_guard(M, rep):
    """the pinned table against inspect.signature(): cheap, and a difference is reported as a violation of its own subcheck"""
    import inspect
    for fname, (req, opt) in sorted(DOC_SIGNATURE.items()):
        fn = getattr(M.attributes, fname, None)
        callee = "attributes." + fname
        if fn is None:
            rep.violation("C07.defaults.signature", callee, "mismatch:missing_function", "function", {"function": fname}); continue
        params = list(inspect.signature(fn).parameters.values())
        names = [p.name for p in params]
        want = list(req) + [p for p, _ in opt]
        rep.evaluations += 1
        rep.flag("defaults_signature_checked:" + fname)
        if sorted(names) != sorted(want):
            odd = sorted(set(names) ^ set(want))
            rep.violation("C07.defaults.signature", callee, "mismatch:parameter_set", odd[0], {"documented": want, "found": names}); continue
        if names != want:
            first = [w for w, n in zip(want, names) if w != n][0]
            rep.violation("C07.defaults.signature", callee, "mismatch:parameter_order", first, {"documented": want, "found": names})
        byname = {p.name: p for p in params}
        for p, d in opt:
            rep.evaluations += 1
            got = byname[p].default
            if got is inspect.Parameter.empty:
                rep.violation("C07.defaults.signature", callee, "mismatch:default_value", p, {"documented_default": d, "found": "no default (required)"})
            elif type(got) != type(d) or got != d:
                rep.violation("C07.defaults.signature", callee, "mismatch:default_value", p, {"documented_default": d, "found": repr(got)})
        for p in req:
            if byname[p].default is not inspect.Parameter.empty:
                rep.count("defaults_required_parameter_has_a_default")       # harmless for callers: counted, not reported


def _defaults_engine_selftest(M, rep):
    """the engine must report a wrapper whose default / parameter order differs from the documented one, and stay silent on the original"""
    A = M.attributes
    pts, faces = [[0, 0, 0], [3, 0, 0], [0, 2, 0], [4, 3, 1]], [(0, 1, 2), (1, 3, 2)]
    build = lambda: F.build_surface(pts, faces)
    wrong = {
        "omitted=persistent": lambda mesh, name="degree", persistent=False, dense=True: A.degree(mesh, name=name, persistent=persistent, dense=dense),
        "omitted=dense": lambda mesh, name="degree", persistent=True, dense=False: A.degree(mesh, name=name, persistent=persistent, dense=dense),
        "omitted=name": lambda mesh, name="deg", persistent=True, dense=True: A.degree(mesh, name=name, persistent=persistent, dense=dense),
        "position2=persistent": lambda mesh, name="degree", dense=True, persistent=True: A.degree(mesh, name=name, persistent=persistent, dense=dense),
    }
    for want, fn in sorted(wrong.items()):
        scratch = _ScratchReport()
        found = {}
        defaults_engine(M, scratch, found, "degree", fn, build, "selftest", count=False)
        defaults_flush(scratch, found)
        if want not in [v[3] for v in scratch.violations]:
            rep.count("oracle_selftest_failures"); rep.notes.append(f"oracle selftest failed: defaults engine missed a wrapper with {want}: {scratch.violations}")
    w = lambda mesh, n=1: A.mean_edge_length(mesh, n)
    scratch, found = _ScratchReport(), {}
    defaults_engine(M, scratch, found, "mean_edge_length", w, build, "selftest", count=False)
    defaults_flush(scratch, found)
    if "omitted=n" not in [v[3] for v in scratch.violations]:
        rep.count("oracle_selftest_failures"); rep.notes.append("oracle selftest failed: defaults engine missed mean_edge_length(n=1)")
    assert _obs_diff({"outcome": "ok", "value": [1.0, 2.0]}, {"outcome": "ok", "value": [1.0, 2.0 + 1e-13]}) is None
    assert _obs_diff({"outcome": "ok", "value": [1.0, 2.0]}, {"outcome": "ok", "value": [1.0, 2.5]}) == "value"
    assert _obs_diff({"outcome": "ok", "return_type": "Attribute"}, {"outcome": "ok", "return_type": "ArrayAttribute"}) == "return_type"
    assert _obs_diff({"value": float("nan")}, {"value": float("nan")}) is None and _obs_diff({"value": 1}, {"value": True}) == "value"
    rep.flag("defaults_engine_selftest_ran")


class _ScratchReport:
    """stand-in for a Report: only remembers violations (used by the self-test of the defaults engine)"""
    def __init__(self):
        self.violations = []
        self.transitions = self.evaluations = 0
    def violation(self, *a):
        self.violations.append(a)
    def flag(self, name):
        pass
    def count(self, name, n=1):
        pass


def run_defaults(task, rep: Report):
    import mouette as M
    A = M.attributes
    if task.get("what") == "signature":
        defaults_signature_guard(M, rep)
        _defaults_engine_selftest(M, rep)
        return
    volume = task.get("what") == "volume"
    found = {}
    for name, pts, elems in task["meshes"]:
        elems = [tuple(e) for e in elems]
        build = (lambda: F.build_volume(pts, elems)) if volume else (lambda: F.build_surface(pts, elems))
        rep.traces += 1
        rep.case(("defaults", pts, elems, task["functions"]))
        for fname in task["functions"]:
            defaults_engine(M, rep, found, fname, getattr(A, fname), build, {"mesh": name, "points": pts, "cells" if volume else "faces": [list(e) for e in elems]})
    defaults_flush(rep, found)


# ================================================================================================ entry points
# ------------------------------------------------------------------------------------- non-convex planar polygons
# Face quantities (area, normal, barycentre, their sums and means) on planar simple polygons with reflex corners.
# The textbook area is the shoelace / vector-area formula (exact rationals). The library defines the area of a
# face with >= 5 corners as a triangle fan around its barycentre, so the inputs are restricted by an exact
# predicate to polygons that are star-shaped with respect to their barycentre (others are counted and skipped);
# every such polygon is listed from each of its corners (the listing must not matter) and glued to a triangle.
NOTCHED = [
    [(0, 0), (4, 0), (4, 4), (2, 3), (0, 4)],
    [(0, 0), (6, 0), (6, 4), (3, 3), (0, 4)],
    [(0, 0), (3, 1), (6, 0), (6, 5), (3, 4), (0, 5)],
    [(0, 0), (8, 0), (8, 6), (6, 6), (4, 5), (2, 6), (0, 6)],
    [(0, 0), (4, 0), (4, 4), (2, 1), (0, 4)],          # NOT star-shaped from its barycentre: must be filtered
]


def _star_from_barycentre(pts):
    k = len(pts)
    b = X.barycenter(pts)
    vec2 = X.polygon_area_vector2(pts)
    return all(X.dot(X.cross(X.sub(pts[i], b), X.sub(pts[(i + 1) % k], b)), vec2) > 0 for i in range(k))


def run_notched(task, rep: Report):
    import mouette as M
    A = M.attributes
    for ip, poly in enumerate(NOTCHED):
        for aff in L.AFFINE:
            base = L.affine([(x, y, 0) for x, y in poly], aff)
            k = len(base)
            pts_exact = [X.F(p) for p in base]
            if not _star_from_barycentre(pts_exact):
                rep.count("notched_filtered_not_star_shaped_from_barycentre")
                continue
            for rot in range(k):
                order = [(rot + i) % k for i in range(k)]
                for glue in (False, True):
                    pts = list(base)
                    faces = [tuple(order)]
                    if glue:        # a triangle across the side (0,1) of the polygon, on the other side of it
                        a, b = pts_exact[0], pts_exact[1]
                        c = X.sub(X.add(a, b), pts_exact[2])
                        pts = pts + [tuple(c)]
                        faces.append((1, 0, k))
                    m = F.build_surface([tuple(float(x) for x in q) for q in pts], faces)
                    rep.traces += 1
                    vec2 = X.polygon_area_vector2(pts_exact)
                    want_area = L._sqrt_fr(X.sqnorm(vec2)) / 2
                    icls = f"planar_nonconvex_{k}gon:star_shaped_from_barycentre"
                    det = {"points": [[float(x) for x in q] for q in pts], "faces": [list(f) for f in faces]}
                    o = call(lambda: A.face_area(m, persistent=False))
                    rep.evaluations += 1
                    if not o.ok:
                        rep.violation("C07.face_area.definition", "attributes.face_area", exc_kind(o), icls, dict(det, msg=o.msg)); continue
                    got = float(o.value[0])
                    rep.outcome("notched_area", round(got, 6))
                    if not X.close(got, want_area, 1e-9):
                        rep.violation("C07.face_area.definition", "attributes.face_area", "mismatch:value", icls,
                                      dict(det, got=got, want=float(want_area), listing_rotation=rot))
                    o = call(lambda: A.face_normals(m, persistent=False))
                    rep.evaluations += 1
                    if o.ok:
                        n = [float(x) for x in o.value[0]]
                        nrm = float(L._sqrt_fr(X.sqnorm(vec2)))
                        want_n = [float(x) / nrm for x in vec2]
                        if not X.vclose(n, want_n, 1e-9, 1e-9):
                            rep.violation("C07.face_normals.definition", "attributes.face_normals", "mismatch:value", icls,
                                          dict(det, got=n, want=want_n, listing_rotation=rot))
                    else:
                        rep.violation("C07.face_normals.definition", "attributes.face_normals", exc_kind(o), icls, dict(det, msg=o.msg))
                    o = call(lambda: A.total_area(m))
                    rep.evaluations += 1
                    tri = 0
                    if glue:
                        tri = L._sqrt_fr(X.sqnorm(X.polygon_area_vector2([X.F(pts[1]), X.F(pts[0]), X.F(pts[k])]))) / 2
                    if o.ok and not X.close(float(o.value), float(want_area + tri), 1e-9):
                        rep.violation("C07.total_area.definition", "attributes.total_area", "mismatch:value", icls,
                                      dict(det, got=float(o.value), want=float(want_area + tri), listing_rotation=rot))
                    rep.case(("notched", ip, aff, rot, glue))
                    rep.flag("notched_polygon_checked")


def run_task(task, rep: Report):
    ph = task["phase"]
    if ph == "selftest":
        errs = L.selftest()
        for e in errs:
            rep.notes.append("oracle selftest failed: " + e)
        rep.count("oracle_selftest_failures", len(errs))
        rep.flag("oracle_selftest_ran")
        # the oracle's polygon area against the shoelace formula on every convex lattice polygon of the family
        for k in (4, 5, 6, 7, 8):
            for cyc in L.convex_lattice_polygons(CONVEX_GRID, k):
                v = X.polygon_area_vector2([X.F((x, y, 0)) for x, y in cyc])
                if v != (0, 0, L.shoelace2(cyc)) or L.shoelace2(cyc) <= 0:
                    rep.count("oracle_selftest_failures"); rep.notes.append(f"oracle selftest failed: shoelace {cyc}")
        if [len(L.convex_lattice_polygons(CONVEX_GRID, k)) for k in (4, 5, 6, 7, 8)] != [89, 84, 41, 4, 1]:
            rep.count("oracle_selftest_failures"); rep.notes.append("oracle selftest failed: sizes of the convex lattice polygon family")
        assert _opt_class({_okey({"a": 1, "b": 2})}, {_okey({"a": x, "b": y}) for x in (1, 2) for y in (1, 2)}) == "a=1,b=2"
        assert _opt_class({_okey({"a": 1, "b": y}) for y in (1, 2)}, {_okey({"a": x, "b": y}) for x in (1, 2) for y in (1, 2)}) == "a=1"
        assert _opt_class({_okey({"a": x, "b": 1}) for x in (1, 2)}, {_okey({"a": x, "b": y}) for x in (1, 2, 3) for y in (1, 2)}) == "a=1|2,b=1"
    elif ph == "opts":
        run_opts(task, rep)
    elif ph == "partners":
        run_partners(task, rep)
    elif ph == "bfs":
        run_bfs(task, rep)
    elif ph == "interp":
        run_interp(task, rep)
    elif ph == "vol_opts":
        run_vol_opts(task, rep)
    elif ph == "vol_partners":
        run_vol_partners(task, rep)
    elif ph == "vol_bfs":
        run_vol_bfs(task, rep)
    elif ph == "labelled":
        run_labelled(task, rep)
    elif ph == "vol_labelled":
        run_vol_labelled(task, rep)
    elif ph == "notched":
        run_notched(task, rep)
    elif ph == "deform":
        run_deform(task, rep)
    elif ph == "vol_deform":
        run_vol_deform(task, rep)
    elif ph == "convex":
        run_convex(task, rep)
    elif ph == "defaults":
        run_defaults(task, rep)
    else:
        raise ValueError(ph)


def finish(tier, rep: Report):
    fails = []
    if "oracle_selftest_ran" not in rep.flags or rep.counters.get("oracle_selftest_failures", 0):
        fails.append("oracle self-test did not run or failed: " + "; ".join(rep.notes[:5]))
    for f in ("closed", "bordered", "class:tri", "class:quad", "class:poly", "class:mixed", "bfs_multi_state", "vol_bfs_multi_state",
              "gauss_bonnet_chi=2", "gauss_bonnet_chi=1", "gauss_bonnet_chi=0"):
        if f not in rep.flags:
            fails.append("coverage flag missing: " + f)
    for c in ("filtered_ill_corner", "filtered_nonplanar_or_nonconvex"):
        if not rep.counters.get(c):
            fails.append(f"filter {c} never fired (its inputs are missing)")
    if rep.counters.get("premise_failed"):
        fails.append("oracle premise failed on some meshes: " + "; ".join(rep.notes[:3]))
    for f in ("unit:2^-20", "unit:2^20", "interp_unit:2^-20", "interp_unit:2^20", "deformation_changed_an_angle", "deformation_changed_a_volume",
              "convex_shape:quad:parallelogram", "convex_shape:quad:trapezoid", "convex_shape:quad:kite", "convex_shape:quad:irregular",
              "convex_shape:poly:irregular", "convex_shape:poly:centrally_symmetric"):
        if f not in rep.flags:
            fails.append("coverage flag missing: " + f)
    if rep.counters.get("convex_shapes") != len(_convex_shapes(tier)) or (tier == "thorough" and rep.counters.get("convex_shapes") != 219):
        fails.append(f"convex polygon family: {rep.counters.get('convex_shapes')} shapes ran, {len(_convex_shapes(tier))} expected")
    # ---- far from the origin: every placement of the tier ran in every phase that carries it, on every face arity; the exactness filter fired
    for k, j in _far_of(tier):
        for pre in ("far:", "far_partner:", "vol_far:", "vol_far_partner:", "interp_far:"):
            if pre + _far_label(k, j) not in rep.flags:
                fails.append("far from the origin: coverage flag missing: " + pre + _far_label(k, j))
    for f in ("far_class:tri", "far_class:quad", "far_class:poly", "far_class:mixed"):
        if f not in rep.flags:
            fails.append("far from the origin: coverage flag missing: " + f)
    for c in ("far_opts_meshes", "far_vol_meshes", "far_partner_meshes", "far_convex_meshes", "far_filtered_inexact_coordinates"):
        if not rep.counters.get(c):
            fails.append(f"far from the origin: counter {c} is zero (the family did not run / the exactness filter never fired)")
    # ---- kept result objects: re-read after later calls on the same geometry (every event kind of the BFS), after a deformation, after a similarity
    for ev in sorted(set(e[0] for e in SURF_EVENTS)):
        if "kept_after:" + ev not in rep.flags:
            fails.append("kept results: never re-read after a later call of " + ev)
    for ev in sorted(set(e[0] for e in VOL_EVENTS)):
        if "vol_kept_after:" + ev not in rep.flags:
            fails.append("kept results (volumes): never re-read after a later call of " + ev)
    for d in SIMILARITIES:
        for f in ("similarity_history:" + d[0], "vol_similarity_history:" + d[0]):
            if f not in rep.flags:
                fails.append("coverage flag missing: " + f)
    for c in ("kept_results_reread", "kept_after_deformation_checks", "vol_kept_after_deformation_checks"):
        if not rep.counters.get(c):
            fails.append(f"kept results: counter {c} is zero")
    if rep.counters.get("deformation_left_the_points_unchanged"):
        fails.append("a deformation left the points unchanged (the history clause would be vacuous)")
    if not rep.counters.get("deform_recalls_judged"):
        fails.append("no call after a deformation was judged")
    # ---- default values: every entry of the pinned table was exercised in each form, and told apart from another value
    if "defaults_engine_selftest_ran" not in rep.flags:
        fails.append("the self-test of the defaults engine did not run")
    for fname, (req, opt) in sorted(DOC_SIGNATURE.items()):
        need = ["defaults_signature_checked:" + fname] + ([f"defaults_all_omitted:{fname}"] if opt else [])
        for p, _ in opt:
            need += [f"defaults_omitted:{fname}.{p}", f"defaults_positional:{fname}.{p}", f"defaults_discriminated:{fname}.{p}"]
        for f in need:
            if f not in rep.flags:
                fails.append("default values: coverage flag missing: " + f)
    for kind in ("edge_length", "face_area", "corner_angles", "cotangent", "angle_defects", "vertex_normals", "vol:cell_volume", "degree"):
        if len(rep.outcomes.get(kind, ())) < 2:
            fails.append(f"{kind} produced a single distinct outcome")
    return fails
