"""C05 - attributes are total maps with defaults; sparse and dense storage agree (S1, lockstep triple).

One real container carries a sparse attribute ``s`` (``Attribute``: dict + default) and a dense attribute
``d`` (``ArrayAttribute``: (n,k) array) with identical parameters.  Every history of public calls up to
the depth bound is executed on fresh real objects (prefixes are replayed, never copied) while a reference
model - one plain Python list of k-tuples per storage, written from the property statement - is stepped in
lockstep.  Sparse and dense are never compared with each other directly: each is compared with its own
model, and the two models are the same function of the history except where the statement leaves the
answer open (the entry whose read value was mutated in place may read the old or the new value).

Clauses of the statement -> subchecks
    C05.total_map            every index 0..n-1 answers (no exception) on both storages
    C05.last_written         an index reads the last value written there
    C05.default_read         a never-written / cleared / freshly appended index reads the default (k components)
    C05.isolation            an event changes no index it did not write
    C05.read_isolation       mutating a value obtained by reading entry i changes no other entry / the default
    C05.accept               values of the attribute type or narrower (bool->int->float), exact arity: accepted
    C05.reject               wider / foreign type, wrong arity, mixed components: rejected by both storages
    C05.accept_reject_agree  numpy-typed values: sparse and dense take the same decision
    C05.inplace_update       a[i] op= delta works on written and never-written entries, both storages
    C05.write_back           a[i] = a[j] (a value the attribute handed out) is accepted
    C05.dense.out_of_bounds  dense get/set at -1, n, n+1 raise OutOfBoundsError and change nothing
    C05.growth               append / += list / += container / += self do not raise
    C05.growth_aligned       afterwards len(container) == dense n_elem == dense rows; old entries unchanged
    C05.clear                attr.clear() -> every index reads the default
    C05.as_array             array export equals the model, same shape for sparse and dense
    C05.recreate             delete_attribute + create_attribute after growth gives an aligned all-default attribute

A storage whose real state has left its model because of a reported violation is *dropped* from the
experiment (deleted from the container; its model becomes None) and the exploration continues with the other
storage, so one defect gives one fingerprint instead of poisoning every later state.
"""
from __future__ import annotations
import copy, operator
from collections import deque
from mc.core import Report, call
from mc.canon import canon

ID = "C05"
TECHNIQUE = "explicit-state BFS over call histories of the real container+attributes vs reference lists"
RULE = ("explicit-state BFS over all histories (set valid / set invalid / set numpy-typed / set out-of-range / get / "
        "in-place update / read-then-mutate / copy entry / append / += list / += container / += self / clear / "
        "as_array / delete_attribute / create_attribute) up to the depth bound, from container sizes 0 and 2, for "
        "the five value types x arity {1,2} x default {implicit,custom} x {DataContainer, CornerDataContainer}; one "
        "sparse and one dense attribute with identical parameters live in the same container and are compared "
        "with a reference list of k-tuples each; a case is one distinct (canonical dump of the real container, "
        "models, written-flags) state; non-trivial = at least one entry written or the container grown")
ASSUMPTIONS = [
    "per-type value alphabets of 2 exact values, every narrower type, every non-castable python type, None, "
    "wrong arities, mixed-component vectors, one numpy-typed value (agreement only); see alphabet() in the driver",
    "container growth capped at n0+2 (quick) / n0+3 (thorough) elements; depth bound as given in coverage.bounds; "
    "every history below the bounds is explored (no sampling)",
    "writes to a sparse attribute at an index outside the container are not performed (the statement only "
    "defines them for the dense storage)",
    "a dense as_array() that aliases the live buffer is recorded (outcome label) but not treated as a violation: "
    "the statement does not say the export is a copy",
    "exception classes of rejections are not compared (the statement fixes only OutOfBoundsError for the dense "
    "bounds check); numpy-typed values are only required to be treated alike by both storages",
    "after a reported violation the storage concerned is dropped and the search continues with the other one",
]
BOUNDS = {
    "quick": "80 configurations (2 containers x 5 types x arity 1,2 x implicit/custom default x size 0,2): all histories "
             "of <= 3 events, <= 4 events for DataContainer of size 2; 2 long-string configurations <= 3 events; "
             "container growth capped at n0+2",
    "thorough": "the same 80 configurations: all histories of <= 5 events, growth capped at n0+3; 20 configurations "
                "(DataContainer, size 2) with the reduced event menu: <= 6 events, growth capped at 4; 2 long-string "
                "configurations <= 4 events",
}

PYT = {"bool": bool, "int": int, "float": float, "complex": complex, "str": str}
TYPES = ["bool", "int", "float", "complex", "str"]
DEFAULT = {"bool": False, "int": 0, "float": 0.0, "complex": 0j, "str": ""}
CUSTOM = {"bool": True, "int": 7, "float": 2.5, "complex": 1 + 1j, "str": "z"}
DELTA = {"bool": True, "int": 1, "float": 0.5, "complex": 1j, "str": "x"}
EXACT = {"bool": [True, False], "int": [3, 1], "float": [1.5, 0.5], "complex": [2j, 1j], "str": ["a", "x"]}
CHAIN = ["bool", "int", "float"]          # widening order; complex and str are isolated
LONG = "L" * 33                            # one character more than the dense '<U32' cell


def narrower_types(T):
    return CHAIN[:CHAIN.index(T)][::-1] if T in CHAIN else []      # nearest first


def non_castable_types(T):
    ok = set(narrower_types(T)) | {T}
    return [U for U in TYPES if U not in ok]


def rel(U, T):
    if T in CHAIN and U in CHAIN and CHAIN.index(U) > CHAIN.index(T):
        return "wider"
    return "foreign"


def alphabet(T, k, variant, menu):
    """-> dict(accept=[(label, factory, all_indices)], reject=[(label, factory)], agree=[(label, factory)]).
    Factories return a FRESH object each time (values may be mutable)."""
    import numpy as np
    e1, e2 = EXACT[T]
    if variant == "long":
        e2 = LONG
    npt = {"bool": np.bool_, "int": np.int64, "float": np.float64, "complex": np.complex128, "str": np.str_}[T]
    acc, rej, agr = [], [], []
    nar = narrower_types(T)
    bad = non_castable_types(T)
    if k == 1:
        acc.append(("exact", lambda: e1, True))
        acc.append(("exact", lambda: e2, True))
        for U in nar:
            acc.append((f"narrower:{U}", (lambda U=U: EXACT[U][0]), U == nar[0]))
        for U in bad:
            rej.append((f"{rel(U, T)}:{U}", (lambda U=U: EXACT[U][0])))
        rej.append(("foreign:NoneType", lambda: None))
        rej.append(("arity:list_of_1", lambda: [e1]))
        rej.append(("arity:list_of_2", lambda: [e1, e2]))
        agr.append(("np_scalar", lambda: npt(e1)))
    else:
        acc.append(("exact:list", lambda: [e1, e2], True))
        acc.append(("exact:tuple", lambda: (e2, e1), False))
        for U in nar:
            acc.append((f"narrower:{U}:list", (lambda U=U: [EXACT[U][0], EXACT[U][1]]), U == nar[0]))
        if nar:
            U = nar[0]
            acc.append((f"mixed_valid:{U}_then_exact", (lambda U=U: [EXACT[U][0], e1]), False))
            acc.append((f"mixed_valid:exact_then_{U}", (lambda U=U: [e1, EXACT[U][0]]), False))
        for U in bad:
            rej.append((f"{rel(U, T)}:{U}:list", (lambda U=U: [EXACT[U][0], EXACT[U][1]])))
        # a component that is not castable hidden behind a valid first component (value chosen so that a
        # silent cast would also change it: 2 -> True, 2.5 -> 2, 1j -> ?, 2.5 -> complex, 1 -> '1')
        hid = {"bool": 2, "int": 2.5, "float": 1j, "complex": 2.5, "str": 1}[T]
        rej.append(("mixed_invalid:exact_then_noncastable", lambda: [e1, hid]))
        rej.append(("mixed_invalid:noncastable_then_exact", lambda: [hid, e1]))
        rej.append(("arity:short", lambda: [e1]))
        rej.append(("arity:long", lambda: [e1, e2, e1]))
        rej.append(("arity:empty", lambda: []))
        rej.append(("arity:scalar", lambda: e1))
        agr.append(("np_array", lambda: np.array([e1, e2])))
    if menu == "reduced":
        acc = [a for a in acc if a[2]][:2]
        rej = rej[:1]
        agr = []
    return dict(accept=acc, reject=rej, agree=agr)


def tasks(tier):
    out = []
    grow = {"quick": 2, "thorough": 3}[tier]
    for cont in ("DataContainer", "CornerDataContainer"):
        for T in TYPES:
            for k in (1, 2):
                for dflt in ("implicit", "custom"):
                    for n0 in (0, 2):
                        if tier == "quick":
                            depth = 4 if (cont == "DataContainer" and n0 == 2) else 3
                        else:
                            depth = 5
                        out.append({"container": cont, "type": T, "arity": k, "default": dflt, "n0": n0,
                                    "depth": depth, "nmax": n0 + grow, "variant": "std", "menu": "full"})
    for k in (1, 2):
        out.append({"container": "DataContainer", "type": "str", "arity": k, "default": "implicit", "n0": 2,
                    "depth": {"quick": 3, "thorough": 4}[tier], "nmax": 2 + grow, "variant": "long", "menu": "full"})
    if tier == "thorough":
        for T in TYPES:
            for k in (1, 2):
                for dflt in ("implicit", "custom"):
                    out.append({"container": "DataContainer", "type": T, "arity": k, "default": dflt, "n0": 2,
                                "depth": 6, "nmax": 4, "variant": "std", "menu": "reduced"})
    # most expensive first, so that the pool stays balanced (results are merged in this fixed order)
    weight = {"float": 0, "int": 1, "str": 2, "bool": 3, "complex": 4}
    out.sort(key=lambda t: (-t["depth"], t["menu"] != "full", weight[t["type"]], -t["n0"]))
    return out


# ------------------------------------------------------------------------------------------------
def item(x):
    import numpy as np
    if isinstance(x, np.generic):
        return x.item()
    return x


def pyval(v, k):
    """value handed to __setitem__ -> model entry (tuple of k python scalars)"""
    if k == 1:
        return (item(v),)
    return tuple(item(x) for x in v)


def eq(a, b):
    try:
        return bool(a == b)
    except Exception:
        return False


def cmp_read(r, m, k):
    """None if the value `r` read from the real attribute is the model entry `m`; else a mismatch kind."""
    import numpy as np
    shp = np.shape(r)
    if k == 1:
        if shp != ():
            return "mismatch:shape"
        return None if eq(r, m[0]) else "mismatch:value"
    if shp == ():
        return "mismatch:shape" if all(eq(r, x) for x in m) else "mismatch:value"
    if shp != (k,):
        return "mismatch:shape"
    return None if all(eq(r[j], m[j]) for j in range(k)) else "mismatch:value"


def model_op(T, m):
    d = DELTA[T]
    if T == "bool":
        return tuple(bool(x) ^ d for x in m)
    return tuple(x + d for x in m)


def real_iop(T, x):
    if T == "bool":
        return operator.ixor(x, DELTA[T])
    return operator.iadd(x, DELTA[T])


NAMES = {"s": "s", "d": "d"}
CLS = {"s": "Attribute", "d": "ArrayAttribute"}


class St:
    """real container + the two attributes + per-storage reference model"""

    def __init__(self, cfg):
        from mouette.mesh.data_container import DataContainer, CornerDataContainer
        self.cfg = cfg
        self.T, self.k = cfg["type"], cfg["arity"]
        self.custom = cfg["default"] == "custom"
        self.dv = (CUSTOM[self.T] if self.custom else DEFAULT[self.T])
        self.dflt = (self.dv,) * self.k
        self.corner = cfg["container"] == "CornerDataContainer"
        n0 = cfg["n0"]
        if self.corner:
            self.c = CornerDataContainer([self._elem() for _ in range(n0)], [7] * n0, id="corners")
        else:
            self.c = DataContainer([self._elem() for _ in range(n0)], id="elems")
        self.n = n0
        self.alive = {"s": True, "d": True}
        self.has_attr = False
        self.m = {"s": None, "d": None}
        self.w = {"s": None, "d": None}
        self.last = None
        self.init_fail = []
        self.create(lambda X, o: self.init_fail.append((X, o.exc, o.msg)))

    def _elem(self):
        return 5          # element values are irrelevant to the attributes: identical ones let states merge

    def attr(self, X):
        return self.c.get_attribute(NAMES[X])

    def live(self):
        return [X for X in ("s", "d") if self.alive[X]]

    def create(self, on_fail):
        for X in self.live():
            o = call(self.c.create_attribute, NAMES[X], PYT[self.T], self.k, dense=(X == "d"),
                     default_value=(self.dv if self.custom else None))
            if not o.ok:
                if on_fail:
                    on_fail(X, o)
                self.alive[X] = False
                continue
            self.m[X] = [self.dflt] * self.n
            self.w[X] = [False] * self.n
        self.has_attr = True

    def kill(self, X):
        if self.alive[X]:
            self.alive[X] = False
            self.m[X] = None
            self.w[X] = None
            if self.c.has_attribute(NAMES[X]):
                self.c.delete_attribute(NAMES[X])

    def grow_model(self, m):
        self.n += m
        if self.has_attr:
            for X in self.live():
                self.m[X] = self.m[X] + [self.dflt] * m
                self.w[X] = self.w[X] + [False] * m


def state_key(st: St):
    sparse_types = None
    if st.alive["s"] and st.has_attr:
        dd = st.attr("s")._data
        sparse_types = tuple(sorted((i, type(v).__name__) for i, v in dd.items()))
    # the Type enum member of each attribute is fixed at creation: dumped by name instead of member-by-member
    tnames = tuple(sorted((nm, a.type.name) for nm, a in st.c._attr.items()))
    return ((canon(st.c, skip_attrs=("type",)), tnames, st.n, st.has_attr, st.alive["s"], st.alive["d"],
                None if st.m["s"] is None else tuple(map(repr, st.m["s"])),
                None if st.m["d"] is None else tuple(map(repr, st.m["d"])),
                None if st.w["s"] is None else tuple(st.w["s"]),
                None if st.w["d"] is None else tuple(st.w["d"]), sparse_types))


# ------------------------------------------------------------------------------------------------
class Run:
    def __init__(self, task, rep: Report):
        self.task = task
        self.rep = rep
        self.T, self.k = task["type"], task["arity"]
        self.alpha = alphabet(self.T, self.k, task["variant"], task["menu"])
        self.ar = "arity1" if self.k == 1 else "arity>1"
        self.reported = {}
        self.hist = ()            # history being extended (for details)

    # -- reporting -------------------------------------------------------------------------------
    def viol(self, sub, callee, kind, icls, detail):
        fp = (sub, callee, kind, icls)
        c = self.reported.get(fp, 0)
        self.reported[fp] = c + 1
        if c >= 2:                # the BFS order makes the first one the shortest; keep the report small
            return
        d = {"config": {x: self.task[x] for x in ("container", "type", "arity", "default", "n0")},
             "history": [self.show(e) for e, _ in self.hist if e is not None]}
        d.update(detail)
        self.rep.violation(sub, callee, kind, icls, d)

    def show(self, ev):
        ev = list(ev)
        if ev[0] in ("set", "set_bad", "set_agree"):
            grp = {"set": "accept", "set_bad": "reject", "set_agree": "agree"}[ev[0]]
            ent = self.alpha[grp][ev[2]]
            return [ev[0], ev[1], ent[0], repr(ent[1]())]
        if ev[0] == "set_oob":
            return [ev[0], ev[1], repr(self.alpha["accept"][0][1]())]
        return ev

    # -- events ----------------------------------------------------------------------------------
    def events_of(self, st: St):
        if not st.live():
            return []
        n = st.n
        room = self.task["nmax"] - n
        reduced = self.task["menu"] == "reduced"
        evs = []
        if st.has_attr:
            for vi, ent in enumerate(self.alpha["accept"]):
                for i in range(n):
                    if ent[2] or i == 0:
                        evs.append(("set", i, vi))
            if n:
                for vi in range(len(self.alpha["reject"])):
                    evs.append(("set_bad", 0, vi))
                for vi in range(len(self.alpha["agree"])):
                    evs.append(("set_agree", n - 1, vi))
            if st.alive["d"]:
                for off in ((0,) if reduced else (-1, 0, 1)):
                    evs.append(("set_oob", off))          # index = -1 | n | n+1
            for i in range(n):
                evs.append(("get", i))
            for i in range(n):
                evs.append(("rmw", i))
            for i in range(n):
                evs.append(("read_mutate", i))
            if n >= 2:
                evs.append(("copy", 0, 1))
                if not reduced:
                    evs.append(("copy", 1, 0))
            evs.append(("clear",))
            evs.append(("as_array",))
            evs.append(("delete",))
        else:
            evs.append(("create",))
        if room >= 1:
            evs.append(("append",))
            evs.append(("iadd_container", 1))
        if room >= 2 and not reduced:
            evs.append(("extend", 2))
        if not reduced:
            evs.append(("iadd_container", 0))
        if 1 <= n <= room:
            evs.append(("iadd_self",))
        return evs

    def apply(self, st: St, ev, check):
        """Executes `ev` on the real objects and steps the models.  check=False (prefix replay): same real
        calls, same model steps, no reporting and no dropping (the recorded drops are re-applied by the caller).
        Returns the set of storages dropped because of a violation of this event."""
        rep = self.rep
        kind = ev[0]
        T, k = st.T, st.k
        killed = set()
        st.last = {"kind": kind, "i": None, "n_before": st.n,
                   "unset_before": {X: None for X in ("s", "d")}}

        def bad(X, sub, callee, vkind, icls, detail):
            if check:
                self.viol(sub, callee, vkind, icls, dict(detail, event=self.show(ev), storage=CLS.get(X, X)))

        def drop(X):
            if check:
                killed.add(X)
                st.kill(X)

        if check:
            rep.flag("event:" + kind)

        if kind in ("set", "set_bad", "set_agree"):
            i, vi = ev[1], ev[2]
            grp = {"set": "accept", "set_bad": "reject", "set_agree": "agree"}[kind]
            label, fac = self.alpha[grp][vi][0], self.alpha[grp][vi][1]
            st.last["i"] = i
            res = {}
            for X in st.live():
                v = fac()
                o = call(st.attr(X).__setitem__, i, v)
                res[X] = o
                if check:
                    rep.outcome(kind, (label.split(":")[0], "ok" if o.ok else o.exc))
            if kind == "set":
                for X, o in res.items():
                    if o.ok:
                        st.m[X][i] = pyval(fac(), k); st.w[X][i] = True
                        if check:
                            rep.count("accepted")
                    else:
                        bad(X, "C05.accept", CLS[X] + ".__setitem__", "raises:" + o.exc, f"{self.ar}:{label}",
                            {"msg": o.msg})
                        drop(X)
            elif kind == "set_bad":
                for X, o in res.items():
                    if o.ok:
                        bad(X, "C05.reject", CLS[X] + ".__setitem__", "mismatch:accepted", f"{self.ar}:{label}",
                            {"now_reads": repr(call(st.attr(X).__getitem__, i).value)})
                        drop(X)
                    elif check:
                        rep.count("rejected")
            else:
                if len(res) == 2 and res["s"].ok != res["d"].ok:
                    acc = "s" if res["s"].ok else "d"
                    bad(acc, "C05.accept_reject_agree", "Attribute.__setitem__|ArrayAttribute.__setitem__",
                        "mismatch:sparse_accepts_dense_rejects" if acc == "s" else "mismatch:dense_accepts_sparse_rejects",
                        f"{self.ar}:{label}", {"sparse": repr(res["s"]), "dense": repr(res["d"])})
                    drop("s"); drop("d")
                else:
                    for X, o in res.items():
                        if o.ok:
                            st.m[X][i] = pyval(fac(), k); st.w[X][i] = True
                            if check:
                                rep.count("agree_accepted")
                        elif check:
                            rep.count("agree_rejected")

        elif kind == "set_oob":
            i = {-1: -1, 0: st.n, 1: st.n + 1}[ev[1]]
            icls = {-1: "index<0", 0: "index==n", 1: "index>n"}[ev[1]]
            v = self.alpha["accept"][0][1]()
            o = call(st.attr("d").__setitem__, i, v)
            if check:
                rep.outcome("set_oob", (icls, "ok" if o.ok else o.exc))
            if o.ok:
                bad("d", "C05.dense.out_of_bounds", "ArrayAttribute.__getitem__/__setitem__", "mismatch:accepted",
                    icls, {"index": i, "n": st.n})
                drop("d")
            elif o.exc != "OutOfBoundsError":
                bad("d", "C05.dense.out_of_bounds", "ArrayAttribute.__getitem__/__setitem__", "raises:" + o.exc,
                    icls, {"index": i, "n": st.n, "op": "set", "msg": o.msg})
            elif check:
                rep.count("oob_reported")

        elif kind == "get":
            i = ev[1]
            for X in st.live():
                o = call(st.attr(X).__getitem__, i)     # compared by the state invariants; here: side effects only
                if check:
                    rep.outcome("get", (X, type(o.value).__name__ if o.ok else o.exc))

        elif kind == "rmw":
            i = ev[1]
            st.last["i"] = i
            for X in st.live():
                st.last["unset_before"][X] = not st.w[X][i]
                a = st.attr(X)
                new = model_op(T, st.m[X][i])
                o = call(a.__getitem__, i)
                stage, val = "get", None
                if o.ok:
                    x = o.value
                    o = call(real_iop, T, x)
                    stage = "op"
                    if o.ok:
                        val = o.value
                        o = call(a.__setitem__, i, val)
                        stage = "set"
                if check:
                    rep.outcome("rmw", (X, "ok" if o.ok else stage + ":" + o.exc))
                if o.ok:
                    st.m[X][i] = new; st.w[X][i] = True
                    continue
                wrote = "unset_entry" if st.last["unset_before"][X] else "written_entry"
                if stage == "get":
                    bad(X, "C05.total_map", CLS[X] + ".__getitem__", "raises:" + o.exc, "after:" + wrote,
                        {"index": i, "msg": o.msg})
                elif stage == "op":
                    # the object handed out for entry i cannot take `+= delta` with delta of the attribute's type
                    bad(X, "C05.inplace_update", CLS[X] + ".__setitem__", "raises:" + o.exc,
                        f"{self.ar}:{wrote}_holds_{_opclass(x, T)}", {"index": i, "read": repr(x), "msg": o.msg})
                else:
                    bad(X, "C05.write_back", CLS[X] + ".__setitem__", "raises:" + o.exc,
                        "written_back:" + _setclass(val, T), {"index": i, "value": repr(val), "msg": o.msg})
                drop(X)

        elif kind == "read_mutate":
            i = ev[1]
            st.last["i"] = i
            for X in st.live():
                st.last["unset_before"][X] = not st.w[X][i]
                a = st.attr(X)
                o = call(a.__getitem__, i)
                if not o.ok:
                    continue
                o2 = call(real_iop, T, o.value)           # harness-side mutation of the object handed out
                if check:
                    rep.outcome("read_mutate", (X, "ok" if o2.ok else o2.exc))
                back = call(a.__getitem__, i)
                new = model_op(T, st.m[X][i])
                if back.ok and cmp_read(back.value, new, k) is None and cmp_read(back.value, st.m[X][i], k) is not None:
                    st.m[X][i] = new                      # aliased: entry i itself follows (left open by the statement)
                    if check:
                        rep.flag("read_mutate:entry_itself_followed:" + X)

        elif kind == "copy":
            i, j = ev[1], ev[2]
            st.last["i"] = i
            for X in st.live():
                a = st.attr(X)
                o = call(a.__getitem__, j)
                if not o.ok:
                    continue
                x = o.value
                o = call(a.__setitem__, i, x)
                if check:
                    rep.outcome("copy", (X, "ok" if o.ok else o.exc))
                if o.ok:
                    st.m[X][i] = st.m[X][j]; st.w[X][i] = True
                else:
                    bad(X, "C05.write_back", CLS[X] + ".__setitem__", "raises:" + o.exc,
                        "written_back:" + _setclass(x, T), {"from": j, "to": i, "value": repr(x), "msg": o.msg})
                    drop(X)

        elif kind == "clear":
            for X in st.live():
                o = call(st.attr(X).clear)
                if o.ok:
                    st.m[X] = [st.dflt] * st.n; st.w[X] = [False] * st.n
                else:
                    bad(X, "C05.clear", CLS[X] + ".clear", "raises:" + o.exc, self.ar, {"msg": o.msg})
                    drop(X)

        elif kind == "as_array":
            for X in st.live():
                a = st.attr(X)
                o = call(a.as_array, st.n) if X == "s" else call(a.as_array)
                if check:
                    self._check_export(st, X, o, bad, drop)

        elif kind == "delete":
            for X in st.live():
                st.c.delete_attribute(NAMES[X])
                st.m[X] = None; st.w[X] = None
            st.has_attr = False

        elif kind == "create":
            def on_fail(X, o):
                bad(X, "C05.recreate", st.c.__class__.__name__ + ".create_attribute", "raises:" + o.exc, self.ar,
                    {"msg": o.msg})
                killed.add(X)
            st.create(on_fail if check else None)

        elif kind in ("append", "extend", "iadd_container", "iadd_self"):
            C = type(st.c)
            if kind == "append":
                m = 1
                o = call(st.c.append, st._elem(), 7) if st.corner else call(st.c.append, st._elem())
                operand, callee = "one_element", C.__name__ + ".append"
            elif kind == "extend":
                m = ev[1]
                items = [((st._elem(), 7) if st.corner else st._elem()) for _ in range(m)]
                o = call(operator.iadd, st.c, items)
                operand, callee = "list", C.__name__ + ".__iadd__"
            elif kind == "iadd_container":
                m = ev[1]
                el = [st._elem() for _ in range(m)]
                other = C(el, [7] * m) if st.corner else C(el)
                o = call(operator.iadd, st.c, other)
                operand, callee = "container", C.__name__ + ".__iadd__"
            else:
                m = st.n
                o = call(operator.iadd, st.c, st.c)
                operand, callee = "container", C.__name__ + ".__iadd__"     # the container itself
            if check:
                rep.outcome(kind, ("attrs" if st.has_attr else "no_attrs", "ok" if o.ok else o.exc))
            if o.ok:
                st.grow_model(m)
                if check:
                    rep.count("growth_ok")
            else:
                bad("c", "C05.growth", callee, "raises:" + o.exc,
                    f"operand={operand}:" + ("with_attributes" if st.has_attr and st.live() else "no_attributes"),
                    {"msg": o.msg, "len_container_after": len(st.c), "n_before": st.n,
                     "dense_n_elem": (st.attr("d").n_elem if st.has_attr and st.alive["d"] else None)})
                got = len(st.c)
                st.grow_model(got - st.n)
                # the failed call is ONE violation: a storage it left behind is dropped without a second report
                if st.has_attr and st.alive["d"] and st.attr("d").n_elem != got:
                    drop("d")
        else:
            raise AssertionError(ev)
        return killed

    # -- array export ----------------------------------------------------------------------------
    def _check_export(self, st, X, o, bad, drop):
        import numpy as np
        rep = self.rep
        rep.evaluations += 1
        callee = CLS[X] + ".as_array"
        after = "after:" + (st.last["kind"] if st.last else "init")
        if not o.ok:
            bad(X, "C05.as_array", callee, "raises:" + o.exc, self.ar, {"msg": o.msg})
            drop(X)
            return None
        arr = np.asarray(o.value)
        want = [x for row in st.m[X] for x in row]
        flat = arr.reshape(-1).tolist()
        if len(flat) != len(want):
            bad(X, "C05.as_array", callee, "mismatch:size", self.ar, {"got_shape": list(arr.shape), "n": st.n})
            drop(X)
            return None
        if not all(eq(a, b) for a, b in zip(flat, want)):
            if st.T == "str" and any(len(str(b)) > 32 for b in want):
                bad(X, "C05.last_written", callee, "mismatch:truncated", "str:len>32", {"got": flat})
            else:
                bad(X, "C05.as_array", callee, "mismatch:value", self.ar + ":" + after, {"got": flat, "want": want})
            drop(X)
            return None
        if X == "d":
            rep.outcome("as_array:dense_aliases_live_buffer", bool(arr.size and np.shares_memory(arr, st.attr("d")._data)))
        return arr

    # -- state invariants ------------------------------------------------------------------------
    def invariants(self, st0: St, ev):
        """Every clause that is a function of the state, evaluated on a deep copy of the real container
        (reads can initialise the lazy default).  Returns the storages to drop."""
        rep = self.rep
        st = st0
        c = copy.deepcopy(st.c)
        last = st.last or {"kind": "init", "i": None, "n_before": st.n, "unset_before": {"s": None, "d": None}}
        evk = last["kind"]
        wi = last["i"]
        n, k, T = st.n, st.k, st.T
        killed = set()
        evshow = self.show(ev) if ev is not None else None

        def bad(X, sub, callee, vkind, icls, detail):
            self.viol(sub, callee, vkind, icls, dict(detail, event=evshow, storage=CLS.get(X, X)))

        def drop(X):
            killed.add(X)

        rep.evaluations += 1
        lc = call(len, c)
        if not lc.ok or lc.value != n or c.size != n:
            bad("c", "C05.growth_aligned", type(c).__name__ + ".__len__", "mismatch:len", "after:" + evk,
                {"got": repr(lc), "want": n})
        if not st.has_attr:
            return killed
        growth = evk in ("append", "extend", "iadd_container", "iadd_self")
        for X in st.live():
            a = c.get_attribute(NAMES[X])
            nb = last["n_before"]
            for i in range(n):
                rep.evaluations += 1
                o = call(a.__getitem__, i)
                m = st.m[X][i]
                if not o.ok:
                    if growth and i >= nb:
                        bad(X, "C05.growth_aligned", CLS[X] + ".__getitem__", "raises:" + o.exc, "after:" + evk + ":new_entry",
                            {"index": i, "n": n, "msg": o.msg})
                    else:
                        bad(X, "C05.total_map", CLS[X] + ".__getitem__", "raises:" + o.exc, "after:" + evk,
                            {"index": i, "n": n, "msg": o.msg})
                    drop(X)
                    continue
                why = cmp_read(o.value, m, k)
                if why is None:
                    continue
                det = {"index": i, "got": repr(o.value), "want": list(m)}
                if why == "mismatch:shape" and not st.w[X][i] and k > 1 and cmp_read(o.value, (st.dv,), 1) is None:
                    bad(X, "C05.default_read", CLS[X] + ".__getitem__", "mismatch:shape",
                        "arity>1:" + ("custom" if st.custom else "implicit") + "_default:never_written_entry", det)
                elif evk in ("rmw", "read_mutate") and i != wi:
                    bad(X, "C05.read_isolation", CLS[X] + ".__getitem__", "side_effect:other_entries_changed",
                        f"{self.ar}:mutated_value_read_from_" + ("never_written_entry" if last["unset_before"][X] else "written_entry"),
                        dict(det, mutated_entry=wi))
                elif T == "str" and st.w[X][i] and any(len(x) > 32 for x in m) and cmp_read(o.value, tuple(x[:32] for x in m), k) is None:
                    bad(X, "C05.last_written", CLS[X] + ".__setitem__", "mismatch:truncated", "str:len>32", det)
                elif growth and i >= nb:
                    bad(X, "C05.growth_aligned", CLS[X] + ".__getitem__", why, "after:" + evk + ":new_entry", det)
                elif evk == "clear":
                    bad(X, "C05.clear", CLS[X] + ".clear", why, self.ar, det)
                elif evk == "create":
                    bad(X, "C05.recreate", type(c).__name__ + ".create_attribute", why, self.ar, det)
                elif i == wi:
                    bad(X, "C05.last_written", CLS[X] + ".__getitem__", why, f"{self.ar}:after:{evk}", det)
                elif not st.w[X][i] and evk == "init":
                    bad(X, "C05.default_read", CLS[X] + ".__getitem__", why, f"{self.ar}:fresh_attribute", det)
                else:
                    bad(X, "C05.isolation", CLS[X] + ".__getitem__", why, f"{self.ar}:after:{evk}", dict(det, written=wi))
                drop(X)
            if X in killed:
                continue
            # the attribute's default must still be the one it was created with
            o = call(lambda: a.default_value)
            if o.ok and not _is_default(o.value, st.dflt, k):
                if evk in ("rmw", "read_mutate"):
                    bad(X, "C05.read_isolation", CLS[X] + ".__getitem__", "side_effect:other_entries_changed",
                        f"{self.ar}:mutated_value_read_from_" + ("never_written_entry" if last["unset_before"][X] else "written_entry"),
                        {"default_value_now": repr(o.value), "want": list(st.dflt), "mutated_entry": wi})
                else:
                    bad(X, "C05.default_read", CLS[X] + ".default_value", "mismatch:value", f"{self.ar}:after:{evk}",
                        {"default_value_now": repr(o.value), "want": list(st.dflt)})
                drop(X)
                continue
            if X == "d":
                # alignment with the container
                rows = a._data.shape
                if a.n_elem != n or len(a) != n or tuple(rows) != (n, k):
                    cname = type(c).__name__
                    callee = {"append": cname + ".append", "extend": cname + ".__iadd__", "iadd_container": cname + ".__iadd__",
                              "iadd_self": cname + ".__iadd__", "create": cname + ".create_attribute",
                              "init": cname + ".create_attribute"}.get(evk, "ArrayAttribute." + evk)
                    bad(X, "C05.growth_aligned", callee, "mismatch:n_elem", "after:" + evk,
                        {"n_elem": a.n_elem, "rows": list(rows), "len_container": n})
                    drop(X)
                    continue
                # every index outside the container, the size included, is reported as out of bounds
                for i, icls in ((-1, "index<0"), (n, "index==n"), (n + 1, "index>n")):
                    rep.evaluations += 1
                    o = call(a.__getitem__, i)
                    rep.outcome("get_oob", (icls, "ok" if o.ok else o.exc))
                    if o.ok:
                        bad(X, "C05.dense.out_of_bounds", "ArrayAttribute.__getitem__/__setitem__", "mismatch:answered",
                            icls, {"index": i, "n": n, "got": repr(o.value)})
                    elif o.exc != "OutOfBoundsError":
                        bad(X, "C05.dense.out_of_bounds", "ArrayAttribute.__getitem__/__setitem__", "raises:" + o.exc,
                            icls, {"index": i, "n": n, "op": "get", "msg": o.msg})
                    else:
                        rep.count("oob_reported")
        # array export of both storages: values = model, same shape
        exported = {}
        for X in st.live():
            if X in killed:
                continue
            a = c.get_attribute(NAMES[X])
            o = call(a.as_array, n) if X == "s" else call(a.as_array)
            exported[X] = self._check_export_inv(st, X, o, bad, drop, a)
        if exported.get("s") is not None and exported.get("d") is not None:
            if exported["s"].shape != exported["d"].shape:
                bad("s", "C05.as_array", "Attribute.as_array|ArrayAttribute.as_array", "mismatch:shape", self.ar,
                    {"sparse": list(exported["s"].shape), "dense": list(exported["d"].shape)})
        return killed

    def _check_export_inv(self, st, X, o, bad, drop, a):
        # same comparison as the event, on the copied container
        import numpy as np
        self.rep.evaluations += 1
        callee = CLS[X] + ".as_array"
        if not o.ok:
            bad(X, "C05.as_array", callee, "raises:" + o.exc, self.ar, {"msg": o.msg}); drop(X)
            return None
        arr = np.asarray(o.value)
        want = [x for row in st.m[X] for x in row]
        flat = arr.reshape(-1).tolist()
        if len(flat) != len(want):
            bad(X, "C05.as_array", callee, "mismatch:size", self.ar, {"got_shape": list(arr.shape), "n": st.n}); drop(X)
            return None
        if not all(eq(p, q) for p, q in zip(flat, want)):
            if st.T == "str" and any(len(str(q)) > 32 for q in want):
                bad(X, "C05.last_written", callee, "mismatch:truncated", "str:len>32", {"got": flat})
            else:
                bad(X, "C05.as_array", callee, "mismatch:value", self.ar, {"got": flat, "want": want})
            drop(X)
            return None
        if X == "d":
            self.rep.outcome("as_array:dense_aliases_live_buffer", bool(arr.size and np.shares_memory(arr, a._data)))
        return arr

    # -- search ----------------------------------------------------------------------------------
    def replay(self, hist):
        st = St(self.task)
        for ev, kills in hist:
            if ev is not None:
                self.apply(st, ev, False)
            for X in kills:
                st.kill(X)
        return st

    def explore(self):
        rep = self.rep
        depth = self.task["depth"]
        seen = set()
        states = transitions = 0
        st = St(self.task)
        k0 = state_key(st)
        seen.add(k0)
        self.hist = ((None, ()),)
        for X, exc, msg in st.init_fail:
            self.viol("C05.recreate", type(st.c).__name__ + ".create_attribute", "raises:" + exc, self.ar + ":initial",
                      {"storage": CLS[X], "msg": msg})
        kills = self.invariants(st, None)
        for X in kills:
            st.kill(X)
        if kills:
            k0 = state_key(st); seen.add(k0)
        states += 1
        self._note_state(st, ())
        h0 = ((None, tuple(sorted(kills))),)
        frontier = deque([(h0, k0)])
        while frontier:
            hist, kk = frontier.popleft()
            st = self.replay(hist)
            if state_key(st) != kk:
                raise RuntimeError(f"replay divergence: history {hist!r} does not lead back to its recorded state")
            evs = self.events_of(st)
            nev = len(hist) - 1
            reusable = True
            for ev in evs:
                if not reusable:
                    st = self.replay(hist)
                self.hist = hist + ((ev, ()),)
                killed = self.apply(st, ev, True)
                transitions += 1
                k1 = state_key(st)
                # an event that left the canonical state (real objects incl. aliasing pattern + models) exactly
                # as it was needs no fresh replay before the next event: same key => same futures
                reusable = (k1 == kk) and not killed
                if k1 in seen:
                    continue
                seen.add(k1)
                k2s = self.invariants(st, ev)
                if k2s:
                    for X in k2s:
                        st.kill(X)
                    k1 = state_key(st)
                    if k1 in seen:
                        continue
                    seen.add(k1)
                states += 1
                newh = hist + ((ev, tuple(sorted(killed | k2s))),)
                self._note_state(st, newh)
                if nev + 1 < depth and st.live():
                    frontier.append((newh, k1))
        rep.states += states
        rep.transitions += transitions
        rep.traces += transitions
        return states, transitions

    def _note_state(self, st, hist):
        rep = self.rep
        nontrivial = st.n != self.task["n0"] or any(st.w[X] and any(st.w[X]) for X in ("s", "d"))
        if nontrivial:
            rep.case((tuple(sorted(self.task.items())), tuple(e for e, _ in hist)))
        if len(hist) == 4 and nontrivial:
            rep.sample({"config": self.task, "history": [self.show(e) for e, _ in hist if e is not None]})
        for X in st.live():
            if st.has_attr:
                rep.flag(f"alive:{X}:{self.ar}:{self.task['default']}")
                if st.n > self.task["n0"]:
                    rep.flag("grown_with_attr:" + X)
        if not st.has_attr:
            rep.flag("state:no_attributes")
        if st.n == 0:
            rep.flag("state:empty_container")


_KIND = {"b": "bool", "i": "int", "u": "int", "f": "float", "c": "complex", "U": "str"}


def _comp_kind(x):
    import numpy as np
    if isinstance(x, (np.ndarray, np.generic)):
        return "numpy_" + _KIND.get(x.dtype.kind, x.dtype.kind)
    return "python_" + type(x).__name__


def _setclass(x, T):
    """coarse class of a value the attribute itself handed out and __setitem__ is then asked to take back"""
    ck = _comp_kind(x)
    if ck == "numpy_" + T:
        return "numpy_typed_value_of_attribute_type(" + ("complex|str" if T in ("complex", "str") else "bool|int|float") + ")"
    return f"{ck}_into_{T}"


def _opclass(x, T):
    """coarse class of an object handed out by __getitem__ that refuses `op= delta`"""
    import numpy as np
    if isinstance(x, np.ndarray):
        want = np.dtype({"bool": np.bool_, "int": np.int64, "float": np.float64, "complex": np.complex128, "str": "<U32"}[T])
        return "vector_of_attribute_dtype" if x.dtype == want else "vector_of_other_dtype_than_attribute"
    return _comp_kind(x)


def _is_default(v, dflt, k):
    if cmp_read(v, dflt, k) is None:
        return True
    return k > 1 and cmp_read(v, dflt[:1], 1) is None      # a scalar default of a k-vector attribute is its own matter


# ------------------------------------------------------------------------------------------------
def run_task(task, rep: Report):
    import mouette  # noqa: F401  (binds the repository under test)
    r = Run(task, rep)
    states, transitions = r.explore()
    rep.count("states:" + task["container"], states)
    rep.count(f"states:{task['type']}:k{task['arity']}", states)
    rep.count("configs")
    rep.flag("type:" + task["type"])
    rep.flag("container:" + task["container"])


def finish(tier, rep: Report):
    fails = []
    want_cfg = len(tasks(tier))
    ran = rep.counters.get("configs", 0)
    if ran < 80:
        return fails                                     # --only run: the guards below are about the full sweep
    if ran != want_cfg:
        fails.append(f"expected {want_cfg} configurations, ran {ran}")
    for T in TYPES:
        if "type:" + T not in rep.flags:
            fails.append("type never explored: " + T)
    for f in ("container:DataContainer", "container:CornerDataContainer", "state:no_attributes", "state:empty_container",
              "grown_with_attr:s", "grown_with_attr:d", "alive:s:arity>1:implicit", "alive:d:arity>1:custom",
              "alive:s:arity1:custom", "alive:d:arity1:implicit"):
        if f not in rep.flags:
            fails.append("coverage flag missing: " + f)
    for kind in ("set", "set_bad", "set_agree", "set_oob", "get", "rmw", "read_mutate", "copy", "clear", "as_array",
                 "delete", "create", "append", "extend", "iadd_container", "iadd_self"):
        if "event:" + kind not in rep.flags:
            fails.append("event kind never executed: " + kind)
    for kind in ("set_bad", "rmw", "get_oob", "set_oob", "get"):
        if len(rep.outcomes.get(kind, ())) < 2:
            fails.append(f"event kind {kind} produced a single outcome")
    for cnt in ("accepted", "rejected", "growth_ok", "oob_reported"):
        if rep.counters.get(cnt, 0) == 0:
            fails.append("never observed: " + cnt)
    return fails
