"""C05 - attributes are total maps with defaults; sparse and dense storage agree (S1, lockstep triple).

One real container carries a sparse attribute ``s`` (``Attribute``: dict + default) and a dense attribute
``d`` (``ArrayAttribute``: (n,k) array) with identical parameters.  Every history of public calls up to
the depth bound is executed on fresh real objects (prefixes are replayed, never copied) while a reference
model - one plain Python list of k-tuples per storage, written from the property statement - is stepped in
lockstep.  Sparse and dense are never compared with each other directly: each is compared with its own
model, and the two models are the same function of the history except where the statement leaves the
answer open (the entry whose read value was mutated in place may read the old or the new value).

Clauses of the statement -> subchecks
    C05.total_map            every index 0..n-1 answers (no exception) on both storages
    C05.last_written         an index reads the last value written there
    C05.default_read         a never-written / cleared / freshly appended index reads the default (k components)
    C05.isolation            an event changes no index it did not write
    C05.read_isolation       mutating a value obtained by reading entry i changes no other entry / the default
    C05.accept               values of the attribute type or narrower (bool->int->float), exact arity: accepted
    C05.reject               wider / foreign type, wrong arity, mixed components: rejected by both storages
    C05.accept_reject_agree  numpy-typed values: sparse and dense take the same decision
    C05.inplace_update       a[i] op= delta works on written and never-written entries, both storages
    C05.write_back           a[i] = a[j] (a value the attribute handed out) is accepted
    C05.dense.out_of_bounds  dense get/set at -1, n, n+1 raise OutOfBoundsError and change nothing
    C05.growth               append / += list / += container / += self do not raise
    C05.growth_aligned       afterwards len(container) == dense n_elem == dense rows; old entries unchanged
    C05.operand_unchanged    the container handed to += stays a value of its own: later growth of the receiver (or of the
                             operand) never changes the other one; its own dense attribute stays aligned
    C05.clear                attr.clear() -> every index reads the default
    C05.as_array             array export equals the model, same shape for sparse and dense
    C05.recreate             delete_attribute + create_attribute after growth gives an aligned all-default attribute
    C05.defaults.signature   the parameter order and the default of every optional parameter of create_attribute, Attribute,
                             ArrayAttribute, DataContainer, CornerDataContainer, Type.default_value are the documented ones
    C05.defaults.omitted     an option left out (each alone next to every combination of the others; all defaulted ones
                             together) gives the object described by the documented default
    C05.defaults.keyword     every option (and every required argument) passed by its documented name
    C05.defaults.positional  options passed by position in the documented order (all; every prefix + keywords / nothing)
    C05.last_written         (str:len==32) a string of exactly the documented cell width, 32 characters, is kept whole
    C05.index_forms          a numpy integer index addresses the same entry as the python int (write, read, dense bounds)

A storage whose real state has left its model because of a reported violation is *dropped* from the
experiment (deleted from the container; its model becomes None) and the exploration continues with the other
storage, so one defect gives one fingerprint instead of poisoning every later state.
"""
from __future__ import annotations
import copy, operator
from collections import deque
from mc.core import Report, call
from mc.canon import canon

ID = "C05"
TECHNIQUE = "explicit-state BFS over call histories of the real container+attributes vs reference lists"
RULE = ("explicit-state BFS over all histories (set valid / set invalid / set numpy-typed / set out-of-range / get / "
        "in-place update / read-then-mutate / copy entry / append / += list / += container / += self / += a kept second "
        "container / append to that second container / clear / "
        "as_array / delete_attribute / create_attribute) up to the depth bound, from container sizes 0 and 2, for "
        "the five value types x arity {1,2} x default {implicit,custom} x {DataContainer, CornerDataContainer}; one "
        "sparse and one dense attribute with identical parameters live in the same container and are compared "
        "with a reference list of k-tuples each; a case is one distinct (canonical dump of the real container, "
        "models, written-flags) state; non-trivial = at least one entry written or the container grown. "
        "Call forms: every public entry point with optional parameters (create_attribute of both containers, the two "
        "attribute constructors, the two container constructors, Type.default_value) is called with every assignment of "
        "{documented default, another value} to its options, written in every form (all by keyword, each defaulted option "
        "omitted alone, all defaulted options omitted, all by position, every positional prefix followed by keywords or by "
        "nothing); the object obtained is probed (storage class, rows, reads, one write, growth by one element, export) "
        "against the description computed from the pinned table of documented defaults; a case is one (entry point, "
        "type, size, assignment, form)")
ASSUMPTIONS = [
    "per-type value alphabets of 2 exact values, every narrower type, every non-castable python type, None, "
    "wrong arities, mixed-component vectors, one numpy-typed value (agreement only); see alphabet() in the driver",
    "container growth capped at n0+2 (quick) / n0+3 (thorough) elements; depth bound as given in coverage.bounds; "
    "every history below the bounds is explored (no sampling)",
    "writes to a sparse attribute at an index outside the container are not performed (the statement only "
    "defines them for the dense storage)",
    "a dense as_array() that aliases the live buffer is recorded (outcome label) but not treated as a violation: "
    "the statement does not say the export is a copy",
    "exception classes of rejections are not compared (the statement fixes only OutOfBoundsError for the dense "
    "bounds check); numpy-typed values are only required to be treated alike by both storages",
    "after a reported violation the storage concerned is dropped and the search continues with the other one",
    "documented defaults and parameter order = table DOC_SIGNATURES in the driver, copied from the signatures and "
    "docstrings of the unchanged tree (never read from the library at run time); a library signature that differs from "
    "it is reported as a violation (C05.defaults.signature). `size` of create_attribute is only ever given the size of "
    "the container (any other value contradicts the alignment the statement demands); a CornerDataContainer is given "
    "both of its lists or none; re-creating an attribute under an existing name is not exercised (the documentation of "
    "config.display_duplicate_attribute_warning and of create_attribute disagree on what it does)",
    "a multi-option omission (or a positional prefix with omitted tail) that fails is not reported again when one of the "
    "omitted options already fails when omitted alone with the same values of the others (same defect, culprit known)",
]
BOUNDS = {
    "quick": "80 configurations (2 containers x 5 types x arity 1,2 x implicit/custom default x size 0,2): all histories "
             "of <= 3 events, <= 4 events for DataContainer of size 2; 2 long-string configurations <= 3 events; 4 extreme-value "
             "configurations (int 2^31 and 2^53+1, float 5e-324 and the largest double; arity 1,2) <= 3 events; "
             "container growth capped at n0+2; call forms: 5 types x 7 entry points x container sizes 0,3 x every "
             "assignment x every form (3561 calls); numpy integer indices of 4 types x 5 types x 2 storages x arity 1,2",
    "thorough": "the same 80 configurations: all histories of <= 5 events, growth capped at n0+3; 20 configurations "
                "(DataContainer, size 2) with the reduced event menu: <= 6 events, growth capped at 4; 2 long-string "
                "configurations <= 4 events; call forms as quick with container sizes 0,1,3,4",
}

PYT = {"bool": bool, "int": int, "float": float, "complex": complex, "str": str}
TYPES = ["bool", "int", "float", "complex", "str"]
DEFAULT = {"bool": False, "int": 0, "float": 0.0, "complex": 0j, "str": ""}
CUSTOM = {"bool": True, "int": 7, "float": 2.5, "complex": 1 + 1j, "str": "z"}
DELTA = {"bool": True, "int": 1, "float": 0.5, "complex": 1j, "str": "x"}
EXACT = {"bool": [True, False], "int": [3, 1], "float": [1.5, 0.5], "complex": [2j, 1j], "str": ["a", "x"]}
CHAIN = ["bool", "int", "float"]          # widening order; complex and str are isolated
# values at the ends of the ranges the storages promise (int: beyond 32 bits and beyond the 53-bit mantissa of a double;
# float: smallest subnormal and largest finite double); every one of them is exactly representable in the dense cell type
EXTREME = {"int": [2 ** 31, 2 ** 53 + 1], "float": [5e-324, 1.7976931348623157e308]}
LONG = "L" * 33                            # one character more than the dense '<U32' cell


def narrower_types(T):
    return CHAIN[:CHAIN.index(T)][::-1] if T in CHAIN else []      # nearest first


def non_castable_types(T):
    ok = set(narrower_types(T)) | {T}
    return [U for U in TYPES if U not in ok]


def rel(U, T):
    if T in CHAIN and U in CHAIN and CHAIN.index(U) > CHAIN.index(T):
        return "wider"
    return "foreign"


def alphabet(T, k, variant, menu):
    """-> dict(accept=[(label, factory, all_indices)], reject=[(label, factory)], agree=[(label, factory)]).
    Factories return a FRESH object each time (values may be mutable)."""
    import numpy as np
    e1, e2 = EXACT[T]
    if variant == "long":
        e2 = LONG
    if variant == "extreme":
        e1, e2 = EXTREME[T]
    npt = {"bool": np.bool_, "int": np.int64, "float": np.float64, "complex": np.complex128, "str": np.str_}[T]
    acc, rej, agr = [], [], []
    nar = narrower_types(T)
    bad = non_castable_types(T)
    if k == 1:
        acc.append(("exact", lambda: e1, True))
        acc.append(("exact", lambda: e2, True))
        for U in nar:
            acc.append((f"narrower:{U}", (lambda U=U: EXACT[U][0]), U == nar[0]))
        for U in bad:
            rej.append((f"{rel(U, T)}:{U}", (lambda U=U: EXACT[U][0])))
        rej.append(("foreign:NoneType", lambda: None))
        rej.append(("arity:list_of_1", lambda: [e1]))
        rej.append(("arity:list_of_2", lambda: [e1, e2]))
        agr.append(("np_scalar", lambda: npt(e1)))
    else:
        acc.append(("exact:list", lambda: [e1, e2], True))
        acc.append(("exact:tuple", lambda: (e2, e1), False))
        for U in nar:
            acc.append((f"narrower:{U}:list", (lambda U=U: [EXACT[U][0], EXACT[U][1]]), U == nar[0]))
        if nar:
            U = nar[0]
            acc.append((f"mixed_valid:{U}_then_exact", (lambda U=U: [EXACT[U][0], e1]), False))
            acc.append((f"mixed_valid:exact_then_{U}", (lambda U=U: [e1, EXACT[U][0]]), False))
        for U in bad:
            rej.append((f"{rel(U, T)}:{U}:list", (lambda U=U: [EXACT[U][0], EXACT[U][1]])))
        # a component that is not castable hidden behind a valid first component (value chosen so that a
        # silent cast would also change it: 2 -> True, 2.5 -> 2, 1j -> ?, 2.5 -> complex, 1 -> '1')
        hid = {"bool": 2, "int": 2.5, "float": 1j, "complex": 2.5, "str": 1}[T]
        rej.append(("mixed_invalid:exact_then_noncastable", lambda: [e1, hid]))
        rej.append(("mixed_invalid:noncastable_then_exact", lambda: [hid, e1]))
        rej.append(("arity:short", lambda: [e1]))
        rej.append(("arity:long", lambda: [e1, e2, e1]))
        rej.append(("arity:empty", lambda: []))
        rej.append(("arity:scalar", lambda: e1))
        agr.append(("np_array", lambda: np.array([e1, e2])))
    if menu == "reduced":
        acc = [a for a in acc if a[2]][:2]
        rej = rej[:1]
        agr = []
    return dict(accept=acc, reject=rej, agree=agr)


def tasks(tier):
    out = []
    grow = {"quick": 2, "thorough": 3}[tier]
    for cont in ("DataContainer", "CornerDataContainer"):
        for T in TYPES:
            for k in (1, 2):
                for dflt in ("implicit", "custom"):
                    for n0 in (0, 2):
                        if tier == "quick":
                            depth = 4 if (cont == "DataContainer" and n0 == 2) else 3
                        else:
                            depth = 5
                        out.append({"container": cont, "type": T, "arity": k, "default": dflt, "n0": n0,
                                    "depth": depth, "nmax": n0 + grow, "variant": "std", "menu": "full"})
    for k in (1, 2):
        out.append({"container": "DataContainer", "type": "str", "arity": k, "default": "implicit", "n0": 2,
                    "depth": {"quick": 3, "thorough": 4}[tier], "nmax": 2 + grow, "variant": "long", "menu": "full"})
    for T in sorted(EXTREME):
        for k in (1, 2):
            out.append({"container": "DataContainer", "type": T, "arity": k, "default": "implicit", "n0": 2,
                        "depth": {"quick": 3, "thorough": 4}[tier], "nmax": 2 + grow, "variant": "extreme", "menu": "full"})
    if tier == "thorough":
        for T in TYPES:
            for k in (1, 2):
                for dflt in ("implicit", "custom"):
                    out.append({"container": "DataContainer", "type": T, "arity": k, "default": dflt, "n0": 2,
                                "depth": 6, "nmax": 4, "variant": "std", "menu": "reduced"})
    # most expensive first, so that the pool stays balanced (results are merged in this fixed order)
    weight = {"float": 0, "int": 1, "str": 2, "bool": 3, "complex": 4}
    out.sort(key=lambda t: (-t["depth"], t["menu"] != "full", weight[t["type"]], -t["n0"]))
    # documented defaults and call forms (cheap; after the histories so that the pool order of those is unchanged)
    out.append({"kind": "signatures"})
    for T in TYPES:
        out.append({"kind": "defaults", "type": T, "sizes": {"quick": [0, 3], "thorough": [0, 1, 3, 4]}[tier]})
    return out


# ------------------------------------------------------------------------------------------------
def item(x):
    import numpy as np
    if isinstance(x, np.generic):
        return x.item()
    return x


def pyval(v, k):
    """value handed to __setitem__ -> model entry (tuple of k python scalars)"""
    if k == 1:
        return (item(v),)
    return tuple(item(x) for x in v)


def eq(a, b):
    try:
        return bool(a == b)
    except Exception:
        return False


def cmp_read(r, m, k):
    """None if the value `r` read from the real attribute is the model entry `m`; else a mismatch kind."""
    import numpy as np
    shp = np.shape(r)
    if k == 1:
        if shp != ():
            return "mismatch:shape"
        return None if eq(r, m[0]) else "mismatch:value"
    if shp == ():
        return "mismatch:shape" if all(eq(r, x) for x in m) else "mismatch:value"
    if shp != (k,):
        return "mismatch:shape"
    return None if all(eq(r[j], m[j]) for j in range(k)) else "mismatch:value"


def model_op(T, m):
    d = DELTA[T]
    if T == "bool":
        return tuple(bool(x) ^ d for x in m)
    return tuple(x + d for x in m)


def real_iop(T, x):
    if T == "bool":
        return operator.ixor(x, DELTA[T])
    return operator.iadd(x, DELTA[T])


NAMES = {"s": "s", "d": "d"}
CLS = {"s": "Attribute", "d": "ArrayAttribute"}


class St:
    """real container + the two attributes + per-storage reference model"""

    def __init__(self, cfg):
        from mouette.mesh.data_container import DataContainer, CornerDataContainer
        self.cfg = cfg
        self.T, self.k = cfg["type"], cfg["arity"]
        self.custom = cfg["default"] == "custom"
        self.dv = (CUSTOM[self.T] if self.custom else DEFAULT[self.T])
        self.dflt = (self.dv,) * self.k
        self.corner = cfg["container"] == "CornerDataContainer"
        n0 = cfg["n0"]
        if self.corner:
            self.c = CornerDataContainer([self._elem() for _ in range(n0)], [7] * n0, id="corners")
        else:
            self.c = DataContainer([self._elem() for _ in range(n0)], id="elems")
        self.n = n0
        # a second container of the same class that stays alive over the whole history: handed to `+=` as the operand and
        # grown on its own; it carries a dense attribute of its own, so its alignment is observable
        C = type(self.c)
        self.op = C([self._elem()], [7], id="operand") if self.corner else C([self._elem()], id="operand")
        self.op_n = 1
        self.op.create_attribute("op_dense", float, 1, dense=True)
        self.alive = {"s": True, "d": True}
        self.has_attr = False
        self.m = {"s": None, "d": None}
        self.w = {"s": None, "d": None}
        self.last = None
        self.init_fail = []
        self.create(lambda X, o: self.init_fail.append((X, o.exc, o.msg)))

    def _elem(self):
        return 5          # element values are irrelevant to the attributes: identical ones let states merge

    def attr(self, X):
        return self.c.get_attribute(NAMES[X])

    def live(self):
        return [X for X in ("s", "d") if self.alive[X]]

    def create(self, on_fail):
        for X in self.live():
            o = call(self.c.create_attribute, NAMES[X], PYT[self.T], self.k, dense=(X == "d"),
                     default_value=(self.dv if self.custom else None))
            if not o.ok:
                if on_fail:
                    on_fail(X, o)
                self.alive[X] = False
                continue
            self.m[X] = [self.dflt] * self.n
            self.w[X] = [False] * self.n
        self.has_attr = True

    def kill(self, X):
        if self.alive[X]:
            self.alive[X] = False
            self.m[X] = None
            self.w[X] = None
            if self.c.has_attribute(NAMES[X]):
                self.c.delete_attribute(NAMES[X])

    def grow_model(self, m):
        self.n += m
        if self.has_attr:
            for X in self.live():
                self.m[X] = self.m[X] + [self.dflt] * m
                self.w[X] = self.w[X] + [False] * m


def state_key(st: St):
    sparse_types = None
    if st.alive["s"] and st.has_attr:
        dd = st.attr("s")._data
        sparse_types = tuple(sorted((i, type(v).__name__) for i, v in dd.items()))
    # the Type enum member of each attribute is fixed at creation: dumped by name instead of member-by-member
    tnames = tuple(sorted((nm, a.type.name) for nm, a in st.c._attr.items()))
    return ((canon((st.c, st.op), skip_attrs=("type",)), st.op_n, tnames, st.n, st.has_attr, st.alive["s"], st.alive["d"],
                None if st.m["s"] is None else tuple(map(repr, st.m["s"])),
                None if st.m["d"] is None else tuple(map(repr, st.m["d"])),
                None if st.w["s"] is None else tuple(st.w["s"]),
                None if st.w["d"] is None else tuple(st.w["d"]), sparse_types))


# ------------------------------------------------------------------------------------------------
class Run:
    def __init__(self, task, rep: Report):
        self.task = task
        self.rep = rep
        self.T, self.k = task["type"], task["arity"]
        self.alpha = alphabet(self.T, self.k, task["variant"], task["menu"])
        self.ar = "arity1" if self.k == 1 else "arity>1"
        self.reported = {}
        self.hist = ()            # history being extended (for details)

    # -- reporting -------------------------------------------------------------------------------
    def viol(self, sub, callee, kind, icls, detail):
        fp = (sub, callee, kind, icls)
        c = self.reported.get(fp, 0)
        self.reported[fp] = c + 1
        if c >= 2:                # the BFS order makes the first one the shortest; keep the report small
            return
        d = {"config": {x: self.task[x] for x in ("container", "type", "arity", "default", "n0")},
             "history": [self.show(e) for e, _ in self.hist if e is not None]}
        d.update(detail)
        self.rep.violation(sub, callee, kind, icls, d)

    def show(self, ev):
        ev = list(ev)
        if ev[0] in ("set", "set_bad", "set_agree"):
            grp = {"set": "accept", "set_bad": "reject", "set_agree": "agree"}[ev[0]]
            ent = self.alpha[grp][ev[2]]
            return [ev[0], ev[1], ent[0], repr(ent[1]())]
        if ev[0] == "set_oob":
            return [ev[0], ev[1], repr(self.alpha["accept"][0][1]())]
        return ev

    # -- events ----------------------------------------------------------------------------------
    def events_of(self, st: St):
        if not st.live():
            return []
        n = st.n
        room = self.task["nmax"] - n
        reduced = self.task["menu"] == "reduced"
        evs = []
        if st.has_attr:
            for vi, ent in enumerate(self.alpha["accept"]):
                for i in range(n):
                    if ent[2] or i == 0:
                        evs.append(("set", i, vi))
            if n:
                for vi in range(len(self.alpha["reject"])):
                    evs.append(("set_bad", 0, vi))
                for vi in range(len(self.alpha["agree"])):
                    evs.append(("set_agree", n - 1, vi))
            if st.alive["d"]:
                for off in ((0,) if reduced else (-1, 0, 1)):
                    evs.append(("set_oob", off))          # index = -1 | n | n+1
            for i in range(n):
                evs.append(("get", i))
            for i in range(n):
                evs.append(("rmw", i))
            for i in range(n):
                evs.append(("read_mutate", i))
            if n >= 2:
                evs.append(("copy", 0, 1))
                if not reduced:
                    evs.append(("copy", 1, 0))
            evs.append(("clear",))
            evs.append(("as_array",))
            evs.append(("delete",))
        else:
            evs.append(("create",))
        if room >= 1:
            evs.append(("append",))
            evs.append(("iadd_container", 1))
        if room >= 2 and not reduced:
            evs.append(("extend", 2))
        if not reduced:
            evs.append(("iadd_container", 0))
        if 1 <= n <= room:
            evs.append(("iadd_self",))
        if room >= st.op_n and not reduced:
            evs.append(("iadd_operand",))
        if st.op_n < 2 and not reduced:
            evs.append(("append_operand",))
        return evs

    def apply(self, st: St, ev, check):
        """Executes `ev` on the real objects and steps the models.  check=False (prefix replay): same real
        calls, same model steps, no reporting and no dropping (the recorded drops are re-applied by the caller).
        Returns the set of storages dropped because of a violation of this event."""
        rep = self.rep
        kind = ev[0]
        T, k = st.T, st.k
        killed = set()
        st.last = {"kind": kind, "i": None, "n_before": st.n,
                   "unset_before": {X: None for X in ("s", "d")}}

        def bad(X, sub, callee, vkind, icls, detail):
            if check:
                self.viol(sub, callee, vkind, icls, dict(detail, event=self.show(ev), storage=CLS.get(X, X)))

        def drop(X):
            if check:
                killed.add(X)
                st.kill(X)

        if check:
            rep.flag("event:" + kind)

        if kind in ("set", "set_bad", "set_agree"):
            i, vi = ev[1], ev[2]
            grp = {"set": "accept", "set_bad": "reject", "set_agree": "agree"}[kind]
            label, fac = self.alpha[grp][vi][0], self.alpha[grp][vi][1]
            st.last["i"] = i
            res = {}
            for X in st.live():
                v = fac()
                o = call(st.attr(X).__setitem__, i, v)
                res[X] = o
                if check:
                    rep.outcome(kind, (label.split(":")[0], "ok" if o.ok else o.exc))
            if kind == "set":
                for X, o in res.items():
                    if o.ok:
                        st.m[X][i] = pyval(fac(), k); st.w[X][i] = True
                        if check:
                            rep.count("accepted")
                    else:
                        bad(X, "C05.accept", CLS[X] + ".__setitem__", "raises:" + o.exc, f"{self.ar}:{label}",
                            {"msg": o.msg})
                        drop(X)
            elif kind == "set_bad":
                for X, o in res.items():
                    if o.ok:
                        bad(X, "C05.reject", CLS[X] + ".__setitem__", "mismatch:accepted", f"{self.ar}:{label}",
                            {"now_reads": repr(call(st.attr(X).__getitem__, i).value)})
                        drop(X)
                    elif check:
                        rep.count("rejected")
            else:
                if len(res) == 2 and res["s"].ok != res["d"].ok:
                    acc = "s" if res["s"].ok else "d"
                    bad(acc, "C05.accept_reject_agree", "Attribute.__setitem__|ArrayAttribute.__setitem__",
                        "mismatch:sparse_accepts_dense_rejects" if acc == "s" else "mismatch:dense_accepts_sparse_rejects",
                        f"{self.ar}:{label}", {"sparse": repr(res["s"]), "dense": repr(res["d"])})
                    drop("s"); drop("d")
                else:
                    for X, o in res.items():
                        if o.ok:
                            st.m[X][i] = pyval(fac(), k); st.w[X][i] = True
                            if check:
                                rep.count("agree_accepted")
                        elif check:
                            rep.count("agree_rejected")

        elif kind == "set_oob":
            i = {-1: -1, 0: st.n, 1: st.n + 1}[ev[1]]
            icls = {-1: "index<0", 0: "index==n", 1: "index>n"}[ev[1]]
            v = self.alpha["accept"][0][1]()
            o = call(st.attr("d").__setitem__, i, v)
            if check:
                rep.outcome("set_oob", (icls, "ok" if o.ok else o.exc))
            if o.ok:
                bad("d", "C05.dense.out_of_bounds", "ArrayAttribute.__getitem__/__setitem__", "mismatch:accepted",
                    icls, {"index": i, "n": st.n})
                drop("d")
            elif o.exc != "OutOfBoundsError":
                bad("d", "C05.dense.out_of_bounds", "ArrayAttribute.__getitem__/__setitem__", "raises:" + o.exc,
                    icls, {"index": i, "n": st.n, "op": "set", "msg": o.msg})
            elif check:
                rep.count("oob_reported")

        elif kind == "get":
            i = ev[1]
            for X in st.live():
                o = call(st.attr(X).__getitem__, i)     # compared by the state invariants; here: side effects only
                if check:
                    rep.outcome("get", (X, type(o.value).__name__ if o.ok else o.exc))

        elif kind == "rmw":
            i = ev[1]
            st.last["i"] = i
            for X in st.live():
                st.last["unset_before"][X] = not st.w[X][i]
                a = st.attr(X)
                new = model_op(T, st.m[X][i])
                o = call(a.__getitem__, i)
                stage, val = "get", None
                if o.ok:
                    x = o.value
                    o = call(real_iop, T, x)
                    stage = "op"
                    if o.ok:
                        val = o.value
                        o = call(a.__setitem__, i, val)
                        stage = "set"
                if check:
                    rep.outcome("rmw", (X, "ok" if o.ok else stage + ":" + o.exc))
                if o.ok:
                    st.m[X][i] = new; st.w[X][i] = True
                    continue
                wrote = "unset_entry" if st.last["unset_before"][X] else "written_entry"
                if stage == "get":
                    bad(X, "C05.total_map", CLS[X] + ".__getitem__", "raises:" + o.exc, "after:" + wrote,
                        {"index": i, "msg": o.msg})
                elif stage == "op":
                    # the object handed out for entry i cannot take `+= delta` with delta of the attribute's type
                    bad(X, "C05.inplace_update", CLS[X] + ".__setitem__", "raises:" + o.exc,
                        f"{self.ar}:{wrote}_holds_{_opclass(x, T)}", {"index": i, "read": repr(x), "msg": o.msg})
                else:
                    bad(X, "C05.write_back", CLS[X] + ".__setitem__", "raises:" + o.exc,
                        "written_back:" + _setclass(val, T), {"index": i, "value": repr(val), "msg": o.msg})
                drop(X)

        elif kind == "read_mutate":
            i = ev[1]
            st.last["i"] = i
            for X in st.live():
                st.last["unset_before"][X] = not st.w[X][i]
                a = st.attr(X)
                o = call(a.__getitem__, i)
                if not o.ok:
                    continue
                o2 = call(real_iop, T, o.value)           # harness-side mutation of the object handed out
                if check:
                    rep.outcome("read_mutate", (X, "ok" if o2.ok else o2.exc))
                back = call(a.__getitem__, i)
                new = model_op(T, st.m[X][i])
                if back.ok and cmp_read(back.value, new, k) is None and cmp_read(back.value, st.m[X][i], k) is not None:
                    st.m[X][i] = new                      # aliased: entry i itself follows (left open by the statement)
                    if check:
                        rep.flag("read_mutate:entry_itself_followed:" + X)

        elif kind == "copy":
            i, j = ev[1], ev[2]
            st.last["i"] = i
            for X in st.live():
                a = st.attr(X)
                o = call(a.__getitem__, j)
                if not o.ok:
                    continue
                x = o.value
                o = call(a.__setitem__, i, x)
                if check:
                    rep.outcome("copy", (X, "ok" if o.ok else o.exc))
                if o.ok:
                    st.m[X][i] = st.m[X][j]; st.w[X][i] = True
                else:
                    bad(X, "C05.write_back", CLS[X] + ".__setitem__", "raises:" + o.exc,
                        "written_back:" + _setclass(x, T), {"from": j, "to": i, "value": repr(x), "msg": o.msg})
                    drop(X)

        elif kind == "clear":
            for X in st.live():
                o = call(st.attr(X).clear)
                if o.ok:
                    st.m[X] = [st.dflt] * st.n; st.w[X] = [False] * st.n
                else:
                    bad(X, "C05.clear", CLS[X] + ".clear", "raises:" + o.exc, self.ar, {"msg": o.msg})
                    drop(X)

        elif kind == "as_array":
            for X in st.live():
                a = st.attr(X)
                o = call(a.as_array, st.n) if X == "s" else call(a.as_array)
                if check:
                    self._check_export(st, X, o, bad, drop)

        elif kind == "delete":
            for X in st.live():
                st.c.delete_attribute(NAMES[X])
                st.m[X] = None; st.w[X] = None
            st.has_attr = False

        elif kind == "create":
            def on_fail(X, o):
                bad(X, "C05.recreate", st.c.__class__.__name__ + ".create_attribute", "raises:" + o.exc, self.ar,
                    {"msg": o.msg})
                killed.add(X)
            st.create(on_fail if check else None)

        elif kind == "append_operand":
            o = call(st.op.append, st._elem(), 7) if st.corner else call(st.op.append, st._elem())
            if o.ok:
                st.op_n += 1
            else:
                bad("c", "C05.growth", type(st.op).__name__ + ".append", "raises:" + o.exc, "operand=one_element:kept_operand", {"msg": o.msg})
                st.op_n = len(st.op)

        elif kind in ("append", "extend", "iadd_container", "iadd_self", "iadd_operand"):
            C = type(st.c)
            if kind == "iadd_operand":
                m = st.op_n
                o = call(operator.iadd, st.c, st.op)
                operand, callee = "kept_container", C.__name__ + ".__iadd__"
            elif kind == "append":
                m = 1
                o = call(st.c.append, st._elem(), 7) if st.corner else call(st.c.append, st._elem())
                operand, callee = "one_element", C.__name__ + ".append"
            elif kind == "extend":
                m = ev[1]
                items = [((st._elem(), 7) if st.corner else st._elem()) for _ in range(m)]
                o = call(operator.iadd, st.c, items)
                operand, callee = "list", C.__name__ + ".__iadd__"
            elif kind == "iadd_container":
                m = ev[1]
                el = [st._elem() for _ in range(m)]
                other = C(el, [7] * m) if st.corner else C(el)
                o = call(operator.iadd, st.c, other)
                operand, callee = "container", C.__name__ + ".__iadd__"
            else:
                m = st.n
                o = call(operator.iadd, st.c, st.c)
                operand, callee = "container", C.__name__ + ".__iadd__"     # the container itself
            if check:
                rep.outcome(kind, ("attrs" if st.has_attr else "no_attrs", "ok" if o.ok else o.exc))
            if o.ok:
                st.grow_model(m)
                if check:
                    rep.count("growth_ok")
            else:
                bad("c", "C05.growth", callee, "raises:" + o.exc,
                    f"operand={operand}:" + ("with_attributes" if st.has_attr and st.live() else "no_attributes"),
                    {"msg": o.msg, "len_container_after": len(st.c), "n_before": st.n,
                     "dense_n_elem": (st.attr("d").n_elem if st.has_attr and st.alive["d"] else None)})
                got = len(st.c)
                st.grow_model(got - st.n)
                # the failed call is ONE violation: a storage it left behind is dropped without a second report
                if st.has_attr and st.alive["d"] and st.attr("d").n_elem != got:
                    drop("d")
        else:
            raise AssertionError(ev)
        return killed

    # -- array export ----------------------------------------------------------------------------
    def _check_export(self, st, X, o, bad, drop):
        import numpy as np
        rep = self.rep
        rep.evaluations += 1
        callee = CLS[X] + ".as_array"
        after = "after:" + (st.last["kind"] if st.last else "init")
        if not o.ok:
            bad(X, "C05.as_array", callee, "raises:" + o.exc, self.ar, {"msg": o.msg})
            drop(X)
            return None
        arr = np.asarray(o.value)
        want = [x for row in st.m[X] for x in row]
        flat = arr.reshape(-1).tolist()
        if len(flat) != len(want):
            bad(X, "C05.as_array", callee, "mismatch:size", self.ar, {"got_shape": list(arr.shape), "n": st.n})
            drop(X)
            return None
        if not all(eq(a, b) for a, b in zip(flat, want)):
            if st.T == "str" and any(len(str(b)) > 32 for b in want):
                bad(X, "C05.last_written", callee, "mismatch:truncated", "str:len>32", {"got": flat})
            else:
                bad(X, "C05.as_array", callee, "mismatch:value", self.ar + ":" + after, {"got": flat, "want": want})
            drop(X)
            return None
        if X == "d":
            rep.outcome("as_array:dense_aliases_live_buffer", bool(arr.size and np.shares_memory(arr, st.attr("d")._data)))
        return arr

    # -- state invariants ------------------------------------------------------------------------
    def invariants(self, st0: St, ev):
        """Every clause that is a function of the state, evaluated on a deep copy of the real container
        (reads can initialise the lazy default).  Returns the storages to drop."""
        rep = self.rep
        st = st0
        c = copy.deepcopy(st.c)
        last = st.last or {"kind": "init", "i": None, "n_before": st.n, "unset_before": {"s": None, "d": None}}
        evk = last["kind"]
        wi = last["i"]
        n, k, T = st.n, st.k, st.T
        killed = set()
        evshow = self.show(ev) if ev is not None else None

        def bad(X, sub, callee, vkind, icls, detail):
            self.viol(sub, callee, vkind, icls, dict(detail, event=evshow, storage=CLS.get(X, X)))

        def drop(X):
            killed.add(X)

        rep.evaluations += 1
        lc = call(len, c)
        if not lc.ok or lc.value != n or c.size != n:
            bad("c", "C05.growth_aligned", type(c).__name__ + ".__len__", "mismatch:len", "after:" + evk,
                {"got": repr(lc), "want": n})
        # the container that was (or will be) the operand of += is a value of its own: no event on the receiver changes it,
        # and its own growth keeps its attribute aligned
        op = copy.deepcopy(st.op)
        oa = op.get_attribute("op_dense")
        reads = [call(oa.__getitem__, i) for i in range(st.op_n)]
        if len(op) != st.op_n or op.size != st.op_n or oa.n_elem != st.op_n or tuple(oa._data.shape) != (st.op_n, 1) \
                or not all(o.ok for o in reads):
            bad("c", "C05.operand_unchanged", type(op).__name__ + (".append" if evk == "append_operand" else ".__iadd__"),
                "side_effect:operand_container_changed", "after:" + evk,
                {"len_operand": len(op), "want": st.op_n, "dense_n_elem": oa.n_elem, "rows": list(oa._data.shape),
                 "reads": [("ok" if o.ok else o.exc) for o in reads]})
        if not st.has_attr:
            return killed
        growth = evk in ("append", "extend", "iadd_container", "iadd_self", "iadd_operand")
        for X in st.live():
            a = c.get_attribute(NAMES[X])
            nb = last["n_before"]
            for i in range(n):
                rep.evaluations += 1
                o = call(a.__getitem__, i)
                m = st.m[X][i]
                if not o.ok:
                    if growth and i >= nb:
                        bad(X, "C05.growth_aligned", CLS[X] + ".__getitem__", "raises:" + o.exc, "after:" + evk + ":new_entry",
                            {"index": i, "n": n, "msg": o.msg})
                    else:
                        bad(X, "C05.total_map", CLS[X] + ".__getitem__", "raises:" + o.exc, "after:" + evk,
                            {"index": i, "n": n, "msg": o.msg})
                    drop(X)
                    continue
                why = cmp_read(o.value, m, k)
                if why is None:
                    continue
                det = {"index": i, "got": repr(o.value), "want": list(m)}
                if why == "mismatch:shape" and not st.w[X][i] and k > 1 and cmp_read(o.value, (st.dv,), 1) is None:
                    bad(X, "C05.default_read", CLS[X] + ".__getitem__", "mismatch:shape",
                        "arity>1:" + ("custom" if st.custom else "implicit") + "_default:never_written_entry", det)
                elif evk in ("rmw", "read_mutate") and i != wi:
                    bad(X, "C05.read_isolation", CLS[X] + ".__getitem__", "side_effect:other_entries_changed",
                        f"{self.ar}:mutated_value_read_from_" + ("never_written_entry" if last["unset_before"][X] else "written_entry"),
                        dict(det, mutated_entry=wi))
                elif T == "str" and st.w[X][i] and any(len(x) > 32 for x in m) and cmp_read(o.value, tuple(x[:32] for x in m), k) is None:
                    bad(X, "C05.last_written", CLS[X] + ".__setitem__", "mismatch:truncated", "str:len>32", det)
                elif growth and i >= nb:
                    bad(X, "C05.growth_aligned", CLS[X] + ".__getitem__", why, "after:" + evk + ":new_entry", det)
                elif evk == "clear":
                    bad(X, "C05.clear", CLS[X] + ".clear", why, self.ar, det)
                elif evk == "create":
                    bad(X, "C05.recreate", type(c).__name__ + ".create_attribute", why, self.ar, det)
                elif i == wi:
                    bad(X, "C05.last_written", CLS[X] + ".__getitem__", why, f"{self.ar}:after:{evk}", det)
                elif not st.w[X][i] and evk == "init":
                    bad(X, "C05.default_read", CLS[X] + ".__getitem__", why, f"{self.ar}:fresh_attribute", det)
                else:
                    bad(X, "C05.isolation", CLS[X] + ".__getitem__", why, f"{self.ar}:after:{evk}", dict(det, written=wi))
                drop(X)
            if X in killed:
                continue
            # the attribute's default must still be the one it was created with
            o = call(lambda: a.default_value)
            if o.ok and not _is_default(o.value, st.dflt, k):
                if evk in ("rmw", "read_mutate"):
                    bad(X, "C05.read_isolation", CLS[X] + ".__getitem__", "side_effect:other_entries_changed",
                        f"{self.ar}:mutated_value_read_from_" + ("never_written_entry" if last["unset_before"][X] else "written_entry"),
                        {"default_value_now": repr(o.value), "want": list(st.dflt), "mutated_entry": wi})
                else:
                    bad(X, "C05.default_read", CLS[X] + ".default_value", "mismatch:value", f"{self.ar}:after:{evk}",
                        {"default_value_now": repr(o.value), "want": list(st.dflt)})
                drop(X)
                continue
            if X == "d":
                # alignment with the container
                rows = a._data.shape
                if a.n_elem != n or len(a) != n or tuple(rows) != (n, k):
                    cname = type(c).__name__
                    callee = {"append": cname + ".append", "extend": cname + ".__iadd__", "iadd_container": cname + ".__iadd__",
                              "iadd_self": cname + ".__iadd__", "iadd_operand": cname + ".__iadd__", "create": cname + ".create_attribute",
                              "init": cname + ".create_attribute"}.get(evk, "ArrayAttribute." + evk)
                    bad(X, "C05.growth_aligned", callee, "mismatch:n_elem", "after:" + evk,
                        {"n_elem": a.n_elem, "rows": list(rows), "len_container": n})
                    drop(X)
                    continue
                # every index outside the container, the size included, is reported as out of bounds
                for i, icls in ((-1, "index<0"), (n, "index==n"), (n + 1, "index>n")):
                    rep.evaluations += 1
                    o = call(a.__getitem__, i)
                    rep.outcome("get_oob", (icls, "ok" if o.ok else o.exc))
                    if o.ok:
                        bad(X, "C05.dense.out_of_bounds", "ArrayAttribute.__getitem__/__setitem__", "mismatch:answered",
                            icls, {"index": i, "n": n, "got": repr(o.value)})
                    elif o.exc != "OutOfBoundsError":
                        bad(X, "C05.dense.out_of_bounds", "ArrayAttribute.__getitem__/__setitem__", "raises:" + o.exc,
                            icls, {"index": i, "n": n, "op": "get", "msg": o.msg})
                    else:
                        rep.count("oob_reported")
        # array export of both storages: values = model, same shape
        exported = {}
        for X in st.live():
            if X in killed:
                continue
            a = c.get_attribute(NAMES[X])
            o = call(a.as_array, n) if X == "s" else call(a.as_array)
            exported[X] = self._check_export_inv(st, X, o, bad, drop, a)
        if exported.get("s") is not None and exported.get("d") is not None:
            if exported["s"].shape != exported["d"].shape:
                bad("s", "C05.as_array", "Attribute.as_array|ArrayAttribute.as_array", "mismatch:shape", self.ar,
                    {"sparse": list(exported["s"].shape), "dense": list(exported["d"].shape)})
        return killed

    def _check_export_inv(self, st, X, o, bad, drop, a):
        # same comparison as the event, on the copied container
        import numpy as np
        self.rep.evaluations += 1
        callee = CLS[X] + ".as_array"
        if not o.ok:
            bad(X, "C05.as_array", callee, "raises:" + o.exc, self.ar, {"msg": o.msg}); drop(X)
            return None
        arr = np.asarray(o.value)
        want = [x for row in st.m[X] for x in row]
        flat = arr.reshape(-1).tolist()
        if len(flat) != len(want):
            bad(X, "C05.as_array", callee, "mismatch:size", self.ar, {"got_shape": list(arr.shape), "n": st.n}); drop(X)
            return None
        if not all(eq(p, q) for p, q in zip(flat, want)):
            if st.T == "str" and any(len(str(q)) > 32 for q in want):
                bad(X, "C05.last_written", callee, "mismatch:truncated", "str:len>32", {"got": flat})
            else:
                bad(X, "C05.as_array", callee, "mismatch:value", self.ar, {"got": flat, "want": want})
            drop(X)
            return None
        if X == "d":
            self.rep.outcome("as_array:dense_aliases_live_buffer", bool(arr.size and np.shares_memory(arr, a._data)))
        return arr

    # -- search ----------------------------------------------------------------------------------
    def replay(self, hist):
        st = St(self.task)
        for ev, kills in hist:
            if ev is not None:
                self.apply(st, ev, False)
            for X in kills:
                st.kill(X)
        return st

    def explore(self):
        rep = self.rep
        depth = self.task["depth"]
        seen = set()
        states = transitions = 0
        st = St(self.task)
        k0 = state_key(st)
        seen.add(k0)
        self.hist = ((None, ()),)
        for X, exc, msg in st.init_fail:
            self.viol("C05.recreate", type(st.c).__name__ + ".create_attribute", "raises:" + exc, self.ar + ":initial",
                      {"storage": CLS[X], "msg": msg})
        kills = self.invariants(st, None)
        for X in kills:
            st.kill(X)
        if kills:
            k0 = state_key(st); seen.add(k0)
        states += 1
        self._note_state(st, ())
        h0 = ((None, tuple(sorted(kills))),)
        frontier = deque([(h0, k0)])
        while frontier:
            hist, kk = frontier.popleft()
            st = self.replay(hist)
            if state_key(st) != kk:
                raise RuntimeError(f"replay divergence: history {hist!r} does not lead back to its recorded state")
            evs = self.events_of(st)
            nev = len(hist) - 1
            reusable = True
            for ev in evs:
                if not reusable:
                    st = self.replay(hist)
                self.hist = hist + ((ev, ()),)
                killed = self.apply(st, ev, True)
                transitions += 1
                k1 = state_key(st)
                # an event that left the canonical state (real objects incl. aliasing pattern + models) exactly
                # as it was needs no fresh replay before the next event: same key => same futures
                reusable = (k1 == kk) and not killed
                if k1 in seen:
                    continue
                seen.add(k1)
                k2s = self.invariants(st, ev)
                if k2s:
                    for X in k2s:
                        st.kill(X)
                    k1 = state_key(st)
                    if k1 in seen:
                        continue
                    seen.add(k1)
                states += 1
                newh = hist + ((ev, tuple(sorted(killed | k2s))),)
                self._note_state(st, newh)
                if nev + 1 < depth and st.live():
                    frontier.append((newh, k1))
        rep.states += states
        rep.transitions += transitions
        rep.traces += transitions
        return states, transitions

    def _note_state(self, st, hist):
        rep = self.rep
        nontrivial = st.n != self.task["n0"] or any(st.w[X] and any(st.w[X]) for X in ("s", "d"))
        if nontrivial:
            rep.case((tuple(sorted(self.task.items())), tuple(e for e, _ in hist)))
        if len(hist) == 4 and nontrivial:
            rep.sample({"config": self.task, "history": [self.show(e) for e, _ in hist if e is not None]})
        for X in st.live():
            if st.has_attr:
                rep.flag(f"alive:{X}:{self.ar}:{self.task['default']}")
                if st.n > self.task["n0"]:
                    rep.flag("grown_with_attr:" + X)
        if not st.has_attr:
            rep.flag("state:no_attributes")
        if st.n == 0:
            rep.flag("state:empty_container")


_KIND = {"b": "bool", "i": "int", "u": "int", "f": "float", "c": "complex", "U": "str"}


def _comp_kind(x):
    import numpy as np
    if isinstance(x, (np.ndarray, np.generic)):
        return "numpy_" + _KIND.get(x.dtype.kind, x.dtype.kind)
    return "python_" + type(x).__name__


def _setclass(x, T):
    """coarse class of a value the attribute itself handed out and __setitem__ is then asked to take back"""
    ck = _comp_kind(x)
    if ck == "numpy_" + T:
        return "numpy_typed_value_of_attribute_type(" + ("complex|str" if T in ("complex", "str") else "bool|int|float") + ")"
    return f"{ck}_into_{T}"


def _opclass(x, T):
    """coarse class of an object handed out by __getitem__ that refuses `op= delta`"""
    import numpy as np
    if isinstance(x, np.ndarray):
        want = np.dtype({"bool": np.bool_, "int": np.int64, "float": np.float64, "complex": np.complex128, "str": "<U32"}[T])
        return "vector_of_attribute_dtype" if x.dtype == want else "vector_of_other_dtype_than_attribute"
    return _comp_kind(x)


def _is_default(v, dflt, k):
    if cmp_read(v, dflt, k) is None:
        return True
    return k > 1 and cmp_read(v, dflt[:1], 1) is None      # a scalar default of a k-vector attribute is its own matter


# ------------------------------------------------------------------------------------------------
# documented defaults and call forms
#
# The histories above pass every option of create_attribute explicitly, so the value a keyword takes when it is LEFT OUT,
# and the position an option has when it is passed WITHOUT its name, are not seen by them.  Here every public entry point
# of the property that has optional parameters is called in every form (every option omitted alone next to every
# combination of the others, all defaulted options omitted together, everything by keyword, everything by position,
# every positional prefix followed by keywords or by nothing) and the object obtained is compared with the expectation
# computed from the table below - the DOCUMENTED parameter order and defaults, copied from the signatures / docstrings of
# the unchanged tree and never read from the library at run time.
REQUIRED = "<required>"
_CREATE = [("name", REQUIRED), ("data_type", REQUIRED), ("elem_size", 1), ("dense", False), ("default_value", None),
           ("size", None)]
DOC_SIGNATURES = {
    "DataContainer.create_attribute": _CREATE,
    "CornerDataContainer.create_attribute": _CREATE,
    "Attribute": [("elem_type", REQUIRED), ("elem_size", 1), ("default_value", None)],
    "ArrayAttribute": [("elem_type", REQUIRED), ("n_elem", REQUIRED), ("elem_size", 1), ("default_value", None)],
    "DataContainer": [("data", None), ("attributes", None), ("id", "")],
    "CornerDataContainer": [("elem", None), ("adj", None), ("attributes", None), ("id", "")],
    "Attribute.Type.default_value": [("n", 1)],
}


def _required(callee):
    return [p for p, d in DOC_SIGNATURES[callee] if isinstance(d, str) and d == REQUIRED]


def _optional(callee):
    return [(p, d) for p, d in DOC_SIGNATURES[callee] if not (isinstance(d, str) and d == REQUIRED)]


def _resolve(callee):
    """the function object behind a table entry (its first parameter, self, is not part of the table)"""
    from mouette.mesh.data_container import DataContainer, CornerDataContainer
    from mouette.mesh.mesh_attributes import Attribute, ArrayAttribute
    return {"DataContainer.create_attribute": lambda: DataContainer.create_attribute,
            "CornerDataContainer.create_attribute": lambda: CornerDataContainer.create_attribute,
            "Attribute": lambda: Attribute.__init__,
            "ArrayAttribute": lambda: ArrayAttribute.__init__,
            "DataContainer": lambda: DataContainer.__init__,
            "CornerDataContainer": lambda: CornerDataContainer.__init__,
            "Attribute.Type.default_value": lambda: Attribute.Type.default_value}[callee]()


def _public_name(callee):
    """Two table entries served by one function object (a method inherited from a common base) are one callee: a defect
    in it is reported once, under the first entry."""
    o = call(_resolve, callee)
    if o.ok:
        for other in DOC_SIGNATURES:
            if other == callee:
                break
            o2 = call(_resolve, other)
            if o2.ok and o2.value is o.value:
                return other
    return callee


def _check_signatures(rep: Report):
    """The library's signatures against the pinned table: a default that differs from the documented one, or a documented
    parameter that sits at another position, IS the defect (cheap guard next to the behavioural sweep of the call forms)."""
    import inspect
    seen = []
    for callee, doc in DOC_SIGNATURES.items():
        for p, _ in doc:
            rep.flag(f"defaults:signature:{callee}.{p}")
        rep.transitions += 1
        o = call(lambda: (_resolve(callee), list(inspect.signature(_resolve(callee)).parameters.values())))
        if not o.ok:
            rep.violation("C05.defaults.signature", callee, "raises:" + o.exc, "signature", {"msg": o.msg})
            continue
        fn, params = o.value
        if any(fn is g for g in seen):
            continue                                  # the same function object as an entry already compared
        seen.append(fn)
        params = params[1:]                           # self
        got = [(q.name, REQUIRED if q.default is inspect.Parameter.empty else q.default) for q in params]
        names = [g[0] for g in got]
        det = {"documented": [[a, repr(b)] for a, b in doc], "library": [[a, repr(b)] for a, b in got]}
        for i, (p, d) in enumerate(doc):
            rep.evaluations += 1
            if p not in names:
                rep.violation("C05.defaults.signature", callee, "mismatch:parameter_missing", p, det)
                continue
            if names.index(p) != i:
                rep.violation("C05.defaults.signature", callee, "mismatch:parameter_order", p, det)
            gp = params[names.index(p)]
            if gp.kind is not inspect.Parameter.POSITIONAL_OR_KEYWORD:
                rep.violation("C05.defaults.signature", callee, "mismatch:parameter_kind", p, det)
            gd = got[names.index(p)][1]
            if type(gd) is not type(d) or gd != d:
                rep.violation("C05.defaults.signature", callee, "mismatch:default_value", p, det)
        for p, d in got[len(doc):]:
            if isinstance(d, str) and d == REQUIRED:  # a new parameter without default breaks every documented call
                rep.violation("C05.defaults.signature", callee, "mismatch:new_required_parameter", p, det)
    rep.traces += 1


def _meanings(k):
    """every assignment of 'd' (the documented default) / 'a' (another value) to k options"""
    out = [()]
    for _ in range(k):
        out = [m + (x,) for m in out for x in ("d", "a")]
    return out


def _forms(k, m):
    """Ways of writing the call with meaning m: (style, omitted, positional, keyword) as index tuples.  Only options whose
    value is the documented default may be omitted.  The single omissions come before the joint one."""
    dflt = [i for i in range(k) if m[i] == "d"]
    forms = [("keyword", (), (), tuple(range(k)))]
    for i in dflt:
        forms.append(("omitted", (i,), (), tuple(j for j in range(k) if j != i)))
    if len(dflt) >= 2:
        forms.append(("omitted", tuple(dflt), (), tuple(j for j in range(k) if m[j] == "a")))
    forms.append(("positional", (), tuple(range(k)), ()))
    for t in range(1, k):
        forms.append(("positional", (), tuple(range(t)), tuple(range(t, k))))
    t = k
    while t > 0 and m[t - 1] == "d":
        t -= 1
    if 0 < t < k:                                    # (t == 0 is the call with everything omitted, listed above)
        forms.append(("positional", tuple(range(t, k)), tuple(range(t)), ()))
    return forms


def _sweep(rep: Report, callee, ctx, values, valid, spec, attempt):
    """Every call form of `callee` (table entry) in the context `ctx` (JSON-able, part of the detail).
    values(m) -> fresh list of the option values of meaning m; valid(m) -> bool; spec(m) -> hashable expectation (for
    the vacuity guard only); attempt(m, form, vals) -> None | (kind, detail)."""
    names = [p for p, _ in _optional(callee)]
    k = len(names)
    pub = _public_name(callee)
    ms = [m for m in _meanings(k) if valid(m)]
    for i in range(k):
        if any(m[i] == "d" and m2[i] == "a" and spec(m) != spec(m2) for m in ms for m2 in ms):
            rep.flag(f"defaults:discriminating:{callee}.{names[i]}")
    for m in ms:
        alone = set()
        rep.states += 1                               # one object described by the table per meaning
        for form in _forms(k, m):
            style, om, pos, kw = form
            rep.traces += 1
            rep.transitions += 1
            rep.case(("defaults", callee, repr(ctx), m, form))
            res = attempt(m, form, values(m))
            for i in om:
                rep.flag(f"defaults:omitted:{callee}.{names[i]}")
            for i in pos:
                rep.flag(f"defaults:positional:{callee}.{names[i]}")
            for i in kw:
                rep.flag(f"defaults:keyword:{callee}.{names[i]}")
            rep.outcome("defaults:" + style, "as_documented" if res is None else res[0])
            if res is None:
                rep.count("defaults_forms_ok")
                continue
            if style == "omitted" and len(om) == 1:
                alone.add(om[0])
            elif om and any(i in alone for i in om):
                rep.count("defaults_explained_by_single_omission")     # the same defect, already reported with its culprit
                continue
            kind, detail = res
            shown = values(m)
            rep.violation("C05.defaults." + style, pub, kind,
                          {"omitted": "omitted=" + "+".join(names[i] for i in om), "keyword": "all_by_keyword",
                           "positional": "by_position"}[style],
                          dict(detail, context=ctx, entry_point=callee,
                               meaning={names[i]: ("documented default " if m[i] == "d" else "") + repr(shown[i]) for i in range(k)},
                               omitted=[names[i] for i in om], positional=[names[i] for i in pos],
                               keyword=[names[i] for i in kw]))


def _invoke(fn, req, req_names, names, vals, form):
    """required arguments by keyword in the keyword / omitted styles, by position as soon as an option is positional"""
    style, om, pos, kw = form
    kwargs = {names[i]: vals[i] for i in kw}
    if pos:
        return call(fn, *(list(req) + [vals[i] for i in pos]), **kwargs)
    kwargs.update(dict(zip(req_names, req)))
    return call(fn, **kwargs)


def _probe_attr(rep: Report, a, n, T, k, dense, dv, c=None, corner=False, name=None):
    """The attribute `a`, said to be a fresh `dense`/sparse attribute of type T, arity k and default dv over n elements,
    against that description: storage class, reads, bounds, one write, growth through its container (if any), export.
    -> None | (kind, detail) for the first difference."""
    import numpy as np
    dflt = (dv,) * k
    want_cls = "ArrayAttribute" if dense else "Attribute"
    rep.evaluations += 1
    if type(a).__name__ != want_cls:
        return ("mismatch:storage", {"got": type(a).__name__, "want": want_cls})
    model = [dflt] * n
    written = set()

    def look(target, stage):
        nn = len(model)
        if dense:
            rep.evaluations += 2
            o = call(len, target)
            if not o.ok or o.value != nn:
                return ("mismatch:rows", {"stage": stage, "len(attribute)": repr(o), "container_size": nn})
            o = call(target.__getitem__, nn)
            if o.ok or o.exc != "OutOfBoundsError":
                return ("mismatch:rows", {"stage": stage, "read_at_container_size": repr(o), "container_size": nn})
        for i in range(nn):
            rep.evaluations += 1
            o = call(target.__getitem__, i)
            if not o.ok:
                return ("mismatch:rows" if o.exc == "OutOfBoundsError" else "raises:" + o.exc,
                        {"stage": stage, "index": i, "container_size": nn, "msg": o.msg})
            why = cmp_read(o.value, model[i], k)
            if why is not None:
                kind = "mismatch:arity" if why == "mismatch:shape" else ("mismatch:value" if i in written else "mismatch:default")
                return (kind, {"stage": stage, "index": i, "got": repr(o.value), "want": list(model[i])})
        rep.evaluations += 1
        o = call(target.as_array, nn)
        if not o.ok:
            return ("raises:" + o.exc, {"stage": stage, "op": "as_array", "msg": o.msg})
        arr = np.asarray(o.value)
        flat = arr.reshape(-1).tolist()
        want = [x for row in model for x in row]
        if len(flat) != len(want) or (nn >= 2 and arr.shape != ((nn,) if k == 1 else (nn, k))):
            return ("mismatch:arity", {"stage": stage, "op": "as_array", "got_shape": list(arr.shape), "container_size": nn, "arity": k})
        for j, (p, q) in enumerate(zip(flat, want)):
            if not eq(p, q):
                return ("mismatch:value" if j // k in written else "mismatch:default",
                        {"stage": stage, "op": "as_array", "got": flat, "want": want})
        if dense:
            rep.evaluations += 1
            o2 = call(target.as_array)               # the size is optional for the dense export
            if not o2.ok:
                return ("raises:" + o2.exc, {"stage": stage, "op": "as_array()", "msg": o2.msg})
            arr2 = np.asarray(o2.value)
            if arr2.shape != arr.shape or arr2.reshape(-1).tolist() != flat:
                return ("mismatch:export_with_and_without_size", {"stage": stage, "with": flat, "without": arr2.reshape(-1).tolist()})
        return None

    bad = look(a, "fresh")
    if bad:
        return bad
    if n >= 2:
        e1, e2 = EXACT[T]
        v = e1 if k == 1 else [e1, e2]
        o = call(a.__setitem__, 1, v)
        if not o.ok:
            return ("mismatch:arity" if o.exc == "InvalidSizeError" else "raises:" + o.exc,
                    {"stage": "write", "index": 1, "value": repr(v), "msg": o.msg})
        model[1] = pyval(v, k)
        written.add(1)
    target = a
    if c is not None:
        o = call(c.append, 5, 7) if corner else call(c.append, 5)
        if not o.ok:
            return ("raises:" + o.exc, {"stage": "append", "msg": o.msg})
        model.append(dflt)
        o = call(c.get_attribute, name)
        if not o.ok:
            return ("raises:" + o.exc, {"stage": "get_attribute", "msg": o.msg})
        target = o.value                              # written through the handle returned, read through the container
    return look(target, "after_write_and_append" if c is not None else "after_write")


def _defaults_task(task, rep: Report):
    from mouette.mesh.data_container import DataContainer, CornerDataContainer
    from mouette.mesh.mesh_attributes import Attribute, ArrayAttribute
    T = task["type"]
    PT = PYT[T]
    sizes = task["sizes"]

    # -- create_attribute(name, data_type, elem_size=1, dense=False, default_value=None, size=None), both containers
    for cname in ("DataContainer", "CornerDataContainer"):
        callee = cname + ".create_attribute"
        names = [p for p, _ in _optional(callee)]
        corner = cname == "CornerDataContainer"
        for n in sizes:
            def make():
                return CornerDataContainer([5] * n, [7] * n, id="corners") if corner else DataContainer([5] * n, id="elems")

            def values(m):
                return [1 if m[0] == "d" else 2, m[1] == "a", None if m[2] == "d" else CUSTOM[T], None if m[3] == "d" else n]

            def spec(m):
                return (1 if m[0] == "d" else 2, m[1] == "a", m[2] == "a")

            def attempt(m, form, vals):
                c = make()
                o = _invoke(c.create_attribute, ["q", PT], _required(callee), names, vals, form)
                if not o.ok:
                    return ("raises:" + o.exc, {"msg": o.msg})
                k, dense, custom = spec(m)
                return _probe_attr(rep, o.value, n, T, k, dense, CUSTOM[T] if custom else DEFAULT[T], c=c, corner=corner, name="q")

            _sweep(rep, callee, {"type": T, "container": cname, "container_size": n}, values, lambda m: True, spec, attempt)
            rep.flag(f"defaults:size_omitted_at:{callee}:{n}")
    # a changed default of `size` shows as soon as it differs from the size of the container: two different sizes
    if len(set(sizes)) >= 2:
        for cname in ("DataContainer", "CornerDataContainer"):
            rep.flag(f"defaults:discriminating:{cname}.create_attribute.size")

    # -- Attribute(elem_type, elem_size=1, default_value=None) / ArrayAttribute(elem_type, n_elem, elem_size=1, default_value=None)
    for callee, cls, dense in (("Attribute", Attribute, False), ("ArrayAttribute", ArrayAttribute, True)):
        names = [p for p, _ in _optional(callee)]
        for n in sizes:
            def values(m):
                return [1 if m[0] == "d" else 2, None if m[1] == "d" else CUSTOM[T]]

            def spec(m):
                return (1 if m[0] == "d" else 2, m[1] == "a")

            def attempt(m, form, vals):
                o = _invoke(cls, [PT, n] if dense else [PT], _required(callee), names, vals, form)
                if not o.ok:
                    return ("raises:" + o.exc, {"msg": o.msg})
                k, custom = spec(m)
                return _probe_attr(rep, o.value, n, T, k, dense, CUSTOM[T] if custom else DEFAULT[T])

            _sweep(rep, callee, {"type": T, "n_elem": n}, values, lambda m: True, spec, attempt)

    # -- Attribute.Type.default_value(n=1)
    def values(m):
        return [1 if m[0] == "d" else 2]

    def attempt(m, form, vals):
        o = call(lambda: Attribute.Type(PT))
        if not o.ok:
            return ("raises:" + o.exc, {"msg": o.msg})
        o = _invoke(o.value.default_value, [], [], ["n"], vals, form)
        if not o.ok:
            return ("raises:" + o.exc, {"msg": o.msg})
        k = vals[0]
        rep.evaluations += 1
        why = cmp_read(o.value, (DEFAULT[T],) * k, k)
        if why is not None:
            return ("mismatch:arity" if why == "mismatch:shape" else "mismatch:default",
                    {"got": repr(o.value), "want": [DEFAULT[T]] * k})
        return None

    _sweep(rep, "Attribute.Type.default_value", {"type": T}, values, lambda m: True, lambda m: m, attempt)
    _index_forms(rep, T)
    if T == "str":
        _string_limit(rep)

    # -- DataContainer(data=None, attributes=None, id="") / CornerDataContainer(elem=None, adj=None, attributes=None, id="")
    for callee, cls, corner in (("DataContainer", DataContainer, False), ("CornerDataContainer", CornerDataContainer, True)):
        names = [p for p, _ in _optional(callee)]
        nd = 2 if corner else 1                       # number of element lists

        def values(m):
            vals = [None if m[0] == "d" else [5, 6, 5]]
            if corner:
                vals.append(None if m[1] == "d" else [7, 8, 9])
            vals.append(None if m[nd] == "d" else {"x": ArrayAttribute(PT, 3 if m[0] == "a" else 0, elem_size=1, default_value=CUSTOM[T])})
            vals.append("" if m[nd + 1] == "d" else "verts")
            return vals

        def valid(m):
            return (not corner) or m[0] == m[1]       # a corner container is given both of its lists or none

        def attempt(m, form, vals):
            o = _invoke(cls, [], [], names, vals, form)
            if not o.ok:
                return ("raises:" + o.exc, {"msg": o.msg})
            c = o.value
            n = 3 if m[0] == "a" else 0
            rep.evaluations += 4
            o = call(lambda: (len(c), c.size, [c[i] for i in range(n)], list(c)))
            if not o.ok:
                return ("raises:" + o.exc, {"op": "len/size/getitem/iter", "msg": o.msg})
            want_el = [5, 6, 5][:n]
            if o.value != (n, n, want_el, want_el):
                return ("mismatch:elements", {"got": repr(o.value), "want": repr((n, n, want_el, want_el))})
            if corner:
                o = call(lambda: ([c.element(i) for i in range(n)], [c.adj(i) for i in range(n)]))
                if not o.ok:
                    return ("raises:" + o.exc, {"op": "element/adj", "msg": o.msg})
                if o.value != (want_el, [7, 8, 9][:n]):
                    return ("mismatch:elements", {"got": repr(o.value), "want": repr((want_el, [7, 8, 9][:n]))})
            o = call(lambda: sorted(c.attributes))
            want_at = ["x"] if m[nd] == "a" else []
            if not o.ok or o.value != want_at:
                return ("mismatch:attributes", {"got": repr(o), "want": want_at})
            want_id = "verts" if m[nd + 1] == "a" else ""
            o = call(lambda: c.id)
            if not o.ok or type(o.value) is not str or o.value != want_id:
                return ("mismatch:id", {"got": repr(o), "want": want_id})
            # what one instance is given by default is its own: a second instance built the same way stays as it was
            o = _invoke(cls, [], [], names, values(m), form)
            if not o.ok:
                return ("raises:" + o.exc, {"msg": o.msg, "instance": "second"})
            c2 = o.value
            if m[nd] == "a":
                bad = _probe_given(rep, c, n, T, corner)
                if bad:
                    return bad
            o = call(c.create_attribute, name="q", data_type=PT, elem_size=1, dense=True, default_value=CUSTOM[T], size=n)
            if not o.ok:
                return ("raises:" + o.exc, {"op": "create_attribute", "msg": o.msg})
            bad = _probe_attr(rep, o.value, n, T, 1, True, CUSTOM[T], c=c, corner=corner, name="q")
            if bad:
                return (bad[0], dict(bad[1], op="create_attribute on the container built"))
            rep.evaluations += 2
            o = call(lambda: (len(c2), sorted(c2.attributes)))
            if not o.ok or o.value != (n, want_at):
                return ("side_effect:shared_between_instances", {"second_instance_now": repr(o), "want": repr((n, want_at))})
            return None

        _sweep(rep, callee, {"type": T}, values, valid, lambda m: m, attempt)


def _index_forms(rep: Report, T):
    """An element index is an integer: a numpy integer (what iterating over an index array yields) addresses the same
    entry as the python int of the same value, for writes, reads and the dense bounds check."""
    import numpy as np
    from mouette.mesh.data_container import DataContainer
    n = 3
    for dense in (False, True):
        for k in (1, 2):
            for ityp in (np.int64, np.int32, np.intp, np.uint8):
                rep.traces += 1
                rep.flag("index_forms:" + ("dense" if dense else "sparse"))
                cls = "ArrayAttribute" if dense else "Attribute"
                icls = "numpy_integer_index"
                c = DataContainer([5] * n, id="elems")
                o = call(c.create_attribute, "q", PYT[T], k, dense=dense, default_value=CUSTOM[T])
                if not o.ok:
                    continue                          # (creation is the matter of the histories)
                a = o.value
                e1, e2 = EXACT[T]
                v = e1 if k == 1 else [e1, e2]
                w = DELTA[T] if k == 1 else [DELTA[T], DELTA[T]]
                det = {"type": T, "arity": k, "index_type": ityp.__name__, "container_size": n}
                rep.transitions += 2
                o = call(a.__setitem__, ityp(1), v)
                if not o.ok:
                    rep.violation("C05.index_forms", cls + ".__setitem__", "raises:" + o.exc, icls, dict(det, msg=o.msg))
                    continue
                o = call(a.__setitem__, 2, w)
                if not o.ok:
                    continue
                model = [(CUSTOM[T],) * k, pyval(v, k), pyval(w, k)]
                for i in range(n):
                    for idx, how in ((i, "written_by_numpy_index_read_by_int"), (ityp(i), "read_by_numpy_index")):
                        rep.evaluations += 1
                        o = call(a.__getitem__, idx)
                        if not o.ok:
                            rep.violation("C05.index_forms", cls + ".__getitem__", "raises:" + o.exc, icls,
                                          dict(det, index=i, how=how, msg=o.msg))
                        elif cmp_read(o.value, model[i], k) is not None:
                            rep.violation("C05.index_forms", cls + ".__getitem__", "mismatch:value", icls,
                                          dict(det, index=i, how=how, got=repr(o.value), want=list(model[i])))
                if dense:
                    for idx in (ityp(n), np.int64(-1)):
                        rep.evaluations += 1
                        o = call(a.__getitem__, idx)
                        if o.ok or o.exc != "OutOfBoundsError":
                            rep.violation("C05.dense.out_of_bounds", "ArrayAttribute.__getitem__/__setitem__",
                                          "mismatch:answered" if o.ok else "raises:" + o.exc,
                                          "index==n" if int(idx) == n else "index<0", dict(det, index=int(idx), how="numpy integer index"))
                        else:
                            rep.count("index_forms_oob_reported")
                rep.count("index_forms_ok")


def _string_limit(rep: Report):
    """String cells are documented to hold 32 characters: a value of exactly 32 characters (the alphabets of the histories
    have 1 and 33) is read back and exported whole, by both storages, also after growth and next to shorter values."""
    import numpy as np
    from mouette.mesh.data_container import DataContainer
    full = "a" * 31 + "b"
    for dense in (False, True):
        for k in (1, 2):
            for dv in (None, "z"):
                rep.traces += 1
                cls = "ArrayAttribute" if dense else "Attribute"
                c = DataContainer([5] * 2, id="elems")
                o = call(c.create_attribute, "q", str, k, dense=dense, default_value=dv)
                if not o.ok:
                    continue
                a = o.value
                v = full if k == 1 else [full, "x"]
                rep.transitions += 2
                if not (call(a.__setitem__, 0, v).ok and call(c.append, 5).ok):
                    continue                          # (acceptance and growth are the matter of the histories)
                d = "" if dv is None else dv
                model = [pyval(v, k), (d,) * k, (d,) * k]
                det = {"arity": k, "default": dv, "written": repr(v)}
                rep.count("string_limit_probed")
                for i in range(3):
                    rep.evaluations += 1
                    o = call(a.__getitem__, i)
                    if o.ok and cmp_read(o.value, model[i], k) is not None:
                        rep.violation("C05.last_written", cls + ".__setitem__", "mismatch:truncated" if i == 0 else "mismatch:value",
                                      "str:len==32", dict(det, index=i, got=repr(o.value), want=list(model[i])))
                rep.evaluations += 1
                o = call(a.as_array, 3)
                if o.ok:
                    flat = np.asarray(o.value).reshape(-1).tolist()
                    want = [x for row in model for x in row]
                    if flat != want:
                        rep.violation("C05.last_written", cls + ".as_array", "mismatch:truncated" if flat[1:] == want[1:] else "mismatch:value",
                                      "str:len==32", dict(det, got=flat, want=want))
                    else:
                        rep.count("string_limit_ok")


def _probe_given(rep: Report, c, n, T, corner):
    """the dense attribute 'x' handed to the constructor in `attributes` is the container's attribute 'x'"""
    o = call(c.get_attribute, "x")
    if not o.ok:
        return ("raises:" + o.exc, {"op": "get_attribute of an attribute given to the constructor", "msg": o.msg})
    a = o.value
    for i in range(n):
        rep.evaluations += 1
        o = call(a.__getitem__, i)
        if not o.ok:
            return ("raises:" + o.exc, {"op": "read of an attribute given to the constructor", "msg": o.msg})
        if cmp_read(o.value, (CUSTOM[T],), 1) is not None:
            return ("mismatch:attributes", {"index": i, "got": repr(o.value), "want": CUSTOM[T]})
    return None


def _defaults_guards(rep: Report):
    """every entry of the table of documented defaults was exercised in every way, on an input where its value matters"""
    fails = []
    for callee in DOC_SIGNATURES:
        for p, d in DOC_SIGNATURES[callee]:
            want = ["signature"] + ([] if isinstance(d, str) and d == REQUIRED else ["omitted", "keyword", "positional", "discriminating"])
            for what in want:
                if f"defaults:{what}:{callee}.{p}" not in rep.flags:
                    fails.append(f"documented default not exercised: {what} {callee}.{p}")
    for style in ("keyword", "omitted", "positional"):
        if "as_documented" not in rep.outcomes.get("defaults:" + style, ()):
            fails.append(f"call forms of style {style}: none behaved as documented")
    for f in ("index_forms:sparse", "index_forms:dense"):
        if f not in rep.flags:
            fails.append("coverage flag missing: " + f)
    if rep.counters.get("index_forms_ok", 0) and rep.counters.get("index_forms_oob_reported", 0) == 0:
        fails.append("never observed: index_forms_oob_reported")
    if rep.counters.get("string_limit_probed", 0) != 8:
        fails.append("32-character strings: expected 8 attributes probed, got %d" % rep.counters.get("string_limit_probed", 0))
    if rep.counters.get("defaults_forms_ok", 0) < 1000:
        fails.append("fewer than 1000 call forms behaved as documented")
    return fails


# ------------------------------------------------------------------------------------------------
def run_task(task, rep: Report):
    import mouette  # noqa: F401  (binds the repository under test)
    if task.get("kind") == "signatures":
        _check_signatures(rep)
        rep.count("defaults_tasks")
        return
    if task.get("kind") == "defaults":
        _defaults_task(task, rep)
        rep.count("defaults_tasks")
        return
    r = Run(task, rep)
    states, transitions = r.explore()
    rep.count("states:" + task["container"], states)
    rep.count(f"states:{task['type']}:k{task['arity']}", states)
    rep.count("configs")
    rep.flag("type:" + task["type"])
    rep.flag("container:" + task["container"])


def finish(tier, rep: Report):
    fails = []
    all_tasks = tasks(tier)
    want_dflt = sum(1 for t in all_tasks if t.get("kind") in ("defaults", "signatures"))
    want_cfg = len(all_tasks) - want_dflt
    if rep.counters.get("defaults_tasks", 0) == want_dflt:      # (an --only run skips the guards of what it left out)
        fails += _defaults_guards(rep)
    ran = rep.counters.get("configs", 0)
    if ran < 80:
        return fails                                     # --only run: the guards below are about the full sweep
    if ran != want_cfg:
        fails.append(f"expected {want_cfg} configurations, ran {ran}")
    for T in TYPES:
        if "type:" + T not in rep.flags:
            fails.append("type never explored: " + T)
    for f in ("container:DataContainer", "container:CornerDataContainer", "state:no_attributes", "state:empty_container",
              "grown_with_attr:s", "grown_with_attr:d", "alive:s:arity>1:implicit", "alive:d:arity>1:custom",
              "alive:s:arity1:custom", "alive:d:arity1:implicit"):
        if f not in rep.flags:
            fails.append("coverage flag missing: " + f)
    for kind in ("set", "set_bad", "set_agree", "set_oob", "get", "rmw", "read_mutate", "copy", "clear", "as_array",
                 "delete", "create", "append", "extend", "iadd_container", "iadd_self", "iadd_operand", "append_operand"):
        if "event:" + kind not in rep.flags:
            fails.append("event kind never executed: " + kind)
    for kind in ("set_bad", "rmw", "get_oob", "set_oob", "get"):
        if len(rep.outcomes.get(kind, ())) < 2:
            fails.append(f"event kind {kind} produced a single outcome")
    for cnt in ("accepted", "rejected", "growth_ok", "oob_reported"):
        if rep.counters.get(cnt, 0) == 0:
            fails.append("never observed: " + cnt)
    return fails
