"""C15 - border and feature extraction are exact (S2: bounded-exhaustive input families x options).

(a) border: for every mesh of SURF / holey-grid / ZOO families and both values of config.sort_neighborhoods,
    extract_border_cycle from EVERY border vertex (and with the default start), extract_border_cycle_all and
    extract_boundary_of_surface are compared with the border loops obtained from the union of border
    half-edges of the raw face list (mc.families.border_loops).
(b) features: FeatureEdgeDetector on hinge / accordion-strip / cone / bipyramid / SURF(moment curve) / ZOO
    families whose fold angles sweep a grid on both sides of 60 deg and acos(0.8), every way of declaring
    hard edges, options only_border x flag_corners x corner_order, detector run once, twice, and after
    another detector; reference = exact rational classification of every edge (mc/c15_lib.py).
(c) border extraction is a pure query: on a sub-family of (a), every ordered pair (x, y) of the four entry points
    (default start, given start, all cycles, polyline) is played as the history x, y, x, y on ONE mesh object; every
    answer is judged like in (a) and the border / interior containers and element arrays of the mesh must still
    describe the face list after every call, and its attribute blackboard (names of the attributes of every container, values
    of those that were there before the call) must be what it was before the call, apart from the attributes that the mesh's own
    border accessors create (computed on a fresh mesh). All of this once with config.display_duplicate_attribute_warning
    off and once with it on (create_attribute then hands back an existing attribute of the same name). Every border vertex
    is also given as starting point in every integer form (numpy signed / unsigned scalars of several widths, a subclass of int).
(d) a detector describes the surface it is run on: ONE FeatureEdgeDetector object run on surface A and then on
    surface B for every ordered pair of small families (same face list with other fold angles, and surfaces with other
    numbers of vertices / edges / faces), B being another mesh object or the same object after its vertices moved.
(e) documented defaults and call forms: the signatures of the entry points are pinned in SIGNATURES (copied from the unchanged
    tree's signatures / docstrings, never read from the library). Every construction form of FeatureEdgeDetector (all options
    left out; each option left out with the others by keyword; the first k options by position, k = 1..5) must give the same
    detection, corners, feature graph, corner cloud and log output as the same effective option vector with every option by
    keyword; run(mesh=) / detect(mesh) / detect(mesh=) / detector(mesh) the same as run(mesh); extract_border_cycle without a
    starting point the same as with the documented default given explicitly, and every border entry point called by keyword the same
    as by position. inspect.signature() of every entry point is compared with the pinned table (C15.defaults.signature).
(f) where the surface sits and in which unit its lengths are given: every feature family of (b) and a sub-family of the border
    inputs of (a) once more under the exact maps p -> 2^j p + T (PLACES: T = (2^k, -2^k, 2^(k-1)) with 2^k up to 10^9 .. 10^12 times
    the size of the surface, T on one axis only, T = 0 with units of 2^-60 .. 2^60), the coordinates being first rounded to multiples
    of 2^-m so that the map is exact in binary floating point. Border loops, angles between normals and angle sums do not change
    under such a map: all clauses of (a) / (b) are evaluated again on the placed surface (reference evaluated on the placed
    coordinates and required to classify every edge as at the origin); what is right at the origin and wrong on the placed surface is
    reported under the class suffix ':far_from_origin' / ':unit_of_length'.
"""
from __future__ import annotations
import math
from mc.core import Report, call, exc_kind
from mc import families as F
from mc import c15_lib as L

ID = "C15"
TECHNIQUE = ("bounded-exhaustive enumeration of input meshes x option vectors x starting points on the real "
             "border/feature code vs an independent half-edge / exact-rational reference")
RULE = ("border: one case = (labelled manifold face list, sort_neighborhoods); every border vertex is used as "
        "starting point, plus extract_border_cycle_all and extract_boundary_of_surface; non-trivial = the mesh has "
        "a border. features: one case = (mesh with given fold angles, hard-edge declaration, option vector, "
        "previous-run state); non-trivial = the mesh has an interior edge or a border. histories: one case = (mesh, "
        "sort_neighborhoods, ordered pair of border entry points) played twice on one mesh object, and (mesh, border vertex, "
        "integer form of the starting point), both also with config.display_duplicate_attribute_warning on. detector re-use: one case = (ordered pair of surfaces that differ in the band of "
        "an edge or in their face list, other mesh object | same object deformed, declaration, options). defaults / call forms: one case = "
        "(mesh, declaration, construction form of the detector: which options are left out / given by position) and (mesh, border vertex, "
        "keyword form of the border call), each compared with the same call with every argument explicit. placements: one case = (member of a "
        "feature family with its coordinates rounded to multiples of 2^-m, declaration, option vector, exact map p -> 2^j p + T), judged by the "
        "base clauses against the reference of the placed coordinates, and (border input, sort_neighborhoods, exact map) for the three border entry points")
ASSUMPTIONS = [
    "inputs are oriented manifold polygon complexes (checked by mc.families.is_oriented_manifold) with planar, "
    "non-degenerate faces; mesh.edges is taken as the edge numbering (construction is C02's subject)",
    "an interior edge whose normal angle lies within 1e-3 rad of the threshold that decides it is not compared "
    "(exact rational predicate on the float coordinates; counted as filtered_ill_conditioned)",
    "a corner order whose scaled angle sum lies within 1e-6 of a rounding tie is not compared; below one unit both "
    "0 (rounded) and 1 (the library's documented clamp) are accepted; vertices of non-convex faces are skipped",
    "the index map of extract_boundary_of_surface is accepted in either direction (mesh->polyline as implemented, "
    "or polyline->mesh as documented); the 'component' attribute of the polyline is outside the statement (observed only)",
    "hash seeds are not enumerated: the code under test only iterates over sets of ints (order independent of PYTHONHASHSEED)",
    "vertex_to_edges (C01) is the reference frame of the local feature-edge indices",
    "history / argument-form / detector-re-use clauses report only answers that differ from the answer of the same call on a "
    "fresh mesh with a python int / of a fresh detector on a fresh mesh (those answers are judged by the base clauses); "
    "histories are bounded to x,y,x,y over the four border entry points with one given starting point (last vertex of the last loop)",
    "attribute blackboard clause: the attributes created by the surface's own lazily cached border accessors (boundary_vertices, "
    "interior_vertices, boundary_edges, interior_edges, is_vertex_on_border; measured on a fresh mesh of the tree under test: "
    "vertices.border) may appear during a border query; any other new, removed or modified attribute of the mesh is reported",
    "config.display_duplicate_attribute_warning is switched by the runner around whole history tasks (mesh construction included) "
    "and restored by it",
    "detector re-use is exercised on meshes that carry no persistent 'normals' face attribute (with one, the detector "
    "documentedly reads it); vertices are moved through mesh.vertices[i] = Vec",
    "defaults / call forms: the documented defaults are the pinned table SIGNATURES (signature of the unchanged tree, which agrees with "
    "the docstrings); the clauses only compare a call form with the fully explicit call on an identical fresh mesh (whose answer is "
    "the subject of the base clauses); 'verbose' is observed through the text printed on stdout during construction + run; "
    "feature_graph / corner_point_cloud are compared by presence and sizes only",
    "placements: only maps that are exact on the rounded coordinates are played (exact rational predicate per coordinate; an inexact "
    "specimen would be dropped and counted: placed:filtered_inexact_coordinates, none in the pinned families); the translation is "
    "(2^k, -2^k, 2^(k-1)) or -2^k on one axis, k <= 40; the unit of length 2^j, |j| <= 60; the reference of the placed coordinates must "
    "reproduce the classification at the origin (placed:reference_not_invariant is a harness failure); placed runs are not repeated "
    "with previous-run states, warm blackboard or the duplicate-attribute switch; a float formula on absolute positions at these "
    "distances loses all significant bits of a normal (self-test: under every three-axis translation of PLACES the origin-based area vector of a placed hinge is off by > 0.01 rad or zero, the one built on edge vectors by < 1e-7; a one-axis translation costs log2(distance / size) bits only)",
]
BOUNDS = {
    "quick": "border: SURF triangles n<=5 all labelled (434), tri+quad n=4 all, n=5 <=4 faces, pentagons, SURF(6) classes (28), face-listing deviations <=1 on n<=4, "
             "holey grids 3x3 tri/quad all, 4x4 quad all (320), 4x4 tri <=3 removed, full grids, swiss (4 loops), ZOO; "
             "features: hinge x 91 angles (20 per side of each threshold) x sign x 10 declarations x 12 options, "
             "accordions with 1-2 folds, cones/bipyramids, SURF(<=5) on the moment curve, ZOO, non-convex flat quads; "
             "histories + 5 integer forms of every border start: SURF triangles n<=4, tri+quad n=4, pentagons, SURF(6) classes, holey 3x3, grids, swiss, ZOO "
             "(209 meshes x 2 sorts x 16 histories of 4 calls x display_duplicate_attribute_warning off/on, attribute blackboard compared around every call); detector re-use: all ordered pairs of 5 hinges, 4 accordions, 6 cones/bipyramids, "
             "7 surfaces of different sizes x 2-3 declarations x 2-3 options (1008 cases); defaults / call forms: 19 surfaces (hinges either side "
             "of both thresholds, accordions, cones, bipyramid, closed solids, flat grid, 4-loop plate, annulus) x 2 declarations x 36 construction "
             "forms of the detector (1 all-omitted + 5 options x 3 vectors of the others + 4 vectors x 5 positional prefixes) + 2 x 4 run forms; "
             "border call forms on the 209 history meshes x 2 sorts x every border vertex x 3 keyword forms; 6 signatures; "
             "placements: coordinates rounded to 2^-18, maps x1 + T(2^30), x2^-10 + T(2^24), x2^-30, x2^30 on every 2nd hinge (91), every 3rd hinge2 / "
             "accordion / SURF(<=5, 6 classes) member, every 2nd cone / ZOO member, every 4th non-convex quad pair (404 surfaces) x 3 declarations x 3 option "
             "vectors (14544 placed detections), sorted rings; border: grids, swiss, ZOO, every 9th holey grid, every 11th SURF(5) / tri+quad / pentagon "
             "listing (64 inputs) x 2 sorts x 4 maps",
    "thorough": "border: + SURF(6) all labelled (12934), face-listing deviations <=1 on triangles n=5, tri+quad n=5 <=5 faces (2612), holey 3x4 tri all (743), 4x5 quad all, "
                "4x4 tri <=5 removed, 4x4 mixed <=4 removed, 5x5 quad <=3 removed, 3x3 mixed all; features: + hinge shapes/orientations x 40 per side, accordions with 2 folds (all 72 angle "
                "pairs x 4 modes x 2 widths) and 3 folds (54 angle triples x 2 sign patterns x 2 modes), all 12 options, all cones/bipyramids, SURF(6) all labelled, previous-run states on every family; "
                "histories / integer forms (x duplicate-attribute switch off/on): + SURF triangles n=5, face-listing deviations n=4, holey 4x4 quad, 3x4 tri; detector re-use: 11 hinges, 9 accordions x 3 modes, 9 surfaces of different sizes, more options; "
                "defaults / call forms: 20 surfaces x both sorts, border call forms on the thorough history family; "
                "placements: every member of every feature family (hinge_fine and SURF(6) all labelled excepted) x both sorts x 3 declarations x 3 option vectors x "
                "11 maps (rounded to 2^-18: x1 + T(2^30), x2^-10 + T(2^24), -2^30 on z, x2^-10 - 2^24 on x, units 2^-30, 2^30, 2^-60, 2^60; rounded to 2^-10: "
                "x1 + T(2^40), x2^-10 + T(2^30), x2^8 - 2^40 on y); border: every 2nd holey grid, all SURF(5) / tri+quad n=4 / pentagon listings, grids, swiss, ZOO x 2 sorts x 11 maps",
}

OPTS_ALL = [[ob, fc, co] for ob in (False, True) for fc in (True, False) for co in (4, 2, 6)]
OPTS_MIN = [[False, True, 4], [True, True, 4], [False, False, 4]]
OPTS_MID = OPTS_MIN + [[False, True, 6], [False, True, 2], [True, True, 6]]
DECL_ALL = [["raw", "none"], ["raw", "all"], ["raw", "even"], ["raw", "odd"], ["sparse", "all"], ["sparse", "odd"],
            ["sparse_false", "even"], ["sparse_false", "odd"], ["dense", "even"], ["dense", "none"]]
DECL_MID = [["raw", "none"], ["raw", "even"], ["raw", "odd"], ["sparse_false", "even"], ["sparse", "all"]]
DECL_MIN = [["raw", "none"], ["raw", "all"]]
PREV_ALL = [None, "full", "border", "normals"]


# ------------------------------------------------------------------------------------------ border inputs
def _border_inputs(tier):
    ins = []      # [name, n, pts|None (moment curve), faces]
    for n in (3, 4, 5):
        for i, fl in enumerate(F.surf_enum(n)):
            ins.append([f"tri{n}#{i}", n, None, fl])
    for i, fl in enumerate(F.surf_enum(4, (3, 4))):
        ins.append([f"mix4#{i}", 4, None, fl])
    for i, fl in enumerate(F.surf_enum(5, (3, 4), 4 if tier == "quick" else 5)):
        if any(len(f) == 4 for f in fl):
            ins.append([f"mix5#{i}", 5, None, fl])
    for i, fl in enumerate(F.surf_enum(5, (5,))):
        ins.append([f"pent5#{i}", 5, None, fl])
    if tier == "quick":
        for i, fl in enumerate(F.surf6_classes()):
            ins.append([f"tri6c#{i}", 6, None, fl])
    else:
        for i, fl in enumerate(F.surf_enum(6)):
            ins.append([f"tri6#{i}", 6, None, fl])
    # deviations from the canonical listing (start vertex of a face, order of two faces): <= 1
    for n, ar in (((3, (3,)), (4, (3, 4))) if tier == "quick" else ((3, (3,)), (4, (3, 4)), (5, (3,)))):
        for i, fl in enumerate(F.surf_enum(n, ar)):
            for tag, g in F.face_listing_deviations(fl, 1):
                if tag:
                    ins.append([f"dev{n}#{i}:{'-'.join(map(str, tag[0]))}", n, None, g])
    hg = [(3, 3, "tri", None), (3, 3, "quad", None), (4, 4, "quad", None), (4, 4, "tri", 3 if tier == "quick" else 5)]
    if tier == "thorough":
        hg += [(3, 4, "tri", None), (4, 5, "quad", None), (3, 3, "mixed", None), (5, 5, "quad", 3), (4, 4, "mixed", 4)]
    for k, l, mode, mr in hg:
        for mask, p, f in F.holey_grids(k, l, mode, mr):
            ins.append([f"holey{k}x{l}{mode}{mask}", len(p), p, f])
    for k, l in ((2, 2), (2, 3), (3, 3), (3, 4), (4, 4)):
        for mode in ("tri", "tri2", "quad", "mixed"):
            p, f = F.grid(k, l, mode); ins.append([f"grid{k}x{l}{mode}", len(p), p, f])
    for mode in ("quad", "tri"):
        p, f = L.swiss(mode); ins.append([f"swiss{mode}", len(p), p, f])
    for name in ("octahedron", "tetrahedron_surface", "cube_quads", "csaszar_torus", "icosahedron"):
        p, f = getattr(F, name)(); ins.append([name, len(p), p, f])
    for n, anti in ((3, False), (3, True), (4, True), (5, False)):
        p, f = F.prism_annulus(n, anti); ins.append([f"annulus{n}{'a' if anti else 'p'}", len(p), p, f])
    p, f = F.torus_grid(3, 3); ins.append(["torus3x3", len(p), p, f])
    seen, out = set(), []
    for name, n, p, fl in ins:
        key = (n, tuple(tuple(f) for f in fl))
        if key in seen:
            continue
        seen.add(key)
        out.append([name, n, None if p is None else [list(map(float, q)) for q in p], [list(f) for f in fl]])
    return out


# ------------------------------------------------------------------------------------------ feature inputs
def _feature_plan(tier):
    """list of (family, meshes, decls, opts, prevs, batch)."""
    q = tier == "quick"
    plan = []
    grid = L.angle_grid(20)
    # hinge, basic shape, both fold directions
    hs = []
    for i, th in enumerate(grid):
        hs.append([f"hinge:{i}:+", *L.hinge(th)])
        if th != 0:
            hs.append([f"hinge:{i}:-", *L.hinge(-th)])
    plan.append(("hinge", hs, DECL_ALL, OPTS_ALL, [None], 6))
    plan.append(("hinge", hs, [["raw", "even"], ["sparse_false", "odd"]], OPTS_MIN, PREV_ALL, 30))
    hs2 = []
    for i, th in enumerate(grid):
        for shape, flip in ((1, False), (0, True)) if q else ((1, False), (0, True), (1, True)):
            for sg in ((1,) if q else (1, -1)):
                if sg < 0 and th == 0:
                    continue
                hs2.append([f"hinge{shape}{'f' if flip else ''}:{i}:{'+' if sg > 0 else '-'}", *L.hinge(sg * th, shape, flip)])
    plan.append(("hinge2", hs2, DECL_MID if q else DECL_ALL, OPTS_MIN if q else OPTS_ALL, [None], 12 if q else 5))
    if not q:
        fine = []
        for th0, tag in ((L.TH60, "60"), (L.TH37, "37")):
            for j, d in enumerate(L.offsets(40, 1.1e-3, 0.6)):
                for sg in (1, -1):
                    fine.append([f"hingefine{tag}:{j}:{sg}", *L.hinge(th0 + sg * d)])
        plan.append(("hinge_fine", fine, [["raw", "none"], ["raw", "all"], ["sparse_false", "odd"]], OPTS_MID, [None], 20))
    # accordions
    A6 = [0.3, L.TH37 - 0.02, L.TH37 + 0.02, L.TH60 - 0.02, L.TH60 + 0.02, 2.0]
    A3 = [L.TH37 + 0.02, L.TH60 - 0.02, L.TH60 + 0.02]
    acc = []
    for a, th in enumerate(A6):
        for sg in (1, -1):
            for mode in ("tri", "tri2", "quad", "mixed"):
                for l in (2, 3):
                    acc.append([f"acc3x{l}{mode}:{a}:{sg}", *L.accordion(3, l, mode, [sg * th])])
    if q:
        for a, t1 in enumerate(A3):
            for b, t2 in enumerate(A3):
                for sg in (1, -1):
                    for mode in ("tri", "quad"):
                        acc.append([f"acc4x2{mode}:{a}{b}:{sg}", *L.accordion(4, 2, mode, [t1, sg * t2])])
    else:
        for a, t1 in enumerate(A6):
            for b, t2 in enumerate(A6):
                for sg in (1, -1):
                    for mode in ("tri", "tri2", "quad", "mixed"):
                        for l in (2, 3):
                            acc.append([f"acc4x{l}{mode}:{a}{b}:{sg}", *L.accordion(4, l, mode, [t1, sg * t2])])
        for a, t1 in enumerate(A6):
            for b, t2 in enumerate(A3):
                for c, t3 in enumerate(A3):
                    for sgs in ((1, 1), (-1, 1)):
                        for mode in ("tri2", "mixed"):
                            acc.append([f"acc5x2{mode}:{a}{b}{c}:{sgs}", *L.accordion(5, 2, mode, [t1, sgs[0] * t2, sgs[1] * t3])])
    plan.append(("accordion", acc, DECL_MID, OPTS_ALL if not q else OPTS_MIN + [[False, True, 6]], [None], 8 if q else 4))
    plan.append(("accordion", acc[::(4 if q else 3)], [["raw", "even"]], OPTS_MIN[:2], PREV_ALL, 12))
    # cones and bipyramids
    H = [0.5, 1, 2, 5] if q else [0.25, 0.5, 0.75, 1, 1.5, 2, 3, 5]
    cones = []
    for k in (3, 4, 5, 6):
        for h in H:
            cones.append([f"cone{k}:{h}", *L.cone(k, h)])
    for h in H:
        for b in ([0.5, 2] if q else H):
            cones.append([f"bipyr4:{h}:{b}", *L.cone(4, h, b)])
    for k in (3, 5):
        for h in H:
            for b in (0.5, 2):
                cones.append([f"bipyr{k}:{h}:{b}", *L.cone(k, h, b)])
    plan.append(("cone", cones, [["raw", "none"], ["raw", "all"], ["raw", "odd"], ["sparse_false", "even"]], OPTS_ALL, [None], 4))
    plan.append(("cone", cones, [["raw", "odd"]], OPTS_MIN[:2] + [[False, True, 6]], PREV_ALL, 8))
    # SURF on the moment curve
    surf = []
    for n in (3, 4, 5):
        for i, fl in enumerate(F.surf_enum(n)):
            surf.append([f"tri{n}#{i}", [list(map(float, p)) for p in F.moment_curve(n)], [list(f) for f in fl]])
    for i, fl in enumerate(F.surf6_classes()):
        surf.append([f"tri6c#{i}", [list(map(float, p)) for p in F.moment_curve(6)], [list(f) for f in fl]])
    plan.append(("surf", surf, DECL_MIN + ([] if q else [["raw", "even"], ["sparse_false", "odd"]]), OPTS_MIN if q else OPTS_MID, [None], 25 if q else 12))
    if not q:
        surf6 = [[f"tri6#{i}", [list(map(float, p)) for p in F.moment_curve(6)], [list(f) for f in fl]]
                 for i, fl in enumerate(F.surf_enum(6))]
        plan.append(("surf6", surf6, [["raw", "even"]], OPTS_MIN[:2], [None], 60))
        plan.append(("surf", surf, [["raw", "all"]], OPTS_MIN[:2], PREV_ALL, 25))
    # ZOO
    zoo = []
    for name in ("octahedron", "icosahedron", "cube_quads", "tetrahedron_surface", "csaszar_torus"):
        p, f = getattr(F, name)(); zoo.append([name, p, f])
    for k, l in ((2, 2), (2, 3), (3, 3), (3, 4)):
        for mode in ("tri", "tri2", "quad", "mixed"):
            p, f = F.grid(k, l, mode); zoo.append([f"flat{k}x{l}{mode}", p, f])
    for n, anti in ((3, False), (3, True), (4, True), (5, False)):
        p, f = F.prism_annulus(n, anti); zoo.append([f"annulus{n}{'a' if anti else 'p'}", p, f])
    for mode in ("quad", "tri"):
        p, f = L.swiss(mode); zoo.append([f"swiss{mode}", p, f])
    for mask, p, f in F.holey_grids(3, 3, "quad"):
        zoo.append([f"holey3x3quad{mask}", p, f])
    for mask, p, f in F.holey_grids(3, 3, "tri"):
        if len(F.border_loops(f)) >= 2:
            zoo.append([f"holey3x3tri{mask}", p, f])
    zoo = [[nm, [list(map(float, x)) for x in p], [list(x) for x in f]] for nm, p, f in zoo]
    plan.append(("zoo", zoo, DECL_MID, OPTS_ALL if not q else OPTS_MID, [None], 3))
    plan.append(("zoo", zoo, [["raw", "even"]], OPTS_MIN[:2], PREV_ALL, 6))
    ncv = [[f"nonconvex:{a}{b}", *L.nonconvex_flat(a, b)] for a in range(4) for b in range(4)]
    plan.append(("nonconvex", ncv, DECL_MIN, OPTS_MIN, [None], 16))
    return plan


def _history_inputs(ins, tier):
    """Sub-family of the border inputs on which call histories and argument forms are enumerated."""
    pre = ["tri3#", "tri4#", "mix4#", "pent5#", "tri6c#", "holey3x3", "grid", "swiss", "octahedron", "tetrahedron_surface",
           "cube_quads", "csaszar_torus", "icosahedron", "annulus", "torus"]
    if tier != "quick":
        pre += ["tri5#", "holey4x4quad", "holey3x4tri", "dev4#"]
    return [x for x in ins if any(x[0].startswith(p) for p in pre)]


def _reuse_plan(tier):
    """list of (family, surfaces, declarations, options): every ORDERED pair of surfaces of one entry is played."""
    q = tier == "quick"
    mid = 0.5 * (L.TH37 + L.TH60)
    plan = []
    ang = [0.15, mid, math.pi / 2, 2.6, -math.pi / 2] if q else \
          [0.0, 0.15, L.TH37 - 0.02, L.TH37 + 0.02, mid, L.TH60 - 0.02, L.TH60 + 0.02, math.pi / 2, 2.6, -mid, -math.pi / 2]
    hs = [[f"hinge:{a:.4f}", *L.hinge(a)] for a in ang]
    plan.append(("reuse_hinge", hs, DECL_MIN + [["sparse_false", "odd"]], OPTS_MIN if q else OPTS_MID))
    A3 = [L.TH37 + 0.02, L.TH60 - 0.02, L.TH60 + 0.02]
    pairs = [(0, 0), (2, 0), (1, 2), (2, 2)] if q else [(a, b) for a in range(3) for b in range(3)]
    for mode in (("tri",) if q else ("tri", "quad", "mixed")):
        acc = [[f"acc4x2{mode}:{a}{b}", *L.accordion(4, 2, mode, [A3[a], -A3[b]])] for a, b in pairs]
        plan.append(("reuse_accordion", acc, [["raw", "none"], ["raw", "even"]], OPTS_MIN[:2] if q else OPTS_MIN))
    cones = [[f"cone{k}:{h}", *L.cone(k, h)] for k, h in ((4, 0.5), (4, 5), (5, 0.5), (5, 2))]
    cones += [[f"bipyr4:{h}:{b}", *L.cone(4, h, b)] for h, b in ((0.5, 0.5), (2, 0.5))]
    plan.append(("reuse_cone", cones, [["raw", "none"], ["raw", "odd"]], OPTS_MIN[:2] + [[False, True, 6]]))
    # surfaces with different numbers of vertices / edges / faces, in both orders
    mixed = [["hinge:right", *L.hinge(math.pi / 2)], ["acc3x2quad", *L.accordion(3, 2, "quad", [1.2])],
             ["acc4x3mixed", *L.accordion(4, 3, "mixed", [1.2, -0.2])], ["cone3:1", *L.cone(3, 1)]]
    for name in ("octahedron", "cube_quads"):
        p, f = getattr(F, name)(); mixed.append([name, p, f])
    p, f = F.grid(3, 3, "tri"); mixed.append(["flat3x3tri", p, f])
    if not q:
        p, f = F.icosahedron(); mixed.append(["icosahedron", p, f])
        p, f = L.swiss("quad"); mixed.append(["swissquad", p, f])
    mixed = [[nm, [list(map(float, x)) for x in p], [list(x) for x in f]] for nm, p, f in mixed]
    plan.append(("reuse_mixed", mixed, DECL_MIN, OPTS_MIN[:2] if q else OPTS_MIN))
    return plan


def _selftest():
    """The reference against brute-force facts on tiny inputs (a failure is a harness error, never a pass)."""
    for deg, want in ((20, "<37"), (36.8, "<37"), (36.87, "near37"), (36.95, "37-60"), (59.9, "37-60"), (60.0, "near60"),
                      (60.1, ">60"), (90, ">60"), (179, ">60"), (-50, "37-60"), (-61, ">60")):
        for shape in (0, 1):
            pts, fl = L.hinge(math.radians(deg), shape, flip=bool(shape))
            o = L.FeatureOracle(pts, fl)
            assert o.band[(0, 1)] == want, (deg, shape, o.band[(0, 1)], want)
            assert sum(o.border.values()) == 4 and o.usable
    pts, fl = L.accordion(4, 3, "mixed", [1.2, -0.2])
    o = L.FeatureOracle(pts, fl)
    assert sorted(set(o.band.values())) == ["<37", ">60", "border"], set(o.band.values())
    assert [e for e in o.edges if o.band[e] == ">60"] == [(3, 4), (4, 5)]
    assert L.FeatureOracle(*L.nonconvex_flat(1, 0)).shapes == ["nonconvex", "convex"]
    assert not L.FeatureOracle([[0, 0, 0], [1, 0, 0], [1, 1, 1], [0, 1, 0]], [[0, 1, 2, 3]]).usable      # non-planar quad
    assert abs(L.FeatureOracle(*L.cone(4, 1.0)).angle_sum[4] - 4 * math.pi / 3) < 1e-12
    for mode in ("quad", "tri"):
        p, f = L.swiss(mode)
        assert F.is_oriented_manifold(f, len(p)) and len(F.border_loops(f)) == 4 and len(F.components(len(p), F.undirected_edges(f))) == 1
    assert sorted(map(sorted, F.border_loops([(0, 1, 2), (0, 2, 3)]))) == [[0, 1, 2, 3]] and L.chords_of([(0, 1, 2), (0, 2, 3)]) == [(0, 2)]
    # placements: the maps are exact on the rounded coordinates, the reference does not change under them, and they are far /
    # small / large enough to discriminate: a float formula on absolute positions (area vector = sum of P[i-1] x P[i]) no longer
    # gives the normal of a placed triangle, one on edge vectors gives it to the last bits
    from fractions import Fraction as Fr
    for tier in ("quick", "thorough"):
        for places in PLACES[tier]:
            for th in (L.TH60 + 0.01, L.TH37 - 0.01, 2.6):
                p0 = L.quantize(L.hinge(th)[0], places["m"])
                fl = L.hinge(th)[1]
                o0 = L.FeatureOracle(p0, fl)
                for j, k, axis in places["maps"]:
                    pp = L.place(p0, j, k, axis)
                    assert pp is not None, (places, j, k, axis)
                    T = L.far_vector(k, axis)
                    assert all(Fr(pp[v][c]) == Fr(p0[v][c]) * Fr(2) ** j + T[c] for v in range(4) for c in range(3))
                    o1 = L.FeatureOracle(pp, fl)
                    assert o1.band == o0.band and o1.border == o0.border
                    cr = lambda u, w: (u[1] * w[2] - u[2] * w[1], u[2] * w[0] - u[0] * w[2], u[0] * w[1] - u[1] * w[0])
                    sub = lambda u, w: (u[0] - w[0], u[1] - w[1], u[2] - w[2])

                    def off(n, exact):
                        nn = math.sqrt(sum(x * x for x in n)); ne = math.sqrt(float(sum(x * x for x in exact)))
                        if nn == 0:
                            return math.pi
                        return math.acos(max(-1.0, min(1.0, sum(float(x) * y for x, y in zip(exact, n)) / (nn * ne))))
                    worst_good, worst_naive = 0.0, 0.0
                    for f in fl:
                        a, b, c = (pp[v] for v in f)
                        good = cr(sub(b, a), sub(c, a))
                        terms = [cr(c, a), cr(a, b), cr(b, c)]
                        naive = tuple(terms[0][i] + terms[1][i] + terms[2][i] for i in range(3))
                        exact = cr(tuple(map(Fr, sub(b, a))), tuple(map(Fr, sub(c, a))))
                        worst_good, worst_naive = max(worst_good, off(good, exact)), max(worst_naive, off(naive, exact))
                    assert worst_good < 1e-7, (places, j, k, axis, worst_good)
                    if k is not None and axis is None:      # (a translation along one axis costs only log2(distance / size) bits)
                        assert worst_naive > 0.01, (places, j, k, axis, worst_naive)


def tasks(tier):
    _selftest()
    out = []
    ins = _border_inputs(tier)
    small = [x for x in ins if x[1] <= 9]
    big = [x for x in ins if x[1] > 9]
    bs, bb = (60, 12)
    for sort in (True, False):
        for i in range(0, len(small), bs):
            out.append({"kind": "border", "sort": sort, "meshes": small[i:i + bs]})
        for i in range(0, len(big), bb):
            out.append({"kind": "border", "sort": sort, "meshes": big[i:i + bb]})
    hist = _history_inputs(ins, tier)
    for sort in (True, False):
        for i in range(0, len(hist), 6):
            out.append({"kind": "border_hist", "sort": sort, "meshes": hist[i:i + 6]})
    out.append({"kind": "signature", "sort": True})
    dm = _defaults_meshes(tier)
    for sort in ((True,) if tier == "quick" else (True, False)):
        for i in range(0, len(dm), 2):
            out.append({"kind": "feat_defaults", "sort": sort, "meshes": dm[i:i + 2], "decls": DECL_MIN})
    for sort in (True, False):
        for i in range(0, len(hist), 30):
            out.append({"kind": "border_forms", "sort": sort, "meshes": hist[i:i + 30]})
    for fam, meshes, decls, opts in _reuse_plan(tier):
        for sort in ((True, False) if fam == "reuse_mixed" else (True,)):
            out.append({"kind": "feat_reuse", "family": fam, "sort": sort, "meshes": meshes, "decls": decls, "opts": opts})
    for fam, meshes, decls, opts, prevs, batch in _feature_plan(tier):
        for sort in (True, False):
            if not sort and fam in ("hinge_fine", "surf6"):
                continue
            d, o = decls, opts
            if not sort and fam in ("hinge", "hinge2") and len(decls) == len(DECL_ALL):
                # unsorted rings only matter for the local indices: reduced declaration/option product
                d, o = DECL_MID + [["dense", "even"]], (OPTS_MIN if tier == "quick" else OPTS_MID)
            for i in range(0, len(meshes), batch):
                out.append({"kind": "feat", "family": fam, "sort": sort, "meshes": meshes[i:i + batch],
                            "decls": d, "opts": o, "prevs": prevs})
    out += _placed_tasks(tier, ins)
    return out


# ------------------------------------------------------------------------------------------ placements
# [j, k, axis]: p -> 2^j p + T with T = (2^k, -2^k, 2^(k-1)) (axis None), -2^k on one axis (axis 0..2), or 0 (k None: unit of
# length only). "m": the coordinates are first rounded to multiples of 2^-m, which makes every map of the entry exact.
PLACES = {
    "quick": [{"m": 18, "maps": [[0, 30, None], [-10, 24, None], [-30, None, None], [30, None, None]]}],
    "thorough": [{"m": 18, "maps": [[0, 30, None], [-10, 24, None], [0, 30, 2], [-10, 24, 0], [-30, None, None], [30, None, None],
                                    [-60, None, None], [60, None, None]]},
                 {"m": 10, "maps": [[0, 40, None], [-10, 30, None], [8, 40, 1]]}],
}
PLACED_DECLS = [["raw", "none"], ["raw", "all"], ["sparse_false", "odd"]]
PLACED_OPTS = [[False, True, 4], [False, True, 6], [True, True, 2]]


def _placed_tasks(tier, border_ins):
    """Every feature family and a sub-family of the border inputs once more in other units of length and far from the origin
    (quick: every second / third member of a family, by fixed stride; thorough: all)."""
    q = tier == "quick"
    out = []
    seen = set()
    stride = {"hinge": 2, "hinge2": 3, "accordion": 3, "cone": 2, "surf": 3, "zoo": 2, "nonconvex": 4} if q else {}
    for fam, meshes, decls, opts, prevs, batch in _feature_plan(tier):
        if fam in seen or fam in ("surf6", "hinge_fine"):
            continue
        seen.add(fam)
        ms = meshes[::stride.get(fam, 1)]
        for places in PLACES[tier]:
            for sort in ((True,) if q else (True, False)):
                b = {"hinge": 12, "hinge2": 12, "surf": 16, "nonconvex": 8}.get(fam, 4)
                for i in range(0, len(ms), b):
                    out.append({"kind": "feat", "family": fam, "sort": sort, "meshes": ms[i:i + b], "decls": PLACED_DECLS,
                                "opts": PLACED_OPTS, "prevs": [None], "places": places})
    pre = ("grid", "swiss", "octahedron", "tetrahedron_surface", "cube_quads", "csaszar_torus", "icosahedron", "annulus", "torus")
    sub = [x for x in border_ins if x[0].startswith(pre)]
    sub += [x for x in border_ins if x[0].startswith("holey")][::(9 if q else 2)]
    sub += [x for x in border_ins if x[0].startswith(("tri5#", "mix4#", "pent5#"))][::(11 if q else 1)]      # (moment curve)
    for places in PLACES[tier]:
        for sort in (True, False):
            for i in range(0, len(sub), 12):
                out.append({"kind": "border", "sort": sort, "meshes": sub[i:i + 12], "places": places})
    return out


# ========================================================================================== border
def _norm(a, b):
    return (a, b) if a < b else (b, a)


def _as_int_list(x):
    return [int(v) for v in x]


def _judge_walk(vb, start, loop_of, loops, bedges):
    """None if vb is the border loop through `start`, listed once from `start` in either direction."""
    if not vb:
        return "empty"
    if start is not None and vb[0] != start:
        return "start"
    k = len(vb)
    for i in range(k):
        a, b = vb[i], vb[(i + 1) % k]
        if a == b or _norm(a, b) not in bedges:
            return "first_step_off_border" if i == 0 else "step_off_border"
    if len(set(vb)) != k:
        return "vertex_repeated"
    if vb[0] not in loop_of or set(vb) != set(loops[loop_of[vb[0]]]):
        return "loop_vertex_set"
    return None


def _check_border_mesh(M, name, n, pts, faces, sort, rep: Report, placement=None):
    from mouette.processing import extract_border_cycle, extract_border_cycle_all, extract_boundary_of_surface
    P = pts if pts is not None else F.moment_curve(n)
    loops = F.border_loops(faces)
    loop_of = {v: i for i, l in enumerate(loops) for v in l}
    bverts = sorted(loop_of)
    bedges = set(_norm(a, b) for a, b in F.border_half_edges(faces))
    icls = f"sort={sort}"
    base = {"mesh": name, "points": "moment_curve" if pts is None else P, "faces": faces, "sort": sort}
    if placement is not None:
        # the same face list with its points in another unit of length / far from the origin (exact map): only the class of
        # what is found says so; border loops are combinatorial, the polyline must carry the placed coordinates
        icls += ":" + placement[0]
        base["placement"] = placement[1]
        rep.count("placed_border_meshes:" + placement[0])
    build = lambda: F.build_surface(P, faces)

    m = build()
    E = [tuple(int(x) for x in e) for e in m.edges]
    if sorted(E) != sorted(F.undirected_edges(faces)):
        rep.count("premise_failed"); rep.notes.append(f"{name}: mesh.edges differs from the sides of the faces")
        return
    eid = {e: i for i, e in enumerate(E)}

    def bad(sub, callee, kind, detail):
        rep.violation("C15.border." + sub, callee, kind, icls, {**base, **detail})

    # ---- (1) every border vertex as starting point
    for s in bverts:
        o = call(extract_border_cycle, m, s)
        rep.transitions += 1; rep.evaluations += 1
        if not o.ok:
            bad("cycle", "extract_border_cycle", exc_kind(o), {"start": s, "msg": o.msg}); continue
        r = o.value
        if not (isinstance(r, (tuple, list)) and len(r) == 2):
            bad("cycle", "extract_border_cycle", "mismatch:result_shape", {"start": s, "got": repr(r)}); continue
        vb, eb = _as_int_list(r[0]), [None if x is None else int(x) for x in r[1]]
        j = _judge_walk(vb, s, loop_of, loops, bedges)
        rep.outcome("cycle", j or "ok")
        if j:
            bad("cycle", "extract_border_cycle", "mismatch:" + j, {"start": s, "got_vertices": vb, "want_loop": loops[loop_of[s]]})
            continue
        want_e = [eid[_norm(vb[i], vb[(i + 1) % len(vb)])] for i in range(len(vb))]
        if eb != want_e:
            bad("cycle_edges", "extract_border_cycle", "mismatch:edge_list", {"start": s, "got_vertices": vb, "got_edges": eb, "want_edges": want_e})
    # ---- (1b) default starting point, on a fresh mesh
    m = build()
    o = call(extract_border_cycle, m)
    rep.transitions += 1; rep.evaluations += 1
    if not o.ok:
        bad("cycle", "extract_border_cycle", exc_kind(o), {"start": "default (None)", "msg": o.msg})
    elif not loops:
        r = o.value
        if not (len(r) == 0 or (len(r) == 2 and len(r[0]) == 0 and len(r[1]) == 0)):
            bad("cycle", "extract_border_cycle", "mismatch:cycle_on_closed_mesh", {"got": repr(r)})
    else:
        r = o.value
        if not (isinstance(r, (tuple, list)) and len(r) == 2):
            bad("cycle", "extract_border_cycle", "mismatch:result_shape", {"got": repr(r)})
        else:
            vb = _as_int_list(r[0])
            j = _judge_walk(vb, None, loop_of, loops, bedges)
            if j:
                bad("cycle", "extract_border_cycle", "mismatch:" + j, {"start": "default (None)", "got_vertices": vb, "loops": loops})
    # ---- (1c) a starting point that is not on the border (observed only: the statement is silent)
    interior = [v for v in range(n) if v not in loop_of]
    if interior and loops:
        o = call(extract_border_cycle, m, interior[0])
        rep.outcome("non_border_start", "raises" if not o.ok else "answers")

    # ---- (2) all cycles, fresh mesh
    m = build()
    o = call(extract_border_cycle_all, m)
    rep.transitions += 1; rep.evaluations += 1
    if not o.ok:
        bad("cycle_all", "extract_border_cycle_all", exc_kind(o), {"msg": o.msg})
    else:
        got = [_as_int_list(c) for c in o.value]
        verdict = None
        hit = []
        for c in got:
            j = _judge_walk(c, None, loop_of, loops, bedges)
            if j:
                verdict = ("loop_not_a_border_walk", {"bad_cycle": c, "why": j}); break
            hit.append(loop_of[c[0]])
        if verdict is None and len(set(hit)) != len(hit):
            verdict = ("loop_repeated", {})
        if verdict is None and len(got) != len(loops):
            verdict = ("loop_count", {})
        rep.outcome("cycle_all", verdict[0] if verdict else f"ok:{min(len(loops), 5)}")
        if verdict:
            bad("cycle_all", "extract_border_cycle_all", "mismatch:" + verdict[0], {"got": got, "want_loops": loops, **verdict[1]})

    # ---- (3) border polyline + index map, fresh mesh
    m = build()
    o = call(extract_boundary_of_surface, m)
    rep.transitions += 1; rep.evaluations += 1
    if not o.ok:
        bad("polyline", "extract_boundary_of_surface", exc_kind(o), {"msg": o.msg})
    else:
        j = call(_judge_polyline, o.value, m, bverts, bedges, rep)
        verdict = j.value if j.ok else ("result_shape", {"got": repr(o.value)[:300], "reading_it_raised": f"{j.exc}: {j.msg}"})
        rep.outcome("polyline", verdict[0] if verdict else "ok")
        if placement is not None:
            rep.outcome(f"placed:{placement[0]}:polyline", verdict[0] if verdict else f"ok:loops={min(len(loops), 3)}")
        if verdict:
            bad("polyline." + verdict[0].split(":")[0], "extract_boundary_of_surface", "mismatch:" + verdict[0], verdict[1])

    # ---- coverage
    comps = F.components(n, F.undirected_edges(faces))
    rep.states += 1; rep.traces += 1
    rep.count("border_meshes")
    rep.flag(f"loops={min(len(loops), 5)}")
    if loops:
        rep.case(("border", n, tuple(map(tuple, faces)), sort))
        if len(comps) > 1:
            rep.flag("several_components")
        if len(loops) > len([c for c in comps if any(v in loop_of for v in c)]):
            rep.flag("component_with_several_loops")
        if L.chords_of(faces):
            rep.flag("chord")
        if interior:
            rep.flag("interior_vertex")
    if any(len(f) > 3 for f in faces):
        rep.flag("border:polygons")
    if len(rep.samples) < 1 and len(loops) >= 2:
        rep.sample({"mesh": name, "faces": faces, "sort": sort, "loops": loops})


def _judge_polyline(value, m, bverts, bedges, rep):
    if not (isinstance(value, (tuple, list)) and len(value) == 2):
        return ("result_shape", {"got": repr(value)})
    pl, mp = value
    nb = len(bverts)
    pv = [tuple(float(x) for x in p) for p in pl.vertices]
    pe = [tuple(int(x) for x in e) for e in pl.edges]
    if len(pv) != nb:
        return ("vertices:count", {"got": len(pv), "want": nb})
    mp = {int(k): int(v) for k, v in dict(mp).items()}
    fwd = sorted(mp.keys()) == bverts and sorted(mp.values()) == list(range(nb))       # mesh -> polyline
    bwd = sorted(mp.values()) == bverts and sorted(mp.keys()) == list(range(nb))       # polyline -> mesh
    if not (fwd or bwd):
        return ("index_map:not_a_bijection", {"map": mp, "border_vertices": bverts})
    cands = []
    if fwd:
        cands.append({v: k for k, v in mp.items()})
    if bwd:
        cands.append(dict(mp))
    why = None
    for p2m in cands:          # (both can be bijections when the border vertices are 0..nb-1: accept either)
        coords_ok = all(pv[i] == tuple(float(x) for x in m.vertices[p2m[i]]) for i in range(nb))
        mapped = sorted(_norm(p2m[a], p2m[b]) for a, b in pe if 0 <= a < nb and 0 <= b < nb)
        edges_ok = len(mapped) == len(pe) and mapped == sorted(bedges)
        if coords_ok and edges_ok:
            comp = pl.vertices.get_attribute("component") if pl.vertices.has_attribute("component") else None
            if comp is not None and bverts != list(range(nb)):
                # outside the statement, observed only (DESIGN 'T'): the attribute lives on the polyline's vertex
                # container but is keyed by the surface index of each vertex
                keys = set(int(k) for k in comp._data) if isinstance(comp._data, dict) else set()
                keys |= set(v for v in bverts if int(comp[v]) != 0)
                if keys and not keys <= set(range(nb)):
                    rep.count("observed:polyline_component_attribute_keyed_by_surface_index")
            return None
        why = why or (("index_map:coordinates" if not coords_ok else "edges:set"),
                      {"map": mp, "polyline_edges": pe, "mapped_edges": mapped, "want_edges": sorted(bedges)})
    return why


# ------------------------------------------------------------------------------------------ border: histories, forms
EVENTS = ("cycle_default", "cycle_start", "cycle_all", "polyline")
_CALLEE = {"cycle_default": "extract_border_cycle", "cycle_start": "extract_border_cycle",
           "cycle_all": "extract_border_cycle_all", "polyline": "extract_boundary_of_surface"}
START_FORMS = ("np.int64", "np.int32", "np.intp", "np.uint16", "int_subclass")


class _Index(int):
    """a user-defined subclass of int (e.g. an IntEnum member / a typed index)"""


def _make_start(form, s):
    import numpy as np
    if form == "int_subclass":
        return _Index(s)
    return getattr(np, form[3:])(s)


def _form_class(x):
    import numpy as np
    if isinstance(x, np.integer):
        return "numpy-integer:" + ("unsigned" if isinstance(x, np.unsignedinteger) else "signed")
    return "int-subclass" if type(x) is not int else "int"


class _BorderRef:
    """what the statement says about one face list, from the raw faces only (+ the mesh's own edge numbering)"""

    def __init__(self, n, faces, E):
        self.loops = F.border_loops(faces)
        self.loop_of = {v: i for i, l in enumerate(self.loops) for v in l}
        self.bverts = sorted(self.loop_of)
        self.interior = [v for v in range(n) if v not in self.loop_of]
        self.bedges = set(_norm(a, b) for a, b in F.border_half_edges(faces))
        self.eid = {e: i for i, e in enumerate(E)}
        self.bedge_ids = sorted(self.eid[e] for e in self.bedges)
        self.iedge_ids = sorted(set(range(len(E))) - set(self.bedge_ids))


def _verdict_cycle(o, start, ref):
    """None | (kind, detail) for one answer of extract_border_cycle(mesh[, start]); start None = default."""
    if not o.ok:
        return exc_kind(o), {"msg": o.msg}
    r = o.value
    if not ref.loops:
        if not (len(r) == 0 or (len(r) == 2 and len(r[0]) == 0 and len(r[1]) == 0)):
            return "mismatch:cycle_on_closed_mesh", {"got": repr(r)}
        return None
    if not (isinstance(r, (tuple, list)) and len(r) == 2):
        return "mismatch:result_shape", {"got": repr(r)}
    vb, eb = _as_int_list(r[0]), [None if x is None else int(x) for x in r[1]]
    j = _judge_walk(vb, start, ref.loop_of, ref.loops, ref.bedges)
    if j:
        return "mismatch:" + j, {"got_vertices": vb, "loops": ref.loops}
    want_e = [ref.eid[_norm(vb[i], vb[(i + 1) % len(vb)])] for i in range(len(vb))]
    if eb != want_e:
        return "mismatch:edge_list", {"got_vertices": vb, "got_edges": eb, "want_edges": want_e}
    return None


def _verdict_all(o, ref):
    if not o.ok:
        return exc_kind(o), {"msg": o.msg}
    got = [_as_int_list(c) for c in o.value]
    hit = []
    for c in got:
        j = _judge_walk(c, None, ref.loop_of, ref.loops, ref.bedges)
        if j:
            return "mismatch:loop_not_a_border_walk", {"got": got, "bad_cycle": c, "why": j, "want_loops": ref.loops}
        hit.append(ref.loop_of[c[0]])
    if len(set(hit)) != len(hit):
        return "mismatch:loop_repeated", {"got": got, "want_loops": ref.loops}
    if len(got) != len(ref.loops):
        return "mismatch:loop_count", {"got": got, "want_loops": ref.loops}
    return None


def _verdict_polyline(o, m, ref, rep):
    if not o.ok:
        return exc_kind(o), {"msg": o.msg}
    j = call(_judge_polyline, o.value, m, ref.bverts, ref.bedges, rep)
    v = j.value if j.ok else ("result_shape", {"got": repr(o.value)[:300], "reading_it_raised": f"{j.exc}: {j.msg}"})
    return None if v is None else ("mismatch:" + v[0], v[1])


def _cached_lists(m, ref, snap):
    """None | name of the first border/interior container of the mesh (or element array) that is not what it was."""
    if sorted(int(v) for v in m.boundary_vertices) != ref.bverts:
        return "boundary_vertices"
    if sorted(int(v) for v in m.interior_vertices) != ref.interior:
        return "interior_vertices"
    if sorted(int(e) for e in m.boundary_edges) != ref.bedge_ids:
        return "boundary_edges"
    if sorted(int(e) for e in m.interior_edges) != ref.iedge_ids:
        return "interior_edges"
    if any(bool(m.is_vertex_on_border(v)) != (v in ref.loop_of) for v in range(len(snap[0]))):
        return "is_vertex_on_border"
    if _snapshot(m) != snap:
        return "mesh_elements"
    return None


def _snapshot(m):
    return ([tuple(float(x) for x in p) for p in m.vertices], [tuple(int(x) for x in e) for e in m.edges],
            [tuple(int(x) for x in f) for f in m.faces])


_CONTAINERS = ("vertices", "edges", "faces", "face_corners", "cells", "cell_corners", "cell_faces")


def _blackboard(m):
    """{'<container>.<attribute name>': values over the whole container} for every attribute of every container of m."""
    out = {}
    for cname in _CONTAINERS:
        c = getattr(m, cname, None)
        if c is None or not hasattr(c, "attributes"):
            continue
        for an in sorted(c.attributes):
            a = c.get_attribute(an)
            out[cname + "." + str(an)] = repr([a[i] for i in range(len(c))])
    return out


def _own_border_attributes(build):
    """Names of the attributes that the mesh's OWN border accessors (boundary_vertices / interior_vertices / boundary_edges /
    interior_edges / is_vertex_on_border - the documented lazily cached containers of SurfaceMesh) put on a fresh mesh:
    computed on the tree under test, a border query that reads these accessors may leave exactly those behind."""
    m = build()
    before = set(_blackboard(m))
    _ = (list(m.boundary_vertices), list(m.interior_vertices), list(m.boundary_edges), list(m.interior_edges))
    if len(m.vertices):
        m.is_vertex_on_border(0)
    return sorted(set(_blackboard(m)) - before)


def _blackboard_verdict(before, after, allowed):
    """None | (what, container, detail): the attribute blackboard after a border query against the one before it."""
    added = sorted(k for k in after if k not in before and k not in allowed)
    if added:
        return "attribute_added", added[0].split(".")[0], {"attributes_added": added}
    removed = sorted(k for k in before if k not in after)
    if removed:
        return "attribute_removed", removed[0].split(".")[0], {"attributes_removed": removed}
    changed = sorted(k for k in before if before[k] != after[k])
    if changed:
        return "attribute_values", changed[0].split(".")[0], {"attributes_changed": changed, "before": before[changed[0]][:300],
                                                             "after": after[changed[0]][:300]}
    return None


def _check_border_history(M, name, n, pts, faces, sort, rep: Report):
    """Clause 'border extraction is a pure query': every ordered pair (a, b) of the four entry points, played as the
    history a, b, a, b on ONE mesh object; every answer must be what the statement says about the face list, and
    the border / interior containers of the mesh must still describe it after every call. Only what differs from the
    answer of the same entry point on a fresh mesh is reported here (that answer is the subject of the base clauses).
    Clause 'the attribute blackboard of the mesh is the same after a border query as before': names of the attributes of
    every container (apart from those that the mesh's own border accessors create on a fresh mesh, computed) and the values of
    the attributes that were there before the call.
    Clause 'all starting points' x argument form: every border vertex given as every kind of integer object.
    The runner plays the whole task once more with config.display_duplicate_attribute_warning = True (dupflag_variant)."""
    from mouette.processing import extract_border_cycle, extract_border_cycle_all, extract_boundary_of_surface
    P = pts if pts is not None else F.moment_curve(n)
    build = lambda: F.build_surface(P, faces)
    m = build()
    E = [tuple(int(x) for x in e) for e in m.edges]
    if sorted(E) != sorted(F.undirected_edges(faces)):
        rep.count("premise_failed"); rep.notes.append(f"{name}: mesh.edges differs from the sides of the faces")
        return
    ref = _BorderRef(n, faces, E)
    snap = _snapshot(m)
    base = {"mesh": name, "points": "moment_curve" if pts is None else P, "faces": faces, "sort": sort}
    o = call(_cached_lists, m, ref, snap)
    if not o.ok or o.value is not None:
        rep.count("history:premise_border_containers_of_a_fresh_mesh"); return     # C01/C02's subject
    start = ref.loops[-1][-1] if ref.loops else None
    events = [e for e in EVENTS if e != "cycle_start" or start is not None]
    o = call(_own_border_attributes, build)
    if not o.ok:
        rep.count("history:premise_border_containers_of_a_fresh_mesh"); return
    allowed = o.value
    rep.outcome("history:attributes_of_the_mesh_own_border_accessors", ",".join(allowed))

    def play(ev, mesh):
        if ev == "cycle_default":
            return _verdict_cycle(call(extract_border_cycle, mesh), None, ref)
        if ev == "cycle_start":
            return _verdict_cycle(call(extract_border_cycle, mesh, start), start, ref)
        if ev == "cycle_all":
            return _verdict_all(call(extract_border_cycle_all, mesh), ref)
        return _verdict_polyline(call(extract_boundary_of_surface, mesh), mesh, ref, rep)

    fresh = {}
    for ev in events:
        v = play(ev, build())
        fresh[ev] = v[0] if v else None
        rep.transitions += 1
    # ---- histories
    for a in events:
        for b in events:
            mesh = build()
            prev = "nothing"
            hist = []
            for k, ev in enumerate((a, b, a, b)):
                bb0 = call(_blackboard, mesh)
                v = play(ev, mesh)
                hist.append(ev)
                rep.transitions += 1; rep.evaluations += 1
                rep.outcome("history:" + ev, v[0] if v else "ok")
                if v is not None:
                    if v[0] != fresh[ev]:
                        rep.violation("C15.border.history." + ("cycle" if ev.startswith("cycle_") and ev != "cycle_all" else ev),
                                      _CALLEE[ev], v[0], f"after={prev}",
                                      {**base, "history_on_one_mesh_object": hist, "start": start, **v[1]})
                    else:
                        rep.count("history:same_as_on_a_fresh_mesh")
                    break
                c = call(_cached_lists, mesh, ref, snap)
                rep.evaluations += 1
                if not c.ok or c.value is not None:
                    what = c.value if c.ok else "reading_raises:" + c.exc
                    rep.violation("C15.border.history.mesh_unchanged", _CALLEE[ev], "side_effect:" + what,
                                  "first_call_of_the_entry_point" if ev not in hist[:-1] else "repeated_call_of_the_entry_point",
                                  {**base, "history_on_one_mesh_object": hist, "start": start,
                                   "boundary_vertices_now": call(lambda: [int(v) for v in mesh.boundary_vertices]).value,
                                   "want_boundary_vertices": ref.bverts})
                    break
                bb1 = call(_blackboard, mesh)
                rep.evaluations += 1
                if bb0.ok:        # (a blackboard that cannot be read before the call is not the call's doing)
                    w = _blackboard_verdict(bb0.value, bb1.value, allowed) if bb1.ok else \
                        ("reading_raises:" + bb1.exc, "any", {"msg": bb1.msg})
                    rep.outcome("history:blackboard", w[0] if w else "same")
                    if w:
                        rep.violation("C15.border.history.attributes_unchanged", _CALLEE[ev], "side_effect:" + w[0],
                                      f"container={w[1]}:" + ("first_call_of_the_entry_point" if ev not in hist[:-1]
                                                              else "repeated_call_of_the_entry_point"),
                                      {**base, "history_on_one_mesh_object": hist, "start": start,
                                       "attributes_before": sorted(bb0.value), "attributes_after": sorted(bb1.value) if bb1.ok else None,
                                       "attributes_of_the_mesh_own_border_accessors": allowed, **w[2]})
                        # (the history goes on: the answers of the later calls are judged on their own)
                    if bb0.value:
                        rep.flag("history:blackboard_not_empty_before_the_call")
                prev = ev
            rep.traces += 1; rep.states += 1
            rep.case(("hist", n, tuple(map(tuple, faces)), sort, a, b))
    rep.count("history_meshes")
    rep.flag(f"history:loops={min(len(ref.loops), 3)}")
    # ---- argument forms of the starting point
    mesh = build()
    for s in ref.bverts:
        v0 = _verdict_cycle(call(extract_border_cycle, mesh, s), s, ref)
        rep.transitions += 1
        for form in START_FORMS:
            x = _make_start(form, s)
            v = _verdict_cycle(call(extract_border_cycle, mesh, x), s, ref)
            rep.transitions += 1; rep.evaluations += 1
            rep.outcome("start_form:" + form, v[0] if v else "ok")
            rep.case(("form", n, tuple(map(tuple, faces)), sort, s, form))
            if v is not None and (v0 is None or v[0] != v0[0]):
                rep.violation("C15.border.start_form.cycle", "extract_border_cycle", v[0], "start_form=" + _form_class(x),
                              {**base, "start": s, "start_given_as": form, **v[1]})
            if s != ref.bverts[0] and len(ref.loops) > 1 and ref.loop_of[s] != ref.loop_of[ref.bverts[0]]:
                rep.flag("start_form:start_on_another_loop_than_the_default")
    c = call(_cached_lists, mesh, ref, snap)
    if not c.ok or c.value is not None:
        rep.violation("C15.border.history.mesh_unchanged", "extract_border_cycle",
                      "side_effect:" + (c.value if c.ok else "reading_raises:" + c.exc), "repeated_call_of_the_entry_point", {**base})


# ========================================================================================== features
def _declare(M, pts, faces, und, mode, sel):
    """Build the mesh and declare hard edges. Returns (mesh, declared set of sorted pairs, explicit_false set)."""
    pick = {"none": [], "all": list(und), "even": und[0::2], "odd": und[1::2]}[sel]
    if mode == "raw":
        # listed in either direction: construction normalises (C02)
        raw_edges = [list(e) if i % 2 == 0 else [e[1], e[0]] for i, e in enumerate(pick)]
        m = F.build_surface(pts, faces, edges=raw_edges or None)
        return m, set(pick), set()
    m = F.build_surface(pts, faces)
    E = [tuple(int(x) for x in e) for e in m.edges]
    eid = {e: i for i, e in enumerate(E)}
    attr = m.edges.create_attribute("hard_edges", bool, dense=(mode == "dense"))
    for e in pick:
        attr[eid[e]] = True
    false_set = set()
    if mode == "sparse_false":
        for e in und:
            if e not in pick:
                attr[eid[e]] = False
                false_set.add(e)
    return m, set(pick), false_set


class _Ctx:
    pass


def _check_detector(rep: Report, det, m, orc, cx, phase, baseline):
    """All clauses on one finished run. `baseline` = mismatch keys already seen on the first run of the same
    (mesh, declaration, options) without previous state: only NEW mismatches get the phase in their class."""
    ob, fc, co = cx.opts
    E, eid = cx.E, cx.eid
    nE, n = len(E), orc.n

    def cls(key, text):
        if phase == "once" or key in baseline:
            return text
        return text + ":" + phase

    only_new = bool(getattr(cx, "only_new", False))      # re-use clauses: report only what a fresh detector gets right
    prefix = getattr(cx, "prefix", "")

    def bad(sub, callee, kind, icls, key, detail):
        if phase == "once":
            baseline.add(key)
        if only_new and key in baseline:
            rep.count("reuse:same_as_a_fresh_detector"); return
        # re-use clauses: the class is the relation between the two surfaces, not the kind of edge / vertex
        rep.violation("C15.features." + prefix + sub, callee, kind, cx.reuse_class if only_new else cls(key, icls),
                      {**cx.base, "phase": phase, **({"class_of_base_clause": icls} if only_new else {}), **detail})

    # ---- clause 1: the edge set
    try:
        fe = set(int(e) for e in det.feature_edges)
    except Exception as ex:  # noqa
        bad("edges", "FeatureEdgeDetector.feature_edges", "mismatch:not_a_set_of_indices", "any", ("fe", "type"), {"got": repr(det.feature_edges), "exc": repr(ex)})
        return
    rep.evaluations += nE
    if any(e < 0 or e >= nE for e in fe):
        bad("edges", "FeatureEdgeDetector.feature_edges", "mismatch:invalid_edge_index", "any", ("fe", "range"), {"got": sorted(fe), "n_edges": nE})
        fe = set(e for e in fe if 0 <= e < nE)
    reported = set()
    for i, e in enumerate(E):
        declared = e in cx.declared
        want = orc.expected(e, declared, ob)
        got = i in fe
        dstate = "declared" if declared else ("explicit_false" if e in cx.false_set else "undeclared")
        band = orc.band[e]
        if want is None:
            rep.count("filtered_ill_conditioned"); continue
        if not ob:
            rep.outcome(f"edge:{band}:{dstate}", got)
            if phase in ("far_from_origin", "unit_of_length") and not orc.border[e]:
                rep.outcome(f"placed:{phase}:edge", got)
        else:
            rep.outcome(f"edge:only_border:{'border' if orc.border[e] else 'interior'}", got)
        if got != want:
            # coarse class of the offending edge: where it is, how it was declared, which side of the threshold
            # that decides it (an undeclared edge is decided by 60 deg only, a declared one by ~37 deg only)
            if orc.border[e]:
                sig = f"border-edge:{dstate}"
            elif orc.nonconvex[e]:
                sig = "interior-edge:nonconvex-face"
            elif declared:
                sig = f"interior-edge:declared:{'<37' if band == '<37' else '>37'}"
            else:
                sig = f"interior-edge:{dstate}:{'>60' if band == '>60' else '<60'}"
            sig += f":only_border={ob}"
            if sig in reported:
                continue
            reported.add(sig)
            bad("edges", "FeatureEdgeDetector.feature_edges", "mismatch:missing_edge" if want else "mismatch:extra_edge",
                sig, ("edge", sig), {"edge": list(e), "edge_index": i, "flagged": got, "want": want,
                                     "got_feature_edges": sorted(fe)})
    # ---- clause 2: derived data, relative to the detector's OWN edge set
    inc = [[] for _ in range(n)]
    for i in sorted(fe):
        inc[E[i][0]].append(i); inc[E[i][1]].append(i)
    want_fv = set(v for v in range(n) if inc[v])
    fv = set(int(v) for v in det.feature_vertices)
    rep.evaluations += 1
    if fv != want_fv:
        bad("vertices", "FeatureEdgeDetector.feature_vertices", "mismatch:vertex_set", f"only_border={ob}", ("fv",),
            {"got": sorted(fv), "want": sorted(want_fv), "feature_edges": sorted(fe)})
    for v in range(n):
        rep.evaluations += 1
        g = int(det.feature_degrees[v])
        if g != len(inc[v]):
            bad("degrees", "FeatureEdgeDetector.feature_degrees", "mismatch:degree", f"only_border={ob}", ("deg",),
                {"vertex": v, "got": g, "want": len(inc[v]), "feature_edges": sorted(fe)})
            break
    lfe = det.local_feat_edges
    rep.evaluations += 1
    if set(int(k) for k in lfe) != want_fv:
        bad("local", "FeatureEdgeDetector.local_feat_edges", "mismatch:keys", f"only_border={ob}", ("lfe", "keys"),
            {"got_keys": sorted(int(k) for k in lfe), "want": sorted(want_fv)})
    else:
        for v in sorted(want_fv):
            ring = [int(x) for x in m.connectivity.vertex_to_edges(v)]
            got = [int(i) for i in lfe[v]]
            want = [i for i, ev in enumerate(ring) if ev in fe]
            rep.evaluations += 1
            if sorted(got) != want or len(set(got)) != len(got):
                bad("local", "FeatureEdgeDetector.local_feat_edges", "mismatch:local_indices", f"only_border={ob}:sort={cx.sort}", ("lfe", "idx"),
                    {"vertex": v, "got": got, "want": want, "vertex_to_edges": ring, "feature_edges": sorted(fe)})
                break
    # ---- clause 3: corner orders
    if fc:
        corners = det.corners
        if corners is None:
            bad("corners", "FeatureEdgeDetector.corners", "mismatch:corners_not_computed", f"order={co}", ("cor", "none"), {})
        else:
            for v in range(n):
                g = int(corners[v])
                if v in fv:
                    if cx.family == "nonconvex" and orc.reflex_vertex[v]:
                        continue
                    x = orc.angle_sum[v] * co / (2 * math.pi)
                    if abs((x % 1.0) - 0.5) < 1e-6:
                        rep.count("filtered_corner_rounding_tie"); continue
                    r = int(math.floor(x + 0.5))
                    ok = (g == r) or (r == 0 and g == 1)
                    rep.evaluations += 1
                    rep.outcome("corner", g)
                    if phase in ("far_from_origin", "unit_of_length"):
                        rep.outcome(f"placed:{phase}:corner", g)
                    if not ok:
                        where = "border" if any(orc.border[E[i]] for i in inc[v]) else "interior"
                        bad("corners", "FeatureEdgeDetector.corners", "mismatch:corner_order",
                            f"order={co}:{where}-vertex:{'x<0.5' if x < 0.5 else 'x>=0.5'}", ("cor", "val"),
                            {"vertex": v, "got": g, "want": r, "angle_sum": orc.angle_sum[v], "scaled": x})
                        break
                elif g != 0:
                    rep.evaluations += 1
                    if not only_new:
                        baseline.add(("cor", "stale"))     # class = previous state of the mesh, not the phase
                    bad("corners.non_feature_vertices", "FeatureEdgeDetector.corners", "mismatch:corner_on_non_feature_vertex",
                        f"previous={cx.base['previous']}:only_border={ob}", ("cor", "stale"),
                        {"vertex": v, "got": g, "feature_vertices": sorted(fv)})
                    break


def _run_feature_mesh(M, rep: Report, task, name, pts, faces, orc, und, placed=None):
    from mouette.processing import FeatureEdgeDetector
    from mouette.attributes import face_normals
    sort = bool(task["sort"])
    for mode, sel in task["decls"]:
        for opts in task["opts"]:
            ob, fc, co = bool(opts[0]), bool(opts[1]), int(opts[2])
            baseline = set()
            for prev in task["prevs"]:
                cx = _Ctx()
                cx.opts, cx.sort, cx.family = (ob, fc, co), sort, task["family"]
                cx.base = {"mesh": name, "points": pts, "faces": faces, "hard_edges": [mode, sel], "sort": sort,
                           "options": {"only_border": ob, "flag_corners": fc, "corner_order": co}, "previous": prev}
                o = call(_declare, M, pts, faces, und, mode, sel)
                if not o.ok:
                    rep.violation("C15.features.declare", "DataContainer.create_attribute", exc_kind(o), f"hard_edges={mode}", {**cx.base, "msg": o.msg})
                    continue
                m, cx.declared, cx.false_set = o.value
                cx.E = [tuple(int(x) for x in e) for e in m.edges]
                cx.eid = {e: i for i, e in enumerate(cx.E)}
                if sorted(cx.E) != und:
                    rep.count("premise_failed"); continue
                if prev == "full":
                    p = call(lambda: FeatureEdgeDetector(only_border=False, flag_corners=True, corner_order=co, verbose=False)(m))
                elif prev == "border":
                    p = call(lambda: FeatureEdgeDetector(only_border=True, flag_corners=True, corner_order=co, verbose=False)(m))
                elif prev == "normals":
                    p = call(face_normals, m)
                else:
                    p = None
                if p is not None and not p.ok:
                    rep.count("previous_run_raised")      # reported by the prev=None cases
                    continue
                det = FeatureEdgeDetector(only_border=ob, flag_corners=fc, corner_order=co,
                                          compute_feature_graph=(co != 6), verbose=False)
                for phase in ("once", "twice"):
                    ph = phase if prev is None else f"after_{prev}" + ("" if phase == "once" else ":twice")
                    r = call(det.run, m)
                    rep.transitions += 1; rep.traces += 1
                    if not r.ok:
                        rep.outcome("run", r.exc)
                        key = ("run", r.exc)
                        icls = f"hard_edges={mode}:only_border={ob}"
                        if not (ph == "once" or key in baseline):
                            icls += ":" + ph
                        if ph == "once":
                            baseline.add(key)
                        rep.violation("C15.features.run", "FeatureEdgeDetector.run", exc_kind(r), icls, {**cx.base, "phase": ph, "msg": r.msg})
                        break
                    rep.outcome("run", "ok")
                    c = call(_check_detector, rep, det, m, orc, cx, ph, baseline)
                    if not c.ok:     # reading the documented result containers failed
                        rep.violation("C15.features.containers", "FeatureEdgeDetector", "raises:" + c.exc,
                                      f"only_border={ob}:flag_corners={fc}", {**cx.base, "phase": ph, "msg": c.msg})
                rep.states += 1
                rep.case(("feat", name, mode, sel, ob, fc, co, prev, sort))
            # ---- the same surface in another unit of length / far from the origin (placed[i] = (map, points, reference))
            for (j, k, axis), ppts, porc in (placed or ()):
                kindp = L.place_label(j, k, axis)
                cx = _Ctx()
                cx.opts, cx.sort, cx.family = (ob, fc, co), sort, task["family"]
                cx.base = {"mesh": name, "points": ppts, "faces": faces, "hard_edges": [mode, sel], "sort": sort,
                           "options": {"only_border": ob, "flag_corners": fc, "corner_order": co}, "previous": None,
                           "placement": {"points_at_the_origin": pts, "multiplied_by": f"2^{j}",
                                         "then_translated_by": [float(t) for t in L.far_vector(k, axis)]}}
                o = call(_declare, M, ppts, faces, und, mode, sel)
                if not o.ok:
                    rep.count("placed:declaration_raised"); continue
                m, cx.declared, cx.false_set = o.value
                cx.E = [tuple(int(x) for x in e) for e in m.edges]
                cx.eid = {e: i for i, e in enumerate(cx.E)}
                if sorted(cx.E) != und:
                    rep.count("premise_failed"); continue
                det = FeatureEdgeDetector(only_border=ob, flag_corners=fc, corner_order=co,
                                          compute_feature_graph=(co != 6), verbose=False)
                r = call(det.run, m)
                rep.transitions += 1; rep.traces += 1; rep.states += 1
                rep.count("placed_runs:" + kindp)
                rep.flag(f"placed:{kindp}:2^{j}:T{k}:axis={axis}")
                rep.case(("feat_placed", name, mode, sel, ob, fc, co, j, k, axis, sort))
                if not r.ok:
                    rep.outcome("placed_run:" + kindp, r.exc)
                    key = ("run", r.exc)
                    icls = f"hard_edges={mode}:only_border={ob}"
                    if key not in baseline:
                        icls += ":" + kindp
                    rep.violation("C15.features.run", "FeatureEdgeDetector.run", exc_kind(r), icls, {**cx.base, "phase": kindp, "msg": r.msg})
                    continue
                rep.outcome("placed_run:" + kindp, "ok")
                c = call(_check_detector, rep, det, m, porc, cx, kindp, baseline)
                if not c.ok:
                    rep.violation("C15.features.containers", "FeatureEdgeDetector", "raises:" + c.exc,
                                  f"only_border={ob}:flag_corners={fc}" + ("" if ("containers", c.exc) in baseline else ":" + kindp),
                                  {**cx.base, "phase": kindp, "msg": c.msg})


def _placed_versions(rep, task, name, pts, faces, orc):
    """[(map, placed points, reference of the placed points)] for the maps of the task. The reference is evaluated on the
    placed coordinates; as the map is exact, it must classify every edge as at the origin (self-check of the harness)."""
    out = []
    for j, k, axis in task["places"]["maps"]:
        ppts = L.place(pts, j, k, axis)
        if ppts is None:
            rep.count("placed:filtered_inexact_coordinates"); continue
        porc = L.FeatureOracle(ppts, faces)
        if porc.band != orc.band or porc.border != orc.border or not porc.usable:
            rep.count("placed:reference_not_invariant"); rep.notes.append(f"{name}: reference differs under the exact map {j},{k},{axis}")
            continue
        if any(abs(a - b) > 1e-9 for a, b in zip(porc.angle_sum, orc.angle_sum)):
            rep.count("placed:reference_not_invariant"); rep.notes.append(f"{name}: angle sums differ under the exact map {j},{k},{axis}")
            continue
        out.append(((j, k, axis), ppts, porc))
    return out


def _run_features(M, task, rep: Report):
    for name, pts, faces in task["meshes"]:
        faces = [tuple(f) for f in faces]
        n = len(pts)
        if not F.is_oriented_manifold(faces, n):
            rep.count("premise_failed"); rep.notes.append(f"{name}: not an oriented manifold"); continue
        if task.get("places"):
            pts = L.quantize(pts, int(task["places"]["m"]))
        orc = L.FeatureOracle(pts, faces)
        if not orc.usable:
            rep.count("skipped_nonplanar_or_degenerate_faces"); continue
        und = list(orc.edges)
        rep.count("feature_meshes:" + task["family"])
        if not any(orc.border.values()):
            rep.flag("feat:closed")
        inc_border = set(v for e in orc.edges if orc.border[e] for v in e)
        for e in orc.edges:
            if not orc.border[e]:
                rep.flag("feat:band:" + orc.band[e])
                if orc.band[e] in (">60",) and (e[0] not in inc_border or e[1] not in inc_border):
                    rep.flag("feat:interior_feature_vertex")
        if len(rep.samples) < 3 and task["family"] in ("accordion", "cone"):
            rep.sample({"family": task["family"], "mesh": name, "faces": faces,
                        "bands": {f"{e[0]}-{e[1]}": orc.band[e] for e in orc.edges}})
        placed = _placed_versions(rep, task, name, pts, faces, orc) if task.get("places") else None
        if placed is not None:
            rep.count("placed_meshes:" + task["family"])
        _run_feature_mesh(M, rep, task, name, pts, faces, orc, und, placed)


def _run_feature_reuse(M, task, rep: Report):
    """Clause 'a detector describes the surface it is run on': ONE FeatureEdgeDetector object run on surface A and then
    on surface B, for every ordered pair (A, B) of the task's surfaces - B another mesh object ('other_mesh'), or, when
    both have the same face list, the SAME mesh object whose vertices were moved from A's to B's positions through the
    public container API ('deformed_mesh'). All clauses are evaluated on the second run against the exact reference of
    B; only what a fresh detector on a fresh B gets right is reported here (the rest belongs to the base clauses)."""
    from mouette.processing import FeatureEdgeDetector
    sort = bool(task["sort"])
    prepared = []
    for name, pts, faces in task["meshes"]:
        faces = [tuple(f) for f in faces]
        if not F.is_oriented_manifold(faces, len(pts)):
            rep.count("premise_failed"); rep.notes.append(f"{name}: not an oriented manifold"); continue
        orc = L.FeatureOracle(pts, faces)
        if not orc.usable:
            rep.count("skipped_nonplanar_or_degenerate_faces"); continue
        prepared.append((name, pts, faces, orc, list(orc.edges)))
    for i, (nA, pA, fA, oA, uA) in enumerate(prepared):
        for j, (nB, pB, fB, oB, uB) in enumerate(prepared):
            if i == j:
                continue
            same_topology = fA == fB and len(pA) == len(pB)
            # the two surfaces must differ in what the statement says about them, or the pair shows nothing
            differs = (not same_topology) or any(oA.band[e] != oB.band[e] for e in oA.edges)
            for how in (("other_mesh", "deformed_mesh") if same_topology else ("other_mesh",)):
                for mode, sel in task["decls"]:
                    for opts in task["opts"]:
                        ob, fc, co = bool(opts[0]), bool(opts[1]), int(opts[2])
                        phase = "reused_detector:" + how
                        cx = _Ctx()
                        cx.opts, cx.sort, cx.family = (ob, fc, co), sort, task["family"]
                        cx.base = {"first_surface": {"mesh": nA, "points": pA, "faces": fA}, "reuse": how,
                                   "mesh": nB, "points": pB, "faces": fB, "hard_edges": [mode, sel], "sort": sort,
                                   "options": {"only_border": ob, "flag_corners": fc, "corner_order": co}, "previous": None}
                        mk = lambda: FeatureEdgeDetector(only_border=ob, flag_corners=fc, corner_order=co,
                                                         compute_feature_graph=(co != 6), verbose=False)
                        # -- what a fresh detector answers on a fresh B (not reported here)
                        o = call(_declare, M, pB, fB, uB, mode, sel)
                        if not o.ok:
                            rep.count("reuse:declaration_raised"); continue
                        mB, cx.declared, cx.false_set = o.value
                        cx.E = [tuple(int(x) for x in e) for e in mB.edges]
                        cx.eid = {e: k for k, e in enumerate(cx.E)}
                        if sorted(cx.E) != uB:
                            rep.count("premise_failed"); continue
                        baseline, scratch = set(), Report()
                        det0 = mk()
                        r0 = call(det0.run, mB)
                        if r0.ok:
                            c0 = call(_check_detector, scratch, det0, mB, oB, cx, "once", baseline)
                            if not c0.ok:
                                baseline.add(("containers", c0.exc))
                        else:
                            baseline.add(("run", r0.exc))
                        # -- the re-used detector
                        det = mk()
                        o = call(_declare, M, pA, fA, uA, mode, sel)
                        if not o.ok:
                            rep.count("reuse:declaration_raised"); continue
                        mA = o.value[0]
                        r1 = call(det.run, mA)
                        rep.transitions += 1
                        if not r1.ok:
                            rep.count("reuse:first_run_raised"); continue      # reported by the base clauses
                        if how == "deformed_mesh":
                            for k, p in enumerate(pB):
                                mA.vertices[k] = M.Vec(float(p[0]), float(p[1]), float(p[2]))
                            target = mA
                            if [tuple(int(x) for x in e) for e in target.edges] != cx.E:
                                rep.count("premise_failed"); continue
                        else:
                            target = _declare(M, pB, fB, uB, mode, sel)[0]
                        r2 = call(det.run, target)
                        rep.transitions += 1; rep.traces += 1; rep.states += 1
                        rep.count("reuse_cases:" + how)
                        if differs:
                            rep.case(("reuse", nA, nB, how, mode, sel, ob, fc, co, sort))
                        cx.reuse_class = how + (":same_faces" if same_topology else
                                                (":more_faces" if len(fB) > len(fA) else ":fewer_or_as_many_faces"))
                        rep.flag("reuse:" + cx.reuse_class)
                        if not r2.ok:
                            rep.outcome("reuse_run", r2.exc)
                            if ("run", r2.exc) not in baseline:
                                rep.violation("C15.features.reuse.run", "FeatureEdgeDetector.run", exc_kind(r2),
                                              cx.reuse_class, {**cx.base, "phase": phase, "msg": r2.msg})
                            continue
                        rep.outcome("reuse_run", "ok")
                        cx.only_new, cx.prefix = True, "reuse."
                        c = call(_check_detector, rep, det, target, oB, cx, phase, baseline)
                        if not c.ok and ("containers", c.exc) not in baseline:
                            rep.violation("C15.features.reuse.containers", "FeatureEdgeDetector", "raises:" + c.exc,
                                          cx.reuse_class, {**cx.base, "phase": phase, "msg": c.msg})


# ========================================================================================== defaults / call forms
# The documented signatures of the public entry points of this property: a pinned copy of the signatures / docstrings of
# the unchanged tree (NOT read from the library at run time: a change of a default changes the signature too).
# [parameter name, documented default | REQ], in the documented positional order.
REQ = "<required>"
SIGNATURES = {
    "extract_border_cycle": [["mesh", REQ], ["starting_point", None]],
    "extract_border_cycle_all": [["mesh", REQ]],
    "extract_boundary_of_surface": [["mesh", REQ]],
    "FeatureEdgeDetector.__init__": [["self", REQ], ["only_border", False], ["flag_corners", True], ["corner_order", 4],
                                     ["compute_feature_graph", True], ["verbose", True]],
    "FeatureEdgeDetector.run": [["self", REQ], ["mesh", REQ]],
    "FeatureEdgeDetector.detect": [["self", REQ], ["mesh", REQ]],
}
DET_PARAMS = [p for p, _ in SIGNATURES["FeatureEdgeDetector.__init__"][1:]]
DET_DEFAULT = [d for _, d in SIGNATURES["FeatureEdgeDetector.__init__"][1:]]
DET_ALT = [[True], [False], [6, 2], [False], [False]]       # the other values of every option (discrimination guards)
# every documented default: (callee, parameter) - finish() demands that each was exercised (omitted, and given positionally)
DEFAULTS_TABLE = [(c, p) for c, sig in sorted(SIGNATURES.items()) for p, d in sig if not (isinstance(d, str) and d == REQ)]
DET_VECTORS = [[True, False, 6, False, False], [False, True, 2, True, False], [True, True, 4, True, False],
               [False, False, 6, True, True]]
SUMMARY_FIELDS = ("feature_edges", "feature_vertices", "feature_degrees", "local_feat_edges", "corners", "feature_graph",
                  "corner_point_cloud", "log_output")


def _is_req(x):
    return isinstance(x, str) and x == REQ


def _same_value(a, b):
    return type(a) is type(b) and bool(a == b)


def _resolve(M, callee):
    from mouette import processing as P
    obj = P
    for part in callee.split("."):
        obj = getattr(obj, part)
    return obj


def _check_signatures(M, rep: Report):
    """Clause 'the documented defaults are the defaults': the pinned table against inspect.signature() of the tree under
    test. A default that differs from the documented one IS the defect (class = the parameter)."""
    import inspect
    for callee, want in sorted(SIGNATURES.items()):
        o = call(lambda: inspect.signature(_resolve(M, callee)))
        rep.evaluations += 1; rep.transitions += 1
        if not o.ok:
            rep.violation("C15.defaults.signature", callee, exc_kind(o), "any", {"msg": o.msg}); continue
        got = [[p.name, REQ if p.default is inspect.Parameter.empty else p.default, p.kind.name] for p in o.value.parameters.values()]
        shown = [[g[0], repr(g[1]), g[2]] for g in got]
        rep.flag("defaults:signature_compared:" + callee)
        rep.outcome("signature", callee + ":" + str(len(got)))
        if [g[0] for g in got] != [w[0] for w in want]:
            names_g, names_w = [g[0] for g in got], [w[0] for w in want]
            first = next((w for g, w in zip(names_g + [None] * len(names_w), names_w) if g != w), names_g[-1] if names_g else "none")
            kind = "mismatch:parameter_order" if sorted(names_g) == sorted(names_w) else "mismatch:parameter_names"
            rep.violation("C15.defaults.signature", callee, kind, str(first), {"documented": [[w[0], repr(w[1])] for w in want], "got": shown})
            continue
        for (name, d, kd), (_, wd) in zip(got, want):
            rep.evaluations += 1
            if kd != "POSITIONAL_OR_KEYWORD":
                rep.violation("C15.defaults.signature", callee, "mismatch:parameter_kind", name, {"documented": "positional or keyword", "got": shown})
            elif _is_req(wd) != _is_req(d) or (not _is_req(wd) and not call(_same_value, d, wd).value):
                rep.violation("C15.defaults.signature", callee, "mismatch:default_value", name,
                              {"parameter": name, "documented_default": repr(wd), "got_default": repr(d), "got": shown})


# ------------------------------------------------------------------------------------------ detector: construction forms
def _defaults_meshes(tier):
    mid = 0.5 * (L.TH37 + L.TH60)
    ms = [[f"hinge:{a:.4f}", *L.hinge(a)] for a in (0.15, mid, math.pi / 2, 2.6, -math.pi / 2)]
    ms += [["acc4x2tri", *L.accordion(4, 2, "tri", [L.TH60 + 0.02, -(L.TH37 + 0.02)])],
           ["acc4x3mixed", *L.accordion(4, 3, "mixed", [1.2, -0.2])], ["acc3x2quad", *L.accordion(3, 2, "quad", [1.2])]]
    ms += [[f"cone{k}:{h}", *L.cone(k, h)] for k, h in ((4, 0.5), (4, 5), (5, 2), (3, 1))]
    ms += [["bipyr4:2:0.5", *L.cone(4, 2, 0.5)]]
    for name in ("octahedron", "cube_quads", "tetrahedron_surface") + (() if tier == "quick" else ("icosahedron",)):
        p, f = getattr(F, name)(); ms.append([name, p, f])
    p, f = F.grid(3, 3, "tri"); ms.append(["flat3x3tri", p, f])
    p, f = L.swiss("quad"); ms.append(["swissquad", p, f])
    p, f = F.prism_annulus(4, True); ms.append(["annulus4a", p, f])
    return [[nm, [list(map(float, x)) for x in p], [list(x) for x in f]] for nm, p, f in ms]


def _detector_forms():
    """[label, class, n leading positional, names given by keyword, effective option vector]: every way of leaving out / placing the options."""
    forms = [["all_omitted", "omitted=all", 0, [], list(DET_DEFAULT)]]
    bases = [list(DET_DEFAULT)] + DET_VECTORS[:2]
    for i, p in enumerate(DET_PARAMS):
        for b, base in enumerate(bases):
            vec = list(base); vec[i] = DET_DEFAULT[i]
            forms.append([f"omit:{p}:others={'defaults' if b == 0 else 'v%d' % b}", "omitted=" + p, 0,
                          [q for q in DET_PARAMS if q != p], vec])
    for b, vec in enumerate(DET_VECTORS):
        for k in range(1, len(DET_PARAMS) + 1):
            forms.append([f"positional:{k}:v{b + 1}", "positional", k, DET_PARAMS[k:], list(vec)])
    return forms


def _det_summary(det, m):
    import io, contextlib
    n = len(m.vertices)
    buf = io.StringIO()
    with contextlib.redirect_stdout(buf):
        g, pc = det.feature_graph, det.corner_point_cloud
    return {"feature_edges": sorted(int(e) for e in det.feature_edges),
            "feature_vertices": sorted(int(v) for v in det.feature_vertices),
            "feature_degrees": [int(det.feature_degrees[v]) for v in range(n)],
            "local_feat_edges": sorted([int(k), sorted(int(i) for i in v)] for k, v in det.local_feat_edges.items()),
            "corners": None if det.corners is None else [int(det.corners[v]) for v in range(n)],
            "feature_graph": None if g is None else [len(g.vertices), len(g.edges)],
            "corner_point_cloud": None if pc is None else len(pc.vertices)}


def _play_detector(M, mk_mesh, args, kwargs, run_form="run"):
    """('ok', summary) | ('raises:<Exc>@<where>', message): build a fresh mesh, construct, run, read."""
    import io, contextlib
    from mouette.processing import FeatureEdgeDetector
    m = mk_mesh()
    buf = io.StringIO()
    with contextlib.redirect_stdout(buf):
        o = call(FeatureEdgeDetector, *args, **kwargs)
        if not o.ok:
            return "raises:" + o.exc, "FeatureEdgeDetector.__init__", o.msg
        det = o.value
        if run_form == "run":
            r = call(det.run, m)
        elif run_form == "run_keyword":
            r = call(det.run, mesh=m)
        elif run_form == "detect":
            r = call(det.detect, m)
        elif run_form == "detect_keyword":
            r = call(det.detect, mesh=m)
        else:
            r = call(det, m)
            if r.ok and r.value is not det:
                return "mismatch:call_does_not_return_the_detector", "FeatureEdgeDetector.__call__", repr(r.value)[:100]
        if not r.ok:
            return "raises:" + r.exc, "FeatureEdgeDetector.run", r.msg
    s = call(_det_summary, det, m)
    if not s.ok:
        return "raises:" + s.exc, "FeatureEdgeDetector", s.msg
    s.value["log_output"] = buf.getvalue().splitlines()
    return "ok", None, s.value


def _first_difference(a, b):
    """None | (kind, callee, detail) of answer a (form under test) against answer b (reference call)."""
    if a[0] != "ok" or b[0] != "ok":
        if a[0] == b[0]:
            return None
        if a[0] != "ok":
            return a[0], a[1], {"msg": a[2], "reference": b[0]}
        return "mismatch:answers_where_the_reference_raises", b[1], {"reference": b[0], "reference_msg": b[2]}
    for f in SUMMARY_FIELDS:
        if a[2][f] != b[2][f]:
            return "mismatch:" + f, "FeatureEdgeDetector.__init__", {"field": f, "got": a[2][f], "reference_call": b[2][f]}
    return None


RUN_FORMS = ("run_keyword", "detect", "detect_keyword", "__call__")


def _run_feature_defaults(M, task, rep: Report):
    """Clause 'an option left out means its documented default, an option given by position means the option documented at that
    position': every construction form of FeatureEdgeDetector (all options omitted; each option omitted with the others by
    keyword - at their defaults and at two other vectors; the first k options by position for k = 1..5 on four vectors) must
    give the same detection (edge set, derived data, corners, feature graph, corner cloud, log output) as the SAME effective
    option vector with every option given by keyword (DET_DEFAULT pinned from the documentation). The reference calls are
    the subject of the base clauses. Also the ways of running: run(mesh=), detect(mesh), detect(mesh=), detector(mesh)."""
    forms = _detector_forms()
    for name, pts, faces in task["meshes"]:
        faces = [tuple(f) for f in faces]
        if not F.is_oriented_manifold(faces, len(pts)):
            rep.count("premise_failed"); rep.notes.append(f"{name}: not an oriented manifold"); continue
        orc = L.FeatureOracle(pts, faces)
        und = list(orc.edges)
        for di, (mode, sel) in enumerate(task["decls"]):
            mk = lambda: _declare(M, pts, faces, und, mode, sel)[0]
            base = {"mesh": name, "points": pts, "faces": faces, "hard_edges": [mode, sel], "sort": bool(task["sort"])}
            refs = {}

            def ref(vec):
                key = repr(vec)
                if key not in refs:
                    refs[key] = _play_detector(M, mk, (), dict(zip(DET_PARAMS, vec)))
                    rep.transitions += 1
                return refs[key]

            explained = set()
            pending_all = None
            for label, fcls, k, kw_names, vec in forms:
                args = tuple(vec[:k])
                kwargs = {q: vec[DET_PARAMS.index(q)] for q in kw_names}
                got = _play_detector(M, mk, args, kwargs)
                rep.transitions += 1; rep.traces += 1; rep.states += 1; rep.evaluations += len(SUMMARY_FIELDS)
                d = _first_difference(got, ref(vec))
                rep.outcome("defaults:" + fcls, d[0] if d else "same")
                rep.case(("defaults", name, mode, sel, label, bool(task["sort"])))
                if fcls.startswith("omitted="):
                    for q in (DET_PARAMS if fcls == "omitted=all" else [fcls[len("omitted="):]]):
                        rep.flag("defaults:omitted:FeatureEdgeDetector.__init__." + q)
                else:
                    for q in DET_PARAMS[:k]:
                        rep.flag("defaults:positional:FeatureEdgeDetector.__init__." + q)
                if d is None:
                    continue
                detail = {**base, "construction": {"positional": list(args), "keyword": kwargs},
                          "effective_options_as_documented": dict(zip(DET_PARAMS, vec)), **d[2]}
                if fcls == "omitted=all":
                    pending_all = (d, detail)      # reported below unless a single omission shows the same difference
                    continue
                if fcls.startswith("omitted=") and label.endswith("others=defaults"):
                    explained.add(d[0])
                if fcls == "positional":
                    # one class of defect (the options are not taken in the documented order) whatever it leads to on this
                    # vector (another detection, or an exception because a number landed where a flag was meant)
                    rep.violation("C15.defaults.detector.positional", "FeatureEdgeDetector.__init__", "mismatch:positional_meaning",
                                  "positional", {**detail, "observed": d[0], "observed_in": d[1]})
                else:
                    rep.violation("C15.defaults.detector.omitted", d[1], d[0], fcls, detail)
            if pending_all is not None:
                d, detail = pending_all
                if d[0] in explained:
                    rep.count("defaults:all_omitted_explained_by_a_single_omission")
                else:
                    rep.violation("C15.defaults.detector.omitted", d[1], d[0], "omitted=all", detail)
            # ---- ways of running the detection (all options omitted, and one vector by keyword)
            # (against the plain det.run(mesh) of a detector built the same way)
            for vec, kwargs in ((list(DET_DEFAULT), {}), (DET_VECTORS[1], dict(zip(DET_PARAMS, DET_VECTORS[1])))):
                plain = _play_detector(M, mk, (), kwargs, "run")
                rep.transitions += 1
                for rf in RUN_FORMS:
                    got = _play_detector(M, mk, (), kwargs, rf)
                    rep.transitions += 1; rep.traces += 1; rep.evaluations += len(SUMMARY_FIELDS)
                    d = _first_difference(got, plain)
                    rep.outcome("defaults:run_form:" + rf, d[0] if d else "same")
                    rep.flag("defaults:run_form:" + rf)
                    if d is not None:
                        callee = {"__call__": "Worker.__call__"}.get(rf, "FeatureEdgeDetector." + rf.split("_")[0])
                        rep.violation("C15.defaults.detector.run_form", callee, d[0], "run_form=" + rf,
                                      {**base, "construction_keywords": kwargs, "run_form": rf, **d[2]})
            # ---- discrimination guards: another value of an option / two options swapped changes the answer on some input
            if di == 0:
                for i, p in enumerate(DET_PARAMS):
                    for alt in DET_ALT[i]:
                        vec = list(DET_DEFAULT); vec[i] = alt
                        if _first_difference(ref(vec), ref(list(DET_DEFAULT))) is not None:
                            rep.flag("defaults:discriminates:" + p)
                for vec in DET_VECTORS:
                    for i in range(len(DET_PARAMS) - 1):
                        sw = list(vec); sw[i], sw[i + 1] = sw[i + 1], sw[i]
                        if sw != vec and _first_difference(ref(sw), ref(vec)) is not None:
                            rep.flag(f"defaults:swap_discriminates:{DET_PARAMS[i]}<->{DET_PARAMS[i + 1]}")
        rep.count("defaults_meshes")


# ------------------------------------------------------------------------------------------ border: call forms
def _norm_cycle(r):
    if isinstance(r, (tuple, list)) and len(r) == 2 and isinstance(r[0], (tuple, list)):
        return [_as_int_list(r[0]), [None if x is None else int(x) for x in r[1]]]
    return [list(r)] if isinstance(r, (tuple, list)) else repr(r)


def _norm_polyline(r):
    pl, mp = r
    return {"vertices": [[float(x) for x in p] for p in pl.vertices], "edges": [[int(x) for x in e] for e in pl.edges],
            "map": sorted([int(k), int(v)] for k, v in dict(mp).items())}


def _check_border_forms(M, name, n, pts, faces, sort, rep: Report):
    """Clause 'the starting point left out means the documented default (None: the library picks a border vertex), arguments given
    by keyword mean the same as given by position': every form of calling the three border entry points against the plain
    positional call on an identical fresh mesh (the plain calls are the subject of the base clauses)."""
    from mouette.processing import extract_border_cycle, extract_border_cycle_all, extract_boundary_of_surface
    P = pts if pts is not None else F.moment_curve(n)
    build = lambda: F.build_surface(P, faces)
    base = {"mesh": name, "points": "moment_curve" if pts is None else P, "faces": faces, "sort": sort}
    loops = F.border_loops(faces)
    bverts = sorted(v for l in loops for v in l)
    dflt = SIGNATURES["extract_border_cycle"][1][1]

    def compare(sub, callee, fcls, got, want, norm, detail):
        rep.evaluations += 1
        g = call(lambda: norm(got.value)) if got.ok else got
        w = call(lambda: norm(want.value)) if want.ok else want
        verdict = None
        if not g.ok and w.ok:
            verdict = ("raises:" + g.exc, {"msg": g.msg})
        elif g.ok and not w.ok:
            verdict = ("mismatch:answers_where_the_plain_call_raises", {"plain_call": w.exc + ": " + w.msg})
        elif g.ok and g.value != w.value:
            verdict = ("mismatch:result", {"got": g.value, "plain_positional_call": w.value})
        elif not g.ok and g.exc != w.exc:
            verdict = ("raises:" + g.exc, {"msg": g.msg, "plain_call": w.exc})
        rep.outcome("border_form:" + fcls, verdict[0] if verdict else "same")
        if verdict:
            rep.violation("C15.defaults.border." + sub, callee, verdict[0], fcls, {**base, **detail, **verdict[1]})

    # ---- starting point omitted == the documented default given explicitly (by position), on identical fresh meshes
    want = call(extract_border_cycle, build(), dflt)
    got = call(extract_border_cycle, build())
    rep.transitions += 2; rep.traces += 1
    compare("omitted", "extract_border_cycle", "omitted=starting_point", got, want, _norm_cycle,
            {"call": "extract_border_cycle(mesh)", "reference_call": f"extract_border_cycle(mesh, {dflt!r})"})
    rep.flag("defaults:omitted:extract_border_cycle.starting_point")
    # ---- arguments by keyword == by position: the default ...
    for fcls, fn in (("keyword=starting_point", lambda m: extract_border_cycle(m, starting_point=dflt)),
                     ("keyword=mesh+starting_point", lambda m: extract_border_cycle(mesh=m, starting_point=dflt)),
                     ("keyword=mesh", lambda m: extract_border_cycle(mesh=m))):
        got = call(fn, build())
        rep.transitions += 1; rep.traces += 1
        compare("keyword", "extract_border_cycle", fcls, got, want if fcls != "keyword=mesh" else call(extract_border_cycle, build()),
                _norm_cycle, {"call": fcls, "start": repr(dflt) if fcls != "keyword=mesh" else "omitted"})
    # ---- ... and every border vertex (one mesh object: purity is the subject of the history clause)
    m = build()
    for s in bverts:
        want = call(extract_border_cycle, m, s)
        rep.transitions += 1
        rep.flag("defaults:positional:extract_border_cycle.starting_point")
        for fcls, fn in (("keyword=starting_point", lambda: extract_border_cycle(m, starting_point=s)),
                         ("keyword=mesh+starting_point", lambda: extract_border_cycle(mesh=m, starting_point=s)),
                         ("keyword=mesh+starting_point", lambda: extract_border_cycle(starting_point=s, mesh=m))):
            got = call(fn)
            rep.transitions += 1
            compare("keyword", "extract_border_cycle", fcls, got, want, _norm_cycle, {"call": fcls, "start": s})
        rep.case(("border_form", n, tuple(map(tuple, faces)), sort, s))
    want = call(extract_border_cycle_all, build()); got = call(lambda: extract_border_cycle_all(mesh=build()))
    rep.transitions += 2
    compare("keyword", "extract_border_cycle_all", "keyword=mesh", got, want, lambda r: [_as_int_list(c) for c in r], {"call": "mesh="})
    want = call(extract_boundary_of_surface, build()); got = call(lambda: extract_boundary_of_surface(mesh=build()))
    rep.transitions += 2
    compare("keyword", "extract_boundary_of_surface", "keyword=mesh", got, want, _norm_polyline, {"call": "mesh="})
    rep.count("border_form_meshes"); rep.states += 1; rep.traces += 1
    if loops and 0 not in bverts:
        rep.flag("defaults:default_start_is_not_vertex_0")
    if len(loops) >= 2:
        rep.flag("defaults:border_forms:several_loops")


# ========================================================================================== entry points
def run_task(task, rep: Report):
    import mouette as M
    old = M.config.sort_neighborhoods
    M.config.sort_neighborhoods = bool(task["sort"])
    try:
        if task["kind"] == "signature":
            _check_signatures(M, rep)
        elif task["kind"] == "feat_defaults":
            _run_feature_defaults(M, task, rep)
        elif task["kind"] in ("border", "border_hist", "border_forms"):
            fn = {"border": _check_border_mesh, "border_hist": _check_border_history, "border_forms": _check_border_forms}[task["kind"]]
            for name, n, pts, faces in task["meshes"]:
                faces = [tuple(f) for f in faces]
                if not F.is_oriented_manifold(faces, n):
                    rep.count("premise_failed"); rep.notes.append(f"{name}: not an oriented manifold"); continue
                if task.get("places"):
                    P0 = L.quantize(pts if pts is not None else F.moment_curve(n), int(task["places"]["m"]))
                    for j, k, axis in task["places"]["maps"]:
                        pp = L.place(P0, j, k, axis)
                        if pp is None:
                            rep.count("placed:filtered_inexact_coordinates"); continue
                        fn(M, name, n, pp, faces, bool(task["sort"]), rep,
                           (L.place_label(j, k, axis), {"points_at_the_origin": P0, "multiplied_by": f"2^{j}",
                                                        "then_translated_by": [float(t) for t in L.far_vector(k, axis)]}))
                    continue
                fn(M, name, n, pts, faces, bool(task["sort"]), rep)
        elif task["kind"] == "feat_reuse":
            _run_feature_reuse(M, task, rep)
        else:
            _run_features(M, task, rep)
    finally:
        M.config.sort_neighborhoods = old


def finish(tier, rep: Report):
    fails = []
    need = ["loops=0", "loops=1", "loops=2", "loops=3", "loops=4", "chord", "several_components",
            "component_with_several_loops", "interior_vertex", "border:polygons",
            "feat:closed", "feat:band:>60", "feat:band:37-60", "feat:band:<37", "feat:interior_feature_vertex"]
    for f in need:
        if f not in rep.flags:
            fails.append("coverage flag missing: " + f)
    if rep.counters.get("premise_failed"):
        fails.append(f"premise failed on {rep.counters['premise_failed']} inputs (see notes): {rep.notes[:3]}")
    # every class of edge was seen, and the detector separated them (both answers observed where the statement
    # makes the answer depend on something else than the class, one answer otherwise - checked by the oracle)
    for k in ("edge:>60:undeclared", "edge:37-60:declared", "edge:37-60:undeclared", "edge:<37:declared",
              "edge:border:undeclared", "edge:border:declared", "edge:only_border:interior", "edge:only_border:border"):
        if k not in rep.outcomes:
            fails.append("edge class never evaluated: " + k)
    if not rep.counters.get("filtered_ill_conditioned"):
        fails.append("the four hinge angles placed inside the guard band were not filtered")
    if len(rep.outcomes.get("corner", ())) < 3:
        fails.append("fewer than 3 distinct corner orders observed")
    if len(rep.outcomes.get("cycle_all", ())) < 2:
        fails.append("extract_border_cycle_all: a single distinct outcome")
    want_border = {"quick": 7000, "thorough": 50000}[tier]      # measured: 7134 / 50286 (mesh, sort) pairs
    if rep.counters.get("border_meshes", 0) < want_border:
        fails.append(f"border family smaller than pinned floor: {rep.counters.get('border_meshes', 0)} < {want_border}")
    if rep.counters.get("feature_meshes:hinge", 0) < 700:            # measured 724 = (181 x None-only + 181 x previous states) x 2 sorts
        fails.append("hinge family smaller than expected")
    for fl in ("feat:band:near37", "feat:band:near60"):
        if fl not in rep.flags:
            fails.append("coverage flag missing: " + fl)
    # ---- histories on one mesh object / argument forms / re-used detectors
    for fl in ("history:loops=0", "history:loops=1", "history:loops=2", "history:loops=3",
               "start_form:start_on_another_loop_than_the_default", "reuse:deformed_mesh:same_faces",
               "reuse:other_mesh:same_faces", "reuse:other_mesh:more_faces", "reuse:other_mesh:fewer_or_as_many_faces"):
        if fl not in rep.flags:
            fails.append("coverage flag missing: " + fl)
    floors = {"quick": {"history_meshes": 418, "reuse_cases:other_mesh": 744, "reuse_cases:deformed_mesh": 264},
              "thorough": {"history_meshes": 3404, "reuse_cases:other_mesh": 4320, "reuse_cases:deformed_mesh": 3312}}[tier]
    for k, v in floors.items():
        if rep.counters.get(k, 0) < v:
            fails.append(f"{k}: {rep.counters.get(k, 0)} < pinned floor {v}")
    for k in ("history:premise_border_containers_of_a_fresh_mesh", "reuse:declaration_raised", "reuse:first_run_raised"):
        if rep.counters.get(k):
            fails.append(f"{k}: {rep.counters[k]} inputs of the history / re-use clauses were skipped")
    # the histories were also played with the duplicate-attribute switch on (runner: dupflag_variant), and the
    # attribute blackboard was compared around every call, at least once on a blackboard that was not empty
    if rep.counters.get("duplicate_attribute_flag:history_meshes", 0) < floors["history_meshes"]:
        fails.append(f"histories with display_duplicate_attribute_warning=True: "
                     f"{rep.counters.get('duplicate_attribute_flag:history_meshes', 0)} < pinned floor {floors['history_meshes']}")
    if "history:blackboard" not in rep.outcomes:
        fails.append("the attribute blackboard was never compared around a border query")
    if "history:blackboard_not_empty_before_the_call" not in rep.flags:
        fails.append("coverage flag missing: history:blackboard_not_empty_before_the_call")
    for ev in EVENTS:
        if "history:" + ev not in rep.outcomes:
            fails.append("entry point never played in a history: " + ev)
    for form in START_FORMS:
        if "start_form:" + form not in rep.outcomes:
            fails.append("starting point never given as " + form)
    # ---- documented defaults / call forms: every entry of the pinned table was left out and given by position, every
    # signature was compared, and on some input another value of each option (two neighbouring options swapped) changes the answer
    for callee, p in DEFAULTS_TABLE:
        for how in ("omitted", "positional"):
            if f"defaults:{how}:{callee}.{p}" not in rep.flags:
                fails.append(f"documented default never exercised ({how}): {callee}.{p}")
    for callee in SIGNATURES:
        if "defaults:signature_compared:" + callee not in rep.flags:
            fails.append("signature never compared with the documented one: " + callee)
    for p in DET_PARAMS:
        if "defaults:discriminates:" + p not in rep.flags:
            fails.append("no input on which another value of the option changes the detection: " + p)
    for a, b in zip(DET_PARAMS, DET_PARAMS[1:]):
        if f"defaults:swap_discriminates:{a}<->{b}" not in rep.flags:
            fails.append(f"no input on which swapping two neighbouring options changes the detection: {a}<->{b}")
    for rf in RUN_FORMS:
        if "defaults:run_form:" + rf not in rep.flags:
            fails.append("way of running the detector never played: " + rf)
    for fl in ("defaults:default_start_is_not_vertex_0", "defaults:border_forms:several_loops"):
        if fl not in rep.flags:
            fails.append("coverage flag missing: " + fl)
    # ---- placements: every map of the tier was played on every feature family and on the border entry points, the reference
    # was invariant, nothing was dropped silently, and far from the origin / in other units the detector still gave both answers
    for places in PLACES[tier]:
        for j, k, axis in places["maps"]:
            fl = f"placed:{L.place_label(j, k, axis)}:2^{j}:T{k}:axis={axis}"
            if fl not in rep.flags:
                fails.append("placement never played: " + fl)
    for fam in ("hinge", "hinge2", "accordion", "cone", "surf", "zoo", "nonconvex"):
        if not rep.counters.get("placed_meshes:" + fam):
            fails.append("feature family never placed in another unit of length / far from the origin: " + fam)
    pfloors = {"quick": {"placed_runs:far_from_origin": 7272, "placed_runs:unit_of_length": 7272,      # measured (= pinned family x 9 x 2 maps)
                         "placed_border_meshes:far_from_origin": 512, "placed_border_meshes:unit_of_length": 512},
               "thorough": {"placed_runs:far_from_origin": 287000, "placed_runs:unit_of_length": 164000,      # measured 287028 / 164016
                            "placed_border_meshes:far_from_origin": 37800, "placed_border_meshes:unit_of_length": 21600}}[tier]   # 37870 / 21640
    for k, v in pfloors.items():
        if rep.counters.get(k, 0) < v:
            fails.append(f"{k}: {rep.counters.get(k, 0)} < pinned floor {v}")
    for k in ("placed:reference_not_invariant", "placed:declaration_raised", "placed:filtered_inexact_coordinates"):
        if rep.counters.get(k):
            fails.append(f"{k}: {rep.counters[k]} placed specimens were not judged (see notes): {rep.notes[:3]}")
    for kindp in ("far_from_origin", "unit_of_length"):
        if "placed_run:" + kindp not in rep.outcomes:
            fails.append("placed detections never run: " + kindp)
        for cl in ("edge", "corner", "polyline"):
            if len(rep.outcomes.get(f"placed:{kindp}:{cl}", ())) < 2:
                fails.append(f"placed surfaces ({kindp}): fewer than 2 distinct outcomes of the {cl} clause")
    dfloors = {"quick": {"defaults_meshes": 19, "border_form_meshes": 418}, "thorough": {"defaults_meshes": 40, "border_form_meshes": 3404}}[tier]
    for k, v in dfloors.items():
        if rep.counters.get(k, 0) < v:
            fails.append(f"{k}: {rep.counters.get(k, 0)} < pinned floor {v}")
    return fails


def dupflag_variant(task, tier):
    """Tasks that are also run with config.display_duplicate_attribute_warning = True (the runner appends
    ':duplicate_attribute_flag' to the input class of anything found there)."""
    if task.get("places"):
        return False
    return bool((task.get("kind") == "feat" and task.get("family") == "surf") or task.get("kind") == "border_hist")


def warm_variant(task, tier):
    """Tasks that are also run on meshes whose attribute blackboard is already filled with (valid) persistent attributes
    (mc/families.py WARM; the runner appends ':warm_attribute_blackboard' to the input class of anything found there)."""
    return bool(task.get("kind") == "feat" and task.get("family") in ("surf", "hinge", "cone") and not task.get("places"))
