"""C13 - subdivision refines a mesh without changing its shape or topology (S1 inside one editing block x S2).

For every input mesh of the finite families, every sequence of subdivision operations up to the depth bound is
executed inside ONE `with SurfaceSubdivision/VolumeSubdivision` block on a freshly built real mesh (split_edge:
plain calls), once with untouched connectivity and once with every connectivity answer queried beforehand.
After every operation the raw state held by the editor is read and validated against a reference refinement
model (mc/c13_model.py: exact positions, admissible refinements per face/cell, choices left open by the
documentation resolved against the observation); after the block the mesh handed back is checked clause by
clause, and so is the object that was passed in.

Two further dimensions of every editing block: (configuration) the same block with the completion switches of
mouette.config off while it runs - what is handed back is then exactly what the operations wrote; (history) blocks
that are left by an exception after 0, 1 or 2 operations - the object passed in must still be unchanged or a valid
refinement whose connectivity answers describe its own containers.

Deviations (same clauses, input class suffixed with the deviation, coverage guarded separately in finish()):
':unit=2^-100' / ':unit=2^100' - every coordinate multiplied by an exact power of two (lengths x s, areas x s^2, volumes
x s^3, everything combinatorial unchanged: observations are converted exactly into the unit of the task, so every
tolerance is relative to it); ':sort=False' - mouette.config.sort_neighborhoods off while the mesh is built, queried,
processed and judged; ':face_order=rotated' - every face of the list in position 0 in turn (also under ':sort=False');
':arg=numpy_int' - face / cell / edge indices handed over as numpy.int64.

':corner_start=rotated' - every face listed from another corner (same cyclic order; cells: orientation-preserving re-listings;
polyline edges: larger end first).

History dimension, several blocks (C13.<family>.block_history.*): the operations of an explored sequence one per editing block
on ONE mesh object, followed by a block without operation, the editor objects made afresh per block / one editor object
entered again and again / all editor objects constructed before the first block; connectivity queried between the blocks
or never; split_double_boundary_edges_triangles called a second time on the mesh it handed back.

Storage format: every vertex of a mesh handed back (and of the object passed in) is stored as the constructors document it
(RawMeshData.prepare: cast to mouette.Vec; three float64) - surfaces, volumes, polylines.

Call forms and defaults (input classes name the parameter and the form): the documented signatures are pinned in SIGNATURES
(names, order, defaults - copied from the unchanged tree, not read at run time). Every entry point is called with each
optional argument omitted (one at a time, all together: constructor x operation), with its arguments by keyword, with the
set of sides given to triangulate_face, with the repetition count as numpy.int64 - and must do exactly what the fully explicit
positional call with the documented defaults does (that form is tied to the reference model by the main exploration, which
passes every option of the operations explicitly). `verbose` is observed through the editor's log(). A guard compares the
pinned table with inspect.signature(): a default that differs from the documented one is reported as a violation.
"""
from __future__ import annotations
import itertools, pickle
from mc.core import Report, call, exc_kind, h64
from mc import families as F
from mc import c13_model as R
from mc.surf_oracle import SurfOracle

ID = "C13"
TECHNIQUE = ("explicit-state BFS over operation sequences inside one editing block of the real Surface/VolumeSubdivision "
             "objects (and split_edge call sequences), for every mesh of bounded-exhaustive families x {connectivity "
             "queried before, not queried} x {completion switches on, off} x {block completed, left by the caller's exception, "
             "left by a rejected argument}, vs an exact reference refinement model + independent validity/topology/"
             "connectivity oracles; deviations of the setting (unit of length 2^-100 / 2^100, config.sort_neighborhoods off, "
             "face order, corner from which every face / cell is listed, numpy integer indices) over a representative subset with the same clauses; "
             "histories of several editing blocks on one mesh object x {editor object fresh per block, one editor re-used, editors constructed "
             "before the first block} x {connectivity queried between the blocks, never}; call forms (optional arguments "
             "omitted one at a time / all together, arguments by keyword, sides given, numpy count) vs the fully explicit positional "
             "call with the pinned documented defaults, + pinned signature table vs inspect.signature")
RULE = ("inputs: labelled oriented manifold complexes SURF (triangle, quad, mixed, pentagon), ZOO specimens, all conforming "
        "tetrahedral complexes TET(<=5) in two cell orientations, all graphs GRAPH(<=4) as polylines; per input a BFS over "
        "event sequences (surface: triangulate, triangulate_face(f), split_face_as_fan(f), loop_subdivision(1|2), "
        "subdivide_triangles_3quads, subdivide_triangles_6(1|2), standalone split_double_boundary_edges_triangles; volume: "
        "split_cell_as_fan(c), split_tet_from_face_center(f); polyline: split_edge(e)), every sequence being one complete "
        "editing block on a fresh object, deduplicated for expansion on the raw state held by the editor; each sequence is "
        "run with and without connectivity queried before, and once more with config.complete_edges_from_faces off (volume: "
        "edge completion off, face and edge completion off) during the block; per input the empty sequence, the first explored "
        "single operation of every entry point and the first explored pair of every class are run again as blocks LEFT BY AN "
        "EXCEPTION (raise in the caller's code; an operation called with index == number of elements), queried before or "
        "not; polyline: split_edge with the index of an edge that does not exist after every explored history; "
        "deviations: one member per isomorphism class of SURF (single operations + the two repeated refinements), 7 ZOO "
        "specimens, every TET complex (single operations), every GRAPH (<= 2 splits) once more with all coordinates x 2^-100 "
        "and x 2^100, with config.sort_neighborhoods off (here also every rotation of the face list and the sorted cell "
        "orientation, connectivity queried before or not), with numpy.int64 indices; every rotation of the face list of the "
        "classes under the default configuration (with and without edge completion); corner of listing: per SURF class every combination of "
        "{first, second} corner (thorough: every corner) over its faces with >= 4 sides, the class with all its triangles started at their second / third "
        "corner, 7 ZOO specimens with every face rotated by 1 (thorough: 1, 2, 3), every TET complex with every cell re-listed by an even permutation "
        "(quick: 2 of the 11, thorough: all 11), every GRAPH with every edge listed larger end first - single operations (thorough: + the two repeated "
        "refinements), not queried; "
        "block histories: per input every explored single operation and the first explored pair of every class (quick / ZOO: class = replaces the "
        "containers or not; thorough SURF: class = entry point; volume: class = entry point, quick: single operations on the first and the last explored "
        "argument of each entry point), run as k + 1 blocks (one operation each + one block without operation) on one mesh object with the editor "
        "objects {made per block, one object re-used, all made before the first block} x {connectivity never queried, queried before the first and "
        "between all blocks (not for editors made per block)}; split_double_boundary_edges_triangles twice on every triangle input; "
        "storage format of the vertices: every mesh handed back by a completed block / call of the main exploration, of the histories, and every object passed in; "
        "call forms: per SURF class / 7 ZOO specimens every single operation of the initial state + loop_subdivision(2), "
        "subdivide_triangles_6(2); per TET complex split_cell_as_fan / split_tet_from_face_center on the first and last element; "
        "per GRAPH split_edge on the first and last edge; each as one complete block in the forms {constructor: explicit, "
        "verbose omitted, by keyword} x {operation: explicit, optional argument omitted, by keyword, sides given positionally / "
        "by keyword, count as numpy.int64} restricted to one deviation from the explicit form at a time + all optional arguments "
        "omitted together; verbose on / off positionally and by keyword on the first operation of every input; "
        "a case = one distinct (input, deviation, raw state reached); non-trivial = at least one element was refined")
ASSUMPTIONS = [
    "inputs are oriented manifold polygon complexes / conforming tetrahedral complexes / simple graphs within the size bounds; larger meshes only through the ZOO specimens; coordinates: integer moment curve (generic) for SURF/TET/GRAPH, the specimens' own coordinates for ZOO",
    "the raw state is read from editor.mesh after every operation (needed to give face/cell indices a meaning: the statement does not fix the numbering of new elements); in the oracle a vertex is identified by its exact affine combination of the original vertices, matched to the observed vertex by position (tolerance 1e-9 x coordinate scale); a sequence in which two different centres coincide within that tolerance is filtered and counted (filtered_coincident_refinement_points)",
    "a polygon with >= 5 sides is triangulated as a fan from its centroid (triangulate_face delegates to the documented split_face_as_fan); a quad may be split along either diagonal that is not already an edge of the mesh; the 1-to-6 pattern may use either diagonal of each of the three quads (the docstring says corner-barycentre, the code uses midpoint-midpoint: counted as an observation, not a violation)",
    "a child element must keep the orientation of its parent (faces: cyclic order; tetrahedra: sign of the volume)",
    "the area clause is evaluated only when every face with >= 4 sides of the input is exactly planar and strictly convex (otherwise the area of the input is not defined); it compares, exactly, the sum of vector areas per oriented plane direction (implies equal total area); volumes are compared exactly on the matched exact positions",
    "connectivity answers of a handed-back mesh are judged with the accessor tables of C01/C03 (props/c01.py, props/c03.py, minus the two boundary-surface extractors) against SurfOracle/VolOracle built from the RESULT's own element lists; each accessor's argument domain is thinned by a fixed stride to the cap given in the bounds",
    "'queried before' = every accessor of those tables called once (whole domain for per-argument caches) + is_triangular/is_quad; a clause violated without queried connectivity is not reported again for the queried run of the same sequence, so an input class ':queried_before' means: only when queried",
    "split_double_boundary_edges_triangles is only called on triangle meshes (its documentation speaks of triangles); attributes (e.g. the hard_edges flags that loop_subdivision's explicit edge list acquires in prepare()) are outside the statement and not compared",
    "after an operation raised or failed a clause, the remaining clauses of that sequence are not evaluated and the sequence is not extended",
    "configuration dimension: the mesh is built with the default configuration (complete edge / face lists); the switches are off from just before the block is entered until it has been left and are restored in a finally. With completion off nothing promises that the edge list covers every side: the unchanged library leaves the diagonal of a split quad, every edge of the 1-to-3 / 1-to-6 refinements, every edge of the volume operations and the inner faces of split cells to the completion step (counted per operation, not judged). Judged: vertices/faces/cells independent of the switches; exit hands back exactly the edges (faces) the operations wrote; no duplicate, unsorted or foreign edge/face; corners match; the sides of a vertex created by the last operation have their edges all or none ('never half-updated'); split_tet_from_face_center leaves its documented three sub-triangles in place of the split one; connectivity answers only when the edge list covers every side (accessor domains capped at 30)",
    "unit of length: the statement knows no unit, so the same complexes with every coordinate multiplied by s = 2^-100 or 2^100 must be refined the same way (new vertices at the scaled centres, total area x s^2, total volume x s^3, total length x s, counts / topology / connectivity unchanged). s is a power of two, so the scaled inputs and the conversion of every observed coordinate back into units of s are exact (checked per coordinate; a coordinate that does not convert exactly is reported); the oracle then runs unchanged, i.e. its tolerance 1e-9 x coordinate scale and its exact area / volume comparisons are relative to the unit. Measured on the unchanged library: results are bitwise scale-equivariant for every s = 2^e with |e| <= 340 (surface, volume, polyline operations); +-100 is used because s^6 is still a normal double there (squared volumes of a careful implementation do not over/underflow) while every absolute threshold from 1e-6 to 1e-16 on a length, an area or a volume is crossed (edge lengths 1e-30 .. 1e-28 / 1e30 .. 1e32)",
    "config.sort_neighborhoods is a documented switch of mouette.config (vertex rings unsorted); the statement does not depend on it. It is off from before the mesh is built until the last answer has been judged (restored in a finally); the accessor tables of C01 / C03 are instantiated for that value (ring answers are then judged as sets)",
    "face order: rotating the face list of a complex gives another admissible input; every face of every SURF class is put in position 0 in turn (index 0 is also the first argument tried for every indexed operation)",
    "corner of listing: a face is a cyclic sequence of vertices, so listing it from another corner gives the same oriented complex (the oracle compares faces up to rotation, the family is closed under it); which diagonal splits a quad is left open by the documentation, so the reference model accepts either one as long as the result is a manifold - two quads that have the same pair of vertices as opposite corners cannot both be split along it. A tetrahedron re-listed by an even permutation is the same oriented cell. An edge of a polyline listed larger end first is admissible input (the constructors sort it: RawMeshData.prepare)",
    "block histories: nothing in the documentation restricts an editor object to one `with` block, an editor to be constructed immediately before its block, or a mesh to one block; the mesh a block hands back is a mesh 'its documentation admits'. Demanded per block are the clauses of the statement only (accepted; elements at the end of the block = elements handed back; the operation refines the mesh the previous block handed back: equal to the state validated for the same operations in one block, else validated against the reference model from the previous state; valid mesh in the documented storage format; object passed in = mesh handed back, or unchanged - the next block is then judged as refining the unchanged mesh; a block without operation changes no element), after the last block topology (volume: + exact total volume) and connectivity answers (accessor domains capped at 12). A face index given to a later volume block indexes the face list handed back by the previous block",
    "storage format: RawMeshData.prepare ('called by the constructors of data structures') documents 'On vertices: casts 3D vectors to mouette.Vec'; library code reads vertices through the Vec interface (.x/.y/.z, .norm()). A valid mesh handed back by a subdivision entry point therefore stores every vertex as a Vec (isinstance) of three float64; row types of edges / faces / cells are NOT judged (the unchanged library hands back tuples or lists depending on the operation)",
    "indices given as numpy.int64: the documentation says 'int'; an index read from a numpy array is the usual way to obtain one and the unchanged library accepts it everywhere, so the same clauses are demanded (only the operations that take an index are run)",
    "call forms: the signature is the documentation of a default (SIGNATURES pins names, order and defaults of the unchanged tree; docstring prose is not used). Omitting an optional argument must mean passing its documented default, passing arguments by keyword must mean passing them positionally in the documented order: demanded is exact equality of everything observable with the fully explicit positional block on the same input - text printed, raw state after the operation (vertices, faces, cells, edge set), the mesh handed back (containers, corners, edge set), whether the object passed in equals it, exception class. `sides` of triangulate_face is documented as 'the set of all sides of faces of the mesh, as sorted pairs. Computed if not provided': a fresh set of the current sides computed by the driver must give the result of the computed one (the set may be updated by the call - not judged). `verbose` only decides whether the editor's inherited log() prints: off (documented default) must be silent, on must print the probe, the meshes must not depend on it. A repetition count given as numpy.int64 must mean the Python int (the unchanged library accepts it). The signature guard tolerates additional trailing parameters that have a default and a required parameter that acquires one (counted); everything else that differs from the pinned table is a violation of C13.defaults.signature",
    "history dimension: a block left by an exception. The unchanged library rebuilds the object passed in whenever the block is left (its __exit__ ignores the exception and lets it propagate), so the object equals the result of the completed block of the operations done so far; demanded is only the statement: unchanged or equal to that result, all connectivity answers describing its own containers. An index equal to the number of faces/cells/edges is rejected with IndexError before anything is written by every operation of the unchanged library; the rejection itself is not demanded (an accepted index is counted and skipped), nor is the propagation of the exception (counted)",
]
BOUNDS = {
    "quick": ("refined meshes of more than 160 faces are not produced; surface: one member per isomorphism class of SURF triangles n<=5, triangle+quad "
              "n=4 and n=5 (<=4 faces), pentagon / triangle+pentagon / quad+pentagon on 5 vertices (40) with sequences of total weight <= 2 "
              "(loop_subdivision(2) and subdivide_triangles_6(2) weigh 2); every labelled SURF triangle and triangle+quad complex on <= 4 vertices and "
              "16 ZOO specimens with weight <= 1 (+ the two weight-2 events); face arguments: first face of each arity and the last face; "
              "volume: TET(4), TET(5) (27 complexes), positively oriented cells: sequences <= 2, arguments: every cell, every raw face (second step: "
              "representatives + elements touched by the first), cells listed sorted (mixed orientation): single operations; polyline: GRAPH(2..4) "
              "(71 graphs with an edge), split_edge sequences <= 3 over every current edge; accessor domains capped at 60 arguments; "
              "completion switches off: every explored surface / volume sequence once (volume: two switch settings); blocks left by an "
              "exception: per input <= 1 + 6 + 4 (surface) / 1 + 2 + 1 (volume) prefixes x {caller, rejected TF, rejected FAN | rejected "
              "CFAN, rejected FSPLIT} x {queried, not}; polyline: one rejected call per expanded history (<= 2 splits) x {queried, not}; "
              "deviations (accessor domains capped at 30, no completion-off / abandoned blocks unless stated): unit 2^-100 and 2^100: 40 SURF classes "
              "(weight 1 + loop_subdivision(2), subdivide_triangles_6(2)) + 7 ZOO specimens + 27 TET complexes (positive, single operations) + 71 graphs "
              "(<= 2 splits), not queried; sort_neighborhoods off: the same + the 87 other rotations of the face lists (weight 1) + TET sorted, queried and "
              "not; face order: the 87 rotations, default configuration, not queried, with the completion-off block; numpy.int64 indices: 40 classes "
              "(indexed operations only), 27 TET, 71 graphs, queried and not; corner of listing: 151 re-listings of the 40 classes + 7 ZOO specimens (weight 1), "
              "27 TET x 2 cell re-listings, 71 graphs, not queried; block histories: per SURF input <= 12 single operations + <= 4 pairs, per ZOO specimen the same, "
              "per TET complex (both orientations) <= 4 single operations + <= 4 pairs (positive orientation), each as 2 / 3 blocks x 3 editor modes (+ queried between "
              "blocks for the two non-fresh modes), accessor domains capped at 12; call forms: 40 SURF classes + 7 ZOO specimens (events of the initial state: 6 global + "
              "first face of each arity and the last face for triangulate_face / split_face_as_fan; 2..7 further blocks per event), 27 TET complexes "
              "(positive; 4 events x 3 blocks), 71 graphs (<= 2 edges x 3 calls), 12 pinned signatures with 5 defaults; no connectivity answers judged there"),
    "thorough": ("refined meshes of more than 400 faces are not produced; surface: weight <= 3 on the classes of SURF triangles n<=5, triangle+quad n=4, "
                 "pentagons (13); weight <= 2 on every class, on every labelled complex on <= 4 vertices and on every single-transposition relabeling of the "
                 "triangle and pentagon classes on 5 vertices (142); weight <= 1 on every labelled triangle / pentagon complex on 5 vertices and every "
                 "single-transposition relabeling of the triangle+quad / polygon classes (632); 33 ZOO specimens at weight <= 2 (<= 12 faces) or 1; face "
                 "arguments: every face when the state has <= 6 faces; volume: sequences <= 2 with every cell and face argument at both steps, both cell "
                 "orientations; <= 3 with representatives (positive orientation); polyline: split_edge sequences <= 4; accessor domains capped at 200 arguments; "
                 "completion switches off and blocks left by an exception: as in quick, over the thorough sequences (abandoned prefixes: <= 2 operations); "
                 "deviations: as in quick, the SURF classes under sort_neighborhoods off at weight <= 2; corner of listing: 932 re-listings of the classes (every corner of every "
                 "face with >= 4 sides) + 7 ZOO x 3 rotations (+ loop_subdivision(2), subdivide_triangles_6(2)), 27 TET x 11 even re-listings; block histories: as in quick over the "
                 "thorough inputs, pairs per (entry point, entry point) class on the SURF inputs, every single volume operation; call forms: as in quick (specimens of the thorough ZOO list)"),
}


# =========================================================================================== inputs
def _classes(lists, n):
    seen, out = set(), []
    for fl in lists:
        c = F.canonical_class(fl, n)
        if c not in seen:
            seen.add(c); out.append(c)
    return out


def _zoo(tier):
    out = []
    grids = [(2, 2, "quad"), (2, 2, "tri"), (2, 3, "mixed"), (3, 3, "quad"), (3, 3, "tri2")]
    if tier == "thorough":
        grids += [(3, 4, "mixed"), (4, 4, "quad"), (2, 5, "tri"), (4, 3, "tri")]
    for k, l, mode in grids:
        p, f = F.grid(k, l, mode); out.append((f"grid{k}x{l}{mode}", p, f))
    for name in ("octahedron", "tetrahedron_surface", "cube_quads", "csaszar_torus", "dodecahedron") + (("icosahedron",) if tier == "thorough" else ()):
        p, f = getattr(F, name)(); out.append((name, p, f))
    for n, anti in ((3, False), (3, True)) + (((4, True), (5, False)) if tier == "thorough" else ()):
        p, f = F.prism_annulus(n, anti); out.append((f"annulus{n}{'a' if anti else 'p'}", p, f))
    p, f = F.torus_grid(3, 3); out.append(("torus3x3", p, f))
    p, f = F.torus_grid(3, 3, "quad"); out.append(("torus3x3q", p, f))
    cnt = 0
    for mask, p, f in F.holey_grids(3, 3, "quad"):
        if cnt in (1, 6) or tier == "thorough":
            out.append((f"holey3x3q{mask}", p, f))
        cnt += 1
    return [(name, [list(map(float, q)) for q in p], [list(g) for g in f]) for name, p, f in out]


def _surf_inputs(tier):
    """[name, n, faces, weight bound]; a complex listed twice keeps its first (deepest) entry"""
    ins = []
    fams = {
        "tri3": (3, list(F.surf_enum(3))), "tri4": (4, list(F.surf_enum(4))),
        "mix4": (4, [fl for fl in F.surf_enum(4, (3, 4)) if any(len(f) == 4 for f in fl)]),
        "tri5": (5, list(F.surf_enum(5))),
        "mix5": (5, [fl for fl in F.surf_enum(5, (3, 4), 4) if any(len(f) == 4 for f in fl)]),
        "pent5": (5, list(F.surf_enum(5, (5,)))),
        "mixp5": (5, [fl for fl in F.surf_enum(5, (3, 5), 3) if any(len(f) == 5 for f in fl)]),
        "mixqp5": (5, [fl for fl in F.surf_enum(5, (4, 5), 3) if any(len(f) == 5 for f in fl)]),
    }
    cls = {fam: _classes(lists, n) for fam, (n, lists) in fams.items()}
    if tier == "quick":
        for fam, (n, lists) in fams.items():
            for i, fl in enumerate(cls[fam]):
                ins.append((f"{fam}c#{i}", n, fl, 2))
        for fam in ("tri3", "tri4", "mix4"):            # every labelling of the complexes on <= 4 vertices
            for i, fl in enumerate(fams[fam][1]):
                ins.append((f"{fam}#{i}", fams[fam][0], fl, 1))
    else:
        for fam in ("tri3", "tri4", "mix4", "tri5", "pent5"):
            for i, fl in enumerate(cls[fam]):
                ins.append((f"{fam}c#{i}", fams[fam][0], fl, 3))
        for fam, (n, lists) in fams.items():
            for i, fl in enumerate(cls[fam]):
                ins.append((f"{fam}c#{i}", n, fl, 2))
        for fam in ("tri3", "tri4", "mix4"):
            for i, fl in enumerate(fams[fam][1]):
                ins.append((f"{fam}#{i}", fams[fam][0], fl, 2))
        for fam in ("tri5", "pent5"):                     # classes under every single transposition of labels
            for i, fl in enumerate(cls[fam]):
                for j, g in enumerate(F.transposition_relabelings(fl, 5)):
                    ins.append((f"{fam}c#{i}t{j}", 5, g, 2))
        for fam in ("tri5", "pent5"):                     # every labelling
            for i, fl in enumerate(fams[fam][1]):
                ins.append((f"{fam}#{i}", 5, fl, 1))
        for fam in ("mix5", "mixp5", "mixqp5"):
            for i, fl in enumerate(cls[fam]):
                for j, g in enumerate(F.transposition_relabelings(fl, 5)):
                    ins.append((f"{fam}c#{i}t{j}", 5, g, 1))
    seen, out = set(), []
    for name, n, fl, d in ins:
        key = (n, tuple(tuple(f) for f in fl))
        if key not in seen:
            seen.add(key); out.append([name, n, [list(f) for f in fl], d])
    return out


def tasks(tier):
    cap = 60 if tier == "quick" else 200
    max_faces = 160 if tier == "quick" else 400
    common = {"fam": "surf", "cap": cap, "max_faces": max_faces, "all_faces": tier == "thorough"}
    out = []
    ins = _surf_inputs(tier)
    for w, B in ((3, 1), (2, 1 if tier == "quick" else 2), (1, 12)):
        lst = [x for x in ins if x[3] == w]
        for i in range(0, len(lst), B):
            out.append(dict(common, meshes=lst[i:i + B]))
    for name, p, f in _zoo(tier):
        d = 1 if (tier == "quick" or len(f) > 12) else 2
        out.append(dict(common, all_faces=False, zoo=[name, p, f, d]))
    # volumes
    tets = []
    for n in (4, 5):
        for i, cl in enumerate(F.tet_enum(n)):
            tets.append([f"tet{n}#{i}", n, [list(c) for c in cl]])
    for x in tets:
        for variant in ("positive", "sorted"):
            out.append({"fam": "tet", "cap": cap, "complex": x, "variant": variant,
                        "depth": 1 if (tier == "quick" and variant == "sorted") else 2, "all_args": tier == "thorough"})
        if tier == "thorough":
            out.append({"fam": "tet", "cap": cap, "complex": x, "variant": "positive", "depth": 3, "all_args": False,
                        "lite": {"queried": True, "config_off": True, "abandoned": True, "history": False}})   # histories: run by the depth-2 task
    # polylines
    graphs = []
    for n in (2, 3, 4):
        for g in F.graph_enum(n):
            if g:
                graphs.append([n, [list(e) for e in g]])
    B = 8 if tier == "quick" else 2
    for i in range(0, len(graphs), B):
        out.append({"fam": "graph", "depth": 3 if tier == "quick" else 4, "graphs": graphs[i:i + B]})
    return out + _deviation_tasks(tier, ins, tets, graphs) + _forms_tasks(tier, ins, tets, graphs)


# =========================================================================================== deviations
# The same editing blocks once more under a deviation of the setting the statement is silent about (so the clauses are the
# same); every fingerprint of such a task carries the deviation as a suffix of its input class, its coverage facts are
# kept apart (prefixed) and guarded in finish().
UNIT_EXPS = (-100, 100)       # unit of length 2^e: measured - the unchanged library is bitwise scale-equivariant for |e| <= 340
DEV_UNIT = ["unit=2^%d" % e for e in UNIT_EXPS]
DEV_SORT, DEV_ORDER, DEV_NPINT = "sort=False", "face_order=rotated", "arg=numpy_int"
DEV_CORNER = "corner_start=rotated"      # the corner from which each face (cell) is listed
EVEN_PERMS = [p for p in itertools.permutations(range(4)) if sum(1 for i in range(4) for j in range(i) if p[j] > p[i]) % 2 == 0 and p != (0, 1, 2, 3)]
CELL_LISTINGS = {"quick": [(1, 2, 0, 3), (1, 0, 3, 2)], "thorough": EVEN_PERMS}     # orientation-preserving re-listings of a tetrahedron


def _rot(f, r):
    r %= len(f)
    return list(f[r:]) + list(f[:r])


def _corner_listings(x, tier):
    """the complex x with its faces listed from other corners (same cyclic order, so the same oriented complex).
    quick: every combination of {first, second} corner over the faces with >= 4 sides (triangles as listed), and the
    listed polygons with every triangle started at its second / third corner; thorough: every combination of every
    corner over the faces with >= 4 sides, and the {first, second} combinations with the triangles rotated"""
    name, n, fl, _ = x
    polys = [i for i, f in enumerate(fl) if len(f) >= 4]
    has_tri = any(len(f) == 3 for f in fl)
    out = []
    for combo in itertools.product(*[range(len(fl[i])) if tier == "thorough" else (0, 1) for i in polys]):
        for t in ((0, 1, 2) if has_tri else (0,)):
            if not any(combo) and t == 0:
                continue                      # the listing of the class itself is a regular input
            if t and (any(c > 1 for c in combo) or (tier == "quick" and any(combo))):
                continue
            shift = dict(zip(polys, combo))
            g = [_rot(f, shift.get(i, t)) for i, f in enumerate(fl)]
            out.append([f"{name}k{''.join(map(str, combo))}t{t}", n, g, 1])
    return out
ZOO_DEV = ("grid2x3mixed", "grid3x3quad", "octahedron", "cube_quads", "dodecahedron", "annulus3a", "torus3x3q")
ARGFORM = [None]              # None | "numpy_int": the form in which face / cell / edge indices are handed to the operations


def _arg(i):
    if i is None or ARGFORM[0] is None:
        return i
    import numpy as np
    return np.int64(i)


def _deviation_tasks(tier, ins, tets, graphs):
    """unit of length; config.sort_neighborhoods off while the mesh is built and processed; every face in position 0
    of the face list in turn; indices given as numpy integers. Subsets: one member per isomorphism class of the SURF
    families (single operations + the two repeated refinements), 7 ZOO specimens, every TET complex (positively
    oriented; single operations), every GRAPH (<= 2 splits)."""
    out = []
    classes = [x for x in ins if x[0].split("c#")[-1].isdigit() and "c#" in x[0]]
    w = 1 if tier == "quick" else 2
    zoo = [z for z in _zoo(tier) if z[0] in ZOO_DEV]
    lite_a = {"queried": False, "config_off": False, "abandoned": False}
    lite_ab = {"queried": True, "config_off": False, "abandoned": False}
    common = {"fam": "surf", "cap": 30, "max_faces": 160, "all_faces": False}

    def surf(dev, meshes, lite, B, **kw):
        for i in range(0, len(meshes), B):
            out.append(dict(common, dev=dev, lite=lite, meshes=meshes[i:i + B], **kw))

    def rotations(x, ks):
        name, n, fl, _ = x
        return [[f"{name}r{k}", n, fl[k:] + fl[:k], 1] for k in ks(len(fl))]
    for e, dev in zip(UNIT_EXPS, DEV_UNIT):
        surf(dev, [[x[0], x[1], x[2], 1] for x in classes], lite_a, 10, unit=e, repeated=True)
        for name, p, f in zoo:
            out.append(dict(common, dev=dev, lite=lite_a, unit=e, zoo=[name, p, f, 1]))
        for i in range(0, len(tets), 14):
            out.append({"fam": "tet", "dev": dev, "lite": lite_a, "unit": e, "cap": 30, "complexes": tets[i:i + 14], "variant": "positive", "depth": 1, "all_args": False})
        out.append({"fam": "graph", "dev": dev, "lite": lite_a, "unit": e, "depth": 2, "graphs": graphs})
    # ---- sort_neighborhoods off: classes (weight as in the tier), every other face order at weight 1, specimens, volumes, polylines
    surf(DEV_SORT, [[x[0], x[1], x[2], w] for x in classes], lite_ab, 5 if w == 1 else 1, sort=False, repeated=(w == 1))
    surf(DEV_SORT, [r for x in classes for r in rotations(x, lambda k: range(1, k))], lite_ab, 12, sort=False)
    for name, p, f in zoo:
        out.append(dict(common, dev=DEV_SORT, lite=lite_ab, sort=False, zoo=[name, p, f, 1]))
    for i in range(0, len(tets), 9):
        out.append({"fam": "tet", "dev": DEV_SORT, "lite": lite_ab, "sort": False, "cap": 30, "complexes": tets[i:i + 9], "variant": "positive",
                    "depth": 1, "all_args": False})
    for i in range(0, len(tets), 9):
        out.append({"fam": "tet", "dev": DEV_SORT, "lite": lite_ab, "sort": False, "cap": 30, "complexes": tets[i:i + 9], "variant": "sorted",
                    "depth": 1, "all_args": False})
    out.append({"fam": "graph", "dev": DEV_SORT, "lite": lite_ab, "sort": False, "depth": 2, "graphs": graphs})
    # ---- default configuration, every face in position 0 in turn (the listing of the class itself is a regular input)
    surf(DEV_ORDER, [r for x in classes for r in rotations(x, lambda k: range(1, k))], {"queried": False, "config_off": True, "abandoned": False}, 12)
    # ---- every face listed from another corner (cells: orientation-preserving re-listings; polyline edges: larger end first)
    surf(DEV_CORNER, [g for x in classes for g in _corner_listings(x, tier)], lite_a, 12, repeated=(tier == "thorough"))
    for name, p, f in zoo:
        for r in ((1,) if tier == "quick" else (1, 2, 3)):
            out.append(dict(common, dev=DEV_CORNER, lite=lite_a, zoo=[f"{name}r{r}", p, [_rot(g, r) for g in f], 1]))
    for perm in CELL_LISTINGS[tier]:
        for i in range(0, len(tets), 14):
            out.append({"fam": "tet", "dev": DEV_CORNER, "lite": lite_a, "cell_listing": list(perm), "cap": 30, "complexes": tets[i:i + 14], "variant": "positive",
                        "depth": 1, "all_args": False})
    out.append({"fam": "graph", "dev": DEV_CORNER, "lite": lite_a, "edge_listing": "larger_end_first", "depth": 2, "graphs": graphs})
    # ---- indices handed over as numpy integers (only the operations that take an index)
    surf(DEV_NPINT, [[x[0], x[1], x[2], 1] for x in classes], lite_ab, 20, argform="numpy_int", arg_events_only=True)
    for i in range(0, len(tets), 9):
        out.append({"fam": "tet", "dev": DEV_NPINT, "lite": lite_ab, "argform": "numpy_int", "cap": 30, "complexes": tets[i:i + 9], "variant": "positive",
                    "depth": 1, "all_args": False})
    out.append({"fam": "graph", "dev": DEV_NPINT, "lite": lite_ab, "argform": "numpy_int", "depth": 2, "graphs": graphs})
    return out


# =========================================================================================== helpers
def _idx(x):
    import numpy as np
    if isinstance(x, bool) or not isinstance(x, (int, np.integer)):
        raise TypeError(f"index of type {type(x).__name__}")
    return int(x)


UNIT = [1.0]      # unit of length of the meshes being built (an exact power of two); observations are read in this unit


class InexactUnit(Exception):
    pass


def _pts(cont):
    """vertex positions as observed, expressed in the unit of length of the task. The unit is a power of two, so the
    conversion is exact (checked): every tolerance of the oracle is thereby relative to the unit, and an error of
    absolute size made by the library at a tiny unit shows up magnified"""
    u = UNIT[0]
    if u == 1.0:
        return [tuple(float(c) for c in p) for p in cont]
    out = [tuple(float(c) / u for c in p) for p in cont]
    if any((x * u != float(c)) and x == x for p, q in zip(cont, out) for c, x in zip(p, q)):
        raise InexactUnit("a coordinate is not exactly representable in the unit of the task")
    return out


def _rows(cont):
    return [tuple(_idx(a) for a in row) for row in cont]


def _corner(cc):
    return ([_idx(a) for a in cc._elem], [_idx(a) for a in cc._adj])


def _snap_surf(x):
    return {"V": _pts(x.vertices), "E": _rows(x.edges), "F": _rows(x.faces), "FC": _corner(x.face_corners)}


def _snap_vol(x):
    return {"V": _pts(x.vertices), "E": _rows(x.edges), "F": _rows(x.faces), "FC": _corner(x.face_corners),
            "C": _rows(x.cells), "CC": _corner(x.cell_corners), "CF": _corner(x.cell_faces)}


def _snap_line(x):
    return {"V": _pts(x.vertices), "E": _rows(x.edges)}


def _storage_format(M, x):
    """documented storage format of the vertices of a mesh the library hands out (RawMeshData.prepare, 'called by the
    constructors of data structures': 'On vertices: casts 3D vectors to mouette.Vec'): every stored vertex is a Vec of
    three float64. Returns ([label], detail). The row types of edges / faces / cells are not judged (the unchanged
    library hands back tuples or lists depending on the operation)."""
    import numpy as np
    for i, v in enumerate(x.vertices):
        if not isinstance(v, M.Vec):
            return ["vertex_not_stored_as_Vec"], {"vertex": i, "stored_as": type(v).__module__ + "." + type(v).__name__}
        a = np.asarray(v)
        if a.dtype != np.float64 or a.shape != (3,):
            return ["vertex_not_three_float64"], {"vertex": i, "dtype": str(a.dtype), "shape": list(a.shape)}
    return [], {}


def _arity_class(faces):
    return "+".join(str(k) for k in sorted(set(len(f) for f in faces)))


def _thin(dom, cap):
    if len(dom) <= cap:
        return dom
    step = -(-len(dom) // cap)
    return dom[::step] + [dom[-1]]


def _warm(m, o, events):
    """put every lazily built cache of the object into its 'built' state (one call per accessor; accessors that
    cache per argument are called on their whole domain). The answers are C01's/C03's subject."""
    for ev in events:
        dom = list(ev.domain(o))
        for a in (dom if getattr(ev, "per_arg", False) else dom[:2]):
            call(ev.fn, m, *a)


def _eval_accessors(m, o, events, cap, rep, extra=None):
    """Evaluate every accessor of the C01/C03 table on (thinned) domains; returns the list of failures."""
    fails = []
    for ev in events:
        dom = _thin(list(ev.domain(o)), cap)
        rep.evaluations += len(dom)
        for a in dom:
            try:
                val = ev.fn(m, *a)
            except Exception as ex:   # noqa (watchdog / replay-hit are BaseExceptions)
                if len(fails) < 40:
                    fails.append([ev.name, list(a), "raises:" + type(ex).__name__])
                continue
            try:
                verdict = ev.judge(o, a, val)
            except Exception as ex:   # noqa: the judge indexes the oracle with the answer: a wild answer is a mismatch
                verdict = ("unjudgeable:" + type(ex).__name__, None)
            if verdict is not None and len(fails) < 40:
                fails.append([ev.name, list(a), "mismatch:" + str(verdict[0])])
    if extra:
        for name, fn, want in extra:
            rep.evaluations += 1
            oc = call(fn)
            if not oc.ok:
                fails.append([name, [], "raises:" + oc.exc])
            elif bool(oc.value) != want:
                fails.append([name, [], "mismatch:answer"])
    return fails


def _summary(fails):
    return {"accessors": sorted(set(f[0] for f in fails)), "first": fails[:3], "n": len(fails)}


# =========================================================================================== surfaces
S_GLOBAL = [("T", 1), ("L", 1), ("Q3", 1), ("S6", 1), ("L2", 2), ("S6x2", 2)]
S_CALLEE = {"T": "SurfaceSubdivision.triangulate", "TF": "SurfaceSubdivision.triangulate_face",
            "FAN": "SurfaceSubdivision.split_face_as_fan", "L": "SurfaceSubdivision.loop_subdivision",
            "L2": "SurfaceSubdivision.loop_subdivision", "Q3": "SurfaceSubdivision.subdivide_triangles_3quads",
            "S6": "SurfaceSubdivision.subdivide_triangles_6", "S6x2": "SurfaceSubdivision.subdivide_triangles_6",
            "SDB": "split_double_boundary_edges_triangles"}
S_WEIGHT = {"T": 1, "TF": 1, "FAN": 1, "L": 1, "Q3": 1, "S6": 1, "L2": 2, "S6x2": 2}
S_REPLACING = ("L", "L2", "Q3", "S6", "S6x2")


def _apply_surf(ed, kind, arg):
    if kind == "T": ed.triangulate()
    elif kind == "TF": ed.triangulate_face(_arg(arg))
    elif kind == "FAN": ed.split_face_as_fan(_arg(arg))
    elif kind == "L": ed.loop_subdivision(1)
    elif kind == "L2": ed.loop_subdivision(2)
    elif kind == "Q3": ed.subdivide_triangles_3quads()
    elif kind == "S6": ed.subdivide_triangles_6(1)
    elif kind == "S6x2": ed.subdivide_triangles_6(2)
    else: raise ValueError(kind)


class SurfCtx:
    def __init__(self, M, name, pts, faces, depth, cap, all_faces, rep, is_zoo, max_faces, scale=1.0, lite=None, arg_events_only=False):
        from props import c01
        if scale != 1.0:       # unit of length: an exact power of two, so every scaled coordinate is exact
            pts = [tuple(float(x) * scale for x in p) for p in pts]
        self.M, self.name, self.pts, self.faces, self.depth, self.cap, self.rep = M, name, pts, faces, depth, cap, rep
        self.all_faces, self.is_zoo = all_faces, is_zoo
        self.do_history = True if lite is None else bool(lite.get("history", False))
        lite = lite or {}
        self.do_queried, self.do_config_off, self.do_abandoned = (lite.get(k, True) for k in ("queried", "config_off", "abandoned"))
        self.arg_events_only = arg_events_only
        self.max_faces = max_faces      # bound on the number of faces of a refined mesh
        self.sort = bool(M.config.sort_neighborhoods)
        self.events = c01._events(self.sort)
        self.arity = _arity_class(faces)
        self.closed = not F.border_half_edges(faces)
        self.icls = f"arity{self.arity}:{'closed' if self.closed else 'bordered'}"
        m0 = self.build()
        s0 = _snap_surf(m0)
        self.P0 = [R.P(p) for p in s0["V"]]
        self.Pf0 = s0["V"]
        self.F0 = s0["F"]
        self.E0 = s0["E"]
        self.topo0 = R.surface_topology(self.F0, len(self.P0))
        self.area_defined = all(len(f) == 3 or R.planar_convex([self.P0[v] for v in f]) for f in self.F0)
        self.area0 = R.area_by_direction(self.P0, self.F0) if self.area_defined else None
        self.base = {"mesh": name, "points": [list(p) for p in pts], "faces": [list(f) for f in faces]}
        _describe_setting(self.base, scale, self.sort)
        _setting_flags(rep, m0.vertices, scale, self.sort)

    def build(self):
        return F.build_surface(self.pts, self.faces)

    def warm(self, m):
        o = SurfOracle(self.F0, len(self.P0), self.E0)
        _warm(m, o, self.events)
        m.is_triangular(); m.is_quad()

    def detail(self, seq, **kw):
        d = dict(self.base); d["sequence"] = [list(e) for e in seq]; d.update(kw)
        return d


def _describe_setting(base, scale, sort):
    """what a reader needs to reproduce a counterexample found under a deviation"""
    if scale != 1.0:
        base["unit_of_length"] = scale
    if not sort:
        base["config"] = {"sort_neighborhoods": False}
    if ARGFORM[0] is not None:
        base["indices_given_as"] = "numpy.int64"


def _setting_flags(rep, V, scale, sort):
    """vacuity: the deviation really was in force on the mesh that was built"""
    big = max([abs(float(x)) for p in V for x in p], default=0.0)
    if scale != 1.0 and (big < 2.0 ** -80 if scale < 1 else big > 2.0 ** 80):
        rep.flag("built_with_scaled_coordinates")
    if not sort:
        rep.flag("built_with_sort_neighborhoods_off")
    if ARGFORM[0] is not None:
        rep.flag("indices_given_as_numpy_integers")


def _surf_events(state, weight_left, all_faces, is_zoo, max_faces, rep, arg_events_only=False):
    Fl = state["F"]
    evs = []
    lens = [len(f) for f in Fl]
    for kind, w in (() if arg_events_only else S_GLOBAL):
        if w <= weight_left or (is_zoo and w == 2 and weight_left == 1 and state["depth"] == 0):
            if R.estimate_faces(lens, kind) > max_faces:
                rep.count("events_skipped_result_larger_than_the_face_bound"); continue
            evs.append((kind, None))
    reps = []
    if all_faces and len(Fl) <= 6:
        reps = list(range(len(Fl)))
    else:
        seen = set()
        for i, f in enumerate(Fl):
            if len(f) not in seen:
                seen.add(len(f)); reps.append(i)
        if len(Fl) - 1 not in reps:
            reps.append(len(Fl) - 1)
    for i in reps:
        evs.append(("TF", i))
    for i in reps:
        evs.append(("FAN", i))
    return evs


def _raw_obs(raw):
    return {"V": _pts(raw.vertices), "F": _rows(raw.faces), "E": [tuple(int(x) for x in e) for e in raw.edges]}


def _edge_table_class(st):
    """coarse signature of the state an operation starts from: would a table of the CURRENT raw edges know
    every side of every triangle once the quads are split?"""
    sides = F.undirected_edges(st["F"])
    have = set(tuple(sorted(e)) for e in st["E"] if len(e) == 2)
    quads = any(len(f) == 4 for f in st["F"])
    return "raw_edge_list_complete_no_quads" if (sides <= have and not quads) else "raw_edge_list_lacks_a_side_or_quads_present"


def _where(ex, cls_name):
    """public method of the subdivision module in which the exception was raised (innermost frame of that file)"""
    tb, name = ex.__traceback__, None
    while tb is not None:
        code = tb.tb_frame.f_code
        if code.co_filename.endswith("subdivision.py") and not code.co_name.startswith("_"):
            name = code.co_name
        tb = tb.tb_next
    return None if name is None else f"{cls_name}.{name}"


class _Abandon(Exception):
    """the caller's own exception, raised inside an editing block"""


SWITCHES = ("complete_edges_from_faces", "complete_faces_from_cells")


def _set_switches(M, cfg):
    """process-global completion switches of mouette.config; always paired with _restore_switches in a finally"""
    saved = {k: getattr(M.config, k) for k in SWITCHES}
    for k, v in (cfg or {}).items():
        if k not in SWITCHES:
            raise ValueError(k)
        setattr(M.config, k, v)
    return saved


def _restore_switches(M, saved):
    for k, v in saved.items():
        setattr(M.config, k, v)


def _run_surf_block(cx: SurfCtx, seq, queried, cfg=None, leave=None):
    """One editing block on a fresh mesh (built with the default configuration). Returns dict(m, ed, pre, states, exc).
    cfg: completion switches in force from just before the block is entered until it has been left;
    leave: None (the block completes) | 'caller' (the caller raises its own exception after the operations of seq) |
    'TF' / 'FAN' (that operation is called with the index of a face that does not exist: == number of faces)."""
    from mouette.mesh.subdivision import SurfaceSubdivision
    m = cx.build()
    if queried:
        cx.warm(m)
    pre = _snap_surf(m)
    states, exc, shared, where = [], None, None, None
    left = {"mode": None, "exc": None, "propagated": None}
    ed = SurfaceSubdivision(m)
    saved = _set_switches(cx.M, cfg)
    try:
        try:
            with ed:
                for kind, arg in seq:
                    _apply_surf(ed, kind, arg)
                    states.append(_raw_obs(ed.mesh))
                shared = ed.mesh.faces is m.faces and ed.mesh.vertices is m.vertices
                if leave == "caller":
                    left["mode"], left["exc"] = "caller", _Abandon("the caller leaves the block")
                    raise left["exc"]
                elif leave is not None:
                    left["arg"] = len(ed.mesh.faces)
                    try:
                        _apply_surf(ed, leave, left["arg"])
                        left["mode"] = "accepted"
                    except Exception as ex0:   # noqa
                        left["mode"], left["exc"] = "rejected", ex0
                        raise
        except Exception as ex:   # noqa
            exc = (len(states), type(ex).__name__, str(ex)[:200])
            where = _where(ex, "SurfaceSubdivision")
            left["propagated"] = ex is left["exc"]
    finally:
        _restore_switches(cx.M, saved)
    left["exc"] = None if left["exc"] is None else type(left["exc"]).__name__
    return {"m": m, "ed": ed, "pre": pre, "states": states, "exc": exc, "shared": shared, "where": where, "left": left}


def _validity_surface(s, n, completed=True):
    """independent structural validity of a handed-back surface: list of labels.
    completed=False (the block ran with config.complete_edges_from_faces off, nothing adds the edges the operations
    did not write): the edge list need not cover every side, but an edge must still be the side of a face"""
    bad = []
    Fl, E, (ce, ca) = s["F"], s["E"], s["FC"]
    if any(len(f) < 3 or any(v < 0 or v >= n for v in f) for f in Fl):
        return ["face_index_out_of_range"]
    if not F.is_oriented_manifold(Fl, n):
        bad.append("not_an_oriented_manifold")
    if any(len(e) != 2 for e in E):
        bad.append("edge_not_a_pair")
    else:
        if any(a < 0 or b < 0 or a >= n or b >= n or a == b for a, b in E):
            bad.append("edge_index_invalid")
        if any(a > b for a, b in E):
            bad.append("edge_not_sorted")
        if len(set(tuple(sorted(e)) for e in E)) != len(E):
            bad.append("duplicate_edge")
        if completed and set(tuple(sorted(e)) for e in E) != F.undirected_edges(Fl):
            bad.append("edges_are_not_the_sides_of_the_faces")
        if not completed and not set(tuple(sorted(e)) for e in E) <= F.undirected_edges(Fl):
            bad.append("edge_that_is_not_the_side_of_a_face")
    if ce != [v for f in Fl for v in f] or ca != [i for i, f in enumerate(Fl) for _ in f]:
        bad.append("face_corners_inconsistent")
    return bad


def _check_surface_result(cx: SurfCtx, seq, Rm, last_obs, Pex, callee, cls):
    """clauses on the mesh handed back. Returns its snapshot or None"""
    rep, M = cx.rep, cx.M
    sub = "C13.surf."
    if type(Rm) is not M.mesh.SurfaceMesh:
        rep.violation(sub + "hands_back_a_mesh", callee, "mismatch:type", cls, cx.detail(seq, got=type(Rm).__name__)); return None
    o = call(_snap_surf, Rm)
    if not o.ok:
        rep.violation(sub + "valid_mesh", callee, "mismatch:containers_unreadable", cls, cx.detail(seq, msg=o.msg)); return None
    s = o.value
    rep.evaluations += 6
    if s["V"] != last_obs["V"] or s["F"] != last_obs["F"]:
        rep.violation(sub + "hands_back_a_mesh", "SurfaceSubdivision.__exit__", "mismatch:elements_changed_on_exit", cls, cx.detail(seq)); return None
    n = len(s["V"])
    bad = _validity_surface(s, n)
    if bad:
        rep.violation(sub + "valid_mesh", callee, "mismatch:" + bad[0], cls, cx.detail(seq, labels=bad, edges=s["E"][:12])); return s
    fmt, fdet = _storage_format(M, Rm)
    if fmt:
        rep.violation(sub + "valid_mesh", callee, "mismatch:" + fmt[0], "storage_format:mesh_handed_back", cx.detail(seq, **fdet)); return s
    rep.count("storage_format_judged:surface")
    topo = R.surface_topology(s["F"], n)
    for k in ("chi", "border_loops", "components"):
        if topo[k] != cx.topo0[k]:
            rep.violation(sub + "topology", callee, "mismatch:" + k, cls, cx.detail(seq, got=topo, want=cx.topo0))
    if cx.area_defined:
        a1 = R.area_by_direction(Pex, s["F"])
        if a1 != cx.area0:
            t0, t1 = R.total_area(cx.area0), R.total_area(a1)
            lab = "total_area" if abs(t0 - t1) > 1e-9 * t0 else "area_per_plane"
            rep.violation(sub + "area", callee, "mismatch:" + lab, cls, cx.detail(seq, got=t1, want=t0))
        rep.count("area_clause_evaluated")
        if cx.arity != "3":
            rep.flag("area_clause_on_polygon_mesh")
    else:
        rep.count("area_clause_skipped_input_has_nonplanar_or_nonconvex_polygon")
    orc = SurfOracle(s["F"], n, s["E"])
    tri = all(len(f) == 3 for f in s["F"]); quad = all(len(f) == 4 for f in s["F"])
    fails = _eval_accessors(Rm, orc, cx.events, cx.cap, rep,
                            extra=[("is_triangular", Rm.is_triangular, tri), ("is_quad", Rm.is_quad, quad)])
    if fails:
        kind = fails[0][2] if fails[0][2].startswith("raises:") else "mismatch:answers"
        rep.violation(sub + "result_connectivity", callee, kind, cls, cx.detail(seq, **_summary(fails)))
    return s


def _check_surface_input_object(cx: SurfCtx, seq, run, sres, queried, callee, suppress=(), sub="C13.surf.", cls_prefix="",
                                always_eval=False, extra=None):
    """the object passed in: unchanged or equal to the result, and its caches answer for its own containers.
    Returns the set of clauses reported; clauses in `suppress` (already reported for the same sequence without
    queried connectivity) are not reported again, so that a 'queried_before' class means: ONLY when queried."""
    rep = cx.rep
    done = set()
    m = run["m"]
    replaced = "containers_replaced" if any(k in S_REPLACING for k, _ in seq) else "edited_in_place"
    cls = f"{cls_prefix}{replaced}:{'queried_before' if queried else 'not_queried'}"
    extra = extra or {}
    o = call(_snap_surf, m)
    rep.evaluations += 1
    if not o.ok:
        rep.violation(sub + "input_object", callee, "side_effect:input_containers_unreadable", cls, cx.detail(seq, msg=o.msg, **extra)); return done
    s = o.value
    if s == run["pre"]:
        state = "unchanged"
    elif sres is not None and s == sres:
        state = "equal_to_result"
    else:
        diff = [k for k in ("V", "E", "F", "FC") if s[k] != run["pre"][k]]
        done.add("input_object")
        if "input_object" in suppress:
            return done
        rep.violation(sub + "input_object", callee, "side_effect:input_half_updated", cls,
                      cx.detail(seq, differs_from_preimage=diff, differs_from_result=[k for k in ("V", "E", "F", "FC") if sres is None or s[k] != sres[k]],
                                input_faces=s["F"][:8], input_face_corners=len(s["FC"][0]), **extra))
        return done
    rep.outcome("input_object" if sub == "C13.surf." else sub[4:] + "input_object", state)
    fmt, fdet = _storage_format(cx.M, m)
    if fmt:
        done.add("input_format")
        if "input_format" not in suppress:
            rep.violation(sub + "input_object", callee, "side_effect:" + fmt[0], "storage_format:object_passed_in", cx.detail(seq, **fdet, **extra))
        return done
    if not (queried or state == "equal_to_result" or always_eval):
        return done
    n = len(s["V"])
    if _validity_surface(s, n) or "input_caches" in suppress:
        return done      # reported on the result / already reported for this sequence
    orc = SurfOracle(s["F"], n, s["E"])
    tri = all(len(f) == 3 for f in s["F"]); quad = all(len(f) == 4 for f in s["F"])
    fails = _eval_accessors(m, orc, cx.events, min(cx.cap, 60), rep, extra=[("is_triangular", m.is_triangular, tri), ("is_quad", m.is_quad, quad)])
    if fails:
        done.add("input_caches")
        if "input_caches" not in suppress:
            rep.violation(sub + "input_caches", callee, "mismatch:stale_connectivity", cls + ":" + state, cx.detail(seq, **_summary(fails), **extra))
    return done


CFG_SURF = {"complete_edges_from_faces": False}


def _pairs(E):
    return sorted(tuple(sorted(int(x) for x in e)) for e in E)


def _half_written(new_vertices, sides, have):
    """new vertices some, but not all, of whose sides are in `have` (sides/have: sets of sorted index tuples)"""
    out = []
    for v in new_vertices:
        inc = sorted(e for e in sides if v in e)
        w = [e for e in inc if e in have]
        if w and len(w) != len(inc):
            out.append({"vertex": v, "written": [list(e) for e in w], "not_written": [list(e) for e in inc if e not in have]})
    return out


def _check_surface_config_off(cx: SurfCtx, seq, st, runA, sresA, callee):
    """configuration dimension: the block of `seq` once more, on a mesh built with the default configuration, with
    config.complete_edges_from_faces off from just before the block is entered until it has been left. Nothing then
    adds the edges the operations did not write themselves, so what is handed back is what they wrote:
      * vertices and faces (every step and the result) are those of the default configuration;
      * the edge list handed back is exactly the one the operations left (exit neither adds nor loses an edge);
      * every edge is a valid, sorted, unique pair and the side of a face (it need not cover every side: the unchanged
        library leaves the diagonal of a split quad and all edges of the 1-to-3 refinement to the completion step -
        counted, not judged); the sides of a vertex created by the last operation are written together or not at all;
      * face corners match the faces; when the edge list does cover every side, every connectivity answer is judged;
      * the object passed in equals the result."""
    rep = cx.rep
    sub = "C13.surf.config."
    kind = seq[-1][0]
    cls = "edge_completion_off:" + ("containers_replaced" if kind in S_REPLACING else "edited_in_place")
    rep.traces += 1; rep.transitions += 1

    def det(**kw):
        return cx.detail(seq, config=dict(CFG_SURF), **kw)
    run = _run_surf_block(cx, seq, False, cfg=CFG_SURF)
    rep.evaluations += 7
    if run["exc"] is not None:
        k, exn, msg = run["exc"]
        rep.violation(sub + "accepts", (run["where"] or callee) if k < len(seq) else "SurfaceSubdivision.__exit__", "raises:" + exn, cls, det(msg=msg)); return
    if [(x["V"], x["F"], _pairs(x["E"])) for x in run["states"]] != [(x["V"], x["F"], _pairs(x["E"])) for x in runA["states"]]:
        rep.violation(sub + "independent_elements", callee, "mismatch:operations_depend_on_the_completion_switch", cls, det()); return
    Rm = run["ed"].mesh
    if type(Rm) is not cx.M.mesh.SurfaceMesh:
        rep.violation(sub + "hands_back_a_mesh", callee, "mismatch:type", cls, det(got=type(Rm).__name__)); return
    o = call(_snap_surf, Rm)
    if not o.ok:
        rep.violation(sub + "valid_mesh", callee, "mismatch:containers_unreadable", cls, det(msg=o.msg)); return
    s = o.value
    if s["V"] != sresA["V"] or s["F"] != sresA["F"]:
        rep.violation(sub + "independent_elements", "SurfaceSubdivision.__exit__", "mismatch:elements_depend_on_the_completion_switch", cls, det()); return
    n = len(s["V"])
    written = _pairs(run["states"][-1]["E"])
    if _pairs(s["E"]) != written:
        got = _pairs(s["E"])
        rep.violation(sub + "edges_handed_back", "SurfaceSubdivision.__exit__", "mismatch:edges_added_or_lost_on_exit", cls,
                      det(added=[list(e) for e in sorted(set(got) - set(written))][:8], lost=[list(e) for e in sorted(set(written) - set(got))][:8],
                          n_got=len(got), n_written=len(written))); return
    bad = _validity_surface(s, n, completed=False)
    if bad:
        rep.violation(sub + "valid_mesh", callee, "mismatch:" + bad[0], cls, det(labels=bad, edges=s["E"][:12])); return
    sides, have = F.undirected_edges(s["F"]), set(written)
    half = _half_written(range(len(st["V"]), n), sides, have)
    if half:
        rep.violation(sub + "edges_written_together", callee, "mismatch:new_vertex_with_some_but_not_all_of_its_edges", cls,
                      det(half_written=half[:3], n_edges=len(written), n_sides=len(sides))); return
    complete = have == sides
    rep.count("config_off:surface_blocks")
    rep.outcome("config_off:" + kind, "edge_list_complete" if complete else "sides_left_to_the_completion_step")
    if complete:
        rep.count("config_off:surface_connectivity_judged_edge_list_covers_every_side")
        orc = SurfOracle(s["F"], n, s["E"])
        tri = all(len(f) == 3 for f in s["F"]); quad = all(len(f) == 4 for f in s["F"])
        fails = _eval_accessors(Rm, orc, cx.events, min(cx.cap, 30), rep,
                                extra=[("is_triangular", Rm.is_triangular, tri), ("is_quad", Rm.is_quad, quad)])
        if fails:
            k = fails[0][2] if fails[0][2].startswith("raises:") else "mismatch:answers"
            rep.violation(sub + "result_connectivity", callee, k, cls, det(**_summary(fails)))
    else:
        rep.count("config_off:surface_connectivity_not_judged_sides_left_without_edge:" + kind)
    if Rm is run["m"]:
        rep.outcome("config.input_object", "is_the_result")
    else:
        _check_surface_input_object(cx, seq, run, s, False, "SurfaceSubdivision.__exit__", sub=sub, cls_prefix="edge_completion_off:",
                                    extra={"config": dict(CFG_SURF)})


def _abandon_prefixes(known, replacing, entry):
    """the sequences after which a block is abandoned: the empty one, the first explored single operation of every
    entry point and the first explored pair of every (replaces the containers?, replaces the containers?) class"""
    chosen, seen = [()], set()
    for seq, st in known.items():
        if not seq or st.get("res") is None or len(seq) > 2:
            continue
        key = (entry[seq[0][0]],) if len(seq) == 1 else tuple(k in replacing for k, _ in seq)
        if key not in seen:
            seen.add(key); chosen.append(seq)
    return chosen


def _check_surface_abandoned(cx: SurfCtx, known):
    """history dimension: editing blocks that are LEFT BY AN EXCEPTION after 0, 1 or 2 operations - the caller's own
    exception, or an operation called with the index of a face that does not exist (if the operation rejects it).
    The unchanged library rebuilds the object passed in whenever the block is left, so the object is then the result
    of the completed block of the operations done so far. Demanded (the statement): the object passed in is unchanged
    or equal to that result, and every connectivity answer describes its own containers - queried before or not."""
    rep = cx.rep
    sub = "C13.surf.abandoned_block."
    for seq in _abandon_prefixes(known, S_REPLACING, S_CALLEE):
        if seq:
            sres = known[seq]["res"]
        else:
            r0 = _run_surf_block(cx, (), False)
            o0 = call(_snap_surf, r0["ed"].mesh)
            if r0["exc"] is not None or not o0.ok:
                rep.violation("C13.surf.hands_back_a_mesh", "SurfaceSubdivision.__exit__", "raises:" + (r0["exc"][1] if r0["exc"] else o0.exc),
                              "block_without_operation", cx.detail(seq)); continue
            sres = o0.value
        for mode in (("caller", "TF", "FAN") if len(seq) < 2 else ("caller", "FAN")):
            done = set()
            label = ("caller_exception" if mode == "caller" else "rejected_argument") + ":" + ("no_edit" if not seq else "after_edits") + ":"
            for queried in (False, True):
                rep.traces += 1; rep.transitions += 1
                run = _run_surf_block(cx, seq, queried, leave=mode)
                left = run["left"]
                if left["mode"] is None:
                    raise AssertionError(f"replayed prefix raised on {cx.name} {seq}: {run['exc']}")
                extra = {"block_left_by": "raise in the caller's code" if mode == "caller" else f"{S_CALLEE[mode]}({left.get('arg')}) - no such face",
                         "exception": left["exc"], "connectivity_queried_before": queried}
                if left["mode"] == "accepted":      # nothing promises a rejection: the block simply completed
                    rep.outcome("leave:" + mode, "accepted"); rep.count("abandoned:nonexistent_index_accepted"); continue
                rep.outcome("leave:" + mode, "raise:" + str(left["exc"]))
                rep.count("abandoned:surface_blocks")
                rep.flag("abandoned_surface_%d_%s" % (len(seq), "caller" if mode == "caller" else "rejected"))
                if run["exc"] is None:
                    rep.count("abandoned:exception_did_not_propagate")       # outside the statement
                elif not left["propagated"]:
                    rep.violation(sub + "hands_back_a_mesh", "SurfaceSubdivision.__exit__", "raises:" + run["exc"][1], label + ("queried_before" if queried else "not_queried"),
                                  cx.detail(seq, msg=run["exc"][2], **extra)); continue
                done = _check_surface_input_object(cx, seq, run, sres, queried, "SurfaceSubdivision.__exit__", done, sub=sub, cls_prefix=label,
                                                   always_eval=True, extra=extra)


# ---- history dimension: SEVERAL editing blocks on one mesh object, the editor objects fresh, re-used or made early
H_FRESH, H_REUSED, H_EARLY = "fresh_editor_per_block", "one_editor_object_reused", "editors_constructed_before_the_first_block"
HIST_MODES = (H_FRESH, H_REUSED, H_EARLY)


def _history_sequences(known, classify, all_singles=True):
    """the explored sequences that are replayed as histories of several blocks: every explored single operation (or the
    first and the last explored one of every kind) and the first explored pair of every class (classify(kind), classify(kind))"""
    out, seen = [], set()
    singles = [seq for seq, st in known.items() if len(seq) == 1 and st.get("res") is not None]
    keep = set(singles)
    if not all_singles:
        keep = set()
        for kind in sorted(set(q[0][0] for q in singles)):
            mine = [q for q in singles if q[0][0] == kind]
            keep.update((mine[0], mine[-1]))
    for seq, st in known.items():
        if not seq or len(seq) > 2 or st.get("res") is None or (len(seq) == 1 and seq not in keep):
            continue
        if len(seq) == 2:
            key = (classify(seq[0][0]), classify(seq[1][0]))
            if key in seen:
                continue
            seen.add(key)
        out.append(seq)
    return out


def _check_surface_histories(cx: SurfCtx, known):
    """history dimension: the operations of an explored sequence ONE PER EDITING BLOCK on one mesh object, followed by
    one block without operation (k operations = k + 1 blocks, i.e. at least a constructor and two blocks), the editor
    objects being (a) made afresh just before each block, (b) ONE object entered k + 1 times, (c) k + 1 objects all
    constructed before the first block is entered (so that the mesh is refined by another object between the
    construction of an editor and its block); connectivity queried before the first block and between the blocks, or
    never. The statement quantifies over every mesh its documentation admits - the mesh a block hands back is one - and
    nothing in the documentation restricts an editor object to one block. Demanded after EVERY block: the block is
    accepted; the elements at its end are those the mesh hands back; the operation refines the mesh that the previous
    block handed back (its state is first compared with the state the main exploration validated for the same
    operations in one block - vertex and face numbering happen to agree in the unchanged library - and otherwise
    validated against the reference model from the previous state); the mesh handed back is valid and stored in the
    documented format; the object passed in is that mesh or unchanged (then the next block refines it once more); the block without operation changes nothing. After the last
    block: topology of the input, connectivity answers for the final containers."""
    from mouette.mesh.subdivision import SurfaceSubdivision
    rep, M = cx.rep, cx.M
    sub = "C13.surf.block_history."
    n_ops = 0
    for seq in _history_sequences(known, S_CALLEE.get if cx.all_faces else (lambda k: k in S_REPLACING)):
        for mode in HIST_MODES:
            for queried in ((False, True) if (cx.do_queried and mode != H_FRESH) else (False,)):
                rep.traces += 1
                nb = len(seq) + 1
                m = cx.build()
                cur = {"V": cx.Pf0, "F": cx.F0, "P": [R.W(i) for i in range(len(cx.P0))]}
                if queried:
                    cx.warm(m)
                prev_in = _snap_surf(m)
                eds = [SurfaceSubdivision(m)] * nb if mode == H_REUSED else [SurfaceSubdivision(m) for _ in range(nb)] if mode == H_EARLY else None
                ok = True
                for b in range(nb):
                    rep.transitions += 1; rep.evaluations += 6
                    op = seq[b] if b < len(seq) else None
                    which = "block_without_operation" if op is None else ("first_block" if b == 0 else "later_block")
                    cls = f"{mode}:{which}:{'queried_between' if queried else 'not_queried'}"
                    callee = "SurfaceSubdivision.__exit__" if op is None else S_CALLEE[op[0]]

                    def det(**kw):
                        return cx.detail(seq, blocks=[[list(e)] for e in seq] + [[]], editor_objects=mode, failing_block=b,
                                         connectivity_queried_before_every_block=queried, **kw)
                    ed = eds[b] if eds else SurfaceSubdivision(m)
                    raw, stage = None, "enter"
                    try:
                        with ed:
                            stage = "operation"
                            if op is not None:
                                _apply_surf(ed, *op)
                            raw = _raw_obs(ed.mesh)
                            stage = "exit"
                    except Exception as ex:   # noqa
                        who = {"enter": "SurfaceSubdivision.__enter__", "exit": "SurfaceSubdivision.__exit__"}.get(stage) or _where(ex, "SurfaceSubdivision") or callee
                        rep.violation(sub + "accepts", who, "raises:" + type(ex).__name__, cls, det(msg=str(ex)[:200])); ok = False; break
                    Rm = ed.mesh
                    if type(Rm) is not M.mesh.SurfaceMesh:
                        rep.violation(sub + "hands_back_a_mesh", callee, "mismatch:type", cls, det(got=type(Rm).__name__)); ok = False; break
                    o, oi = call(_snap_surf, Rm), call(_snap_surf, m)
                    if not o.ok or not oi.ok:
                        rep.violation(sub + "valid_mesh", callee, "mismatch:containers_unreadable", cls, det(msg=o.msg if not o.ok else oi.msg)); ok = False; break
                    s, nxt = o.value, cur
                    # ---- the operation refines the mesh handed back by the previous block
                    if op is None:
                        if raw["V"] != cur["V"] or raw["F"] != cur["F"]:
                            rep.violation(sub + "refinement_pattern", callee, "mismatch:block_without_operation_changes_the_elements", cls,
                                          det(n_faces=[len(cur["F"]), len(raw["F"])], n_vertices=[len(cur["V"]), len(raw["V"])])); ok = False; break
                    else:
                        rec = known[seq[:b + 1]]
                        if raw["V"] == rec["V"] and raw["F"] == rec["F"] and cur["V"] == known[seq[:b]]["V"] and cur["F"] == known[seq[:b]]["F"]:
                            nxt = {"V": rec["V"], "F": rec["F"], "P": rec["P"]}
                            rep.count("history:operation_gives_the_state_validated_in_one_block")
                        else:
                            try:
                                Wts, _ = R.validate_surface_step(cur["P"], cx.P0, cur["V"], cur["F"], op[0], None if op[1] is None else [op[1]], raw["V"], raw["F"])
                                if not F.is_oriented_manifold(raw["F"], len(raw["V"])):
                                    raise R.StepFailure("valid_mesh", "not_an_oriented_manifold", {})
                                nxt = {"V": raw["V"], "F": raw["F"], "P": Wts}
                                rep.count("history:operation_validated_against_the_model")
                            except R.Degenerate:
                                rep.count("filtered_coincident_refinement_points"); ok = False; break
                            except R.StepFailure as sf:
                                rep.violation(sub + sf.clause, callee, "mismatch:" + sf.label, cls,
                                              det(n_faces_before_the_block=len(cur["F"]), n_faces_after=len(raw["F"]),
                                                  n_faces_one_block=len(rec["F"]), **sf.detail)); ok = False; break
                        n_ops += 1
                    # ---- what the block hands back
                    if s["V"] != raw["V"] or s["F"] != raw["F"]:
                        rep.violation(sub + "hands_back_a_mesh", "SurfaceSubdivision.__exit__", "mismatch:elements_changed_on_exit", cls,
                                      det(n_faces=[len(raw["F"]), len(s["F"])])); ok = False; break
                    bad = _validity_surface(s, len(s["V"]))
                    fmt, fdet = _storage_format(M, Rm)
                    if bad or fmt:
                        rep.violation(sub + "valid_mesh", "SurfaceSubdivision.__exit__", "mismatch:" + (bad + fmt)[0], cls,
                                      det(labels=bad + fmt, n_faces=len(s["F"]), n_face_corners=len(s["FC"][0]), n_edges=len(s["E"]), **fdet)); ok = False; break
                    if oi.value == s:
                        cur = nxt
                    elif oi.value == prev_in:       # the statement allows it: the next block then refines the same mesh once more
                        rep.count("history:object_passed_in_left_unchanged")
                    else:
                        rep.violation(sub + "input_object", "SurfaceSubdivision.__exit__", "side_effect:input_half_updated", cls,
                                      det(differs_from_result=[k for k in ("V", "E", "F", "FC") if oi.value[k] != s[k]],
                                          differs_from_preimage=[k for k in ("V", "E", "F", "FC") if oi.value[k] != prev_in[k]],
                                          n_faces_input=len(oi.value["F"]), n_faces_handed_back=len(s["F"])))
                        ok = False; break
                    prev_in = oi.value
                    rep.outcome("history:" + mode, which + ":" + ("is_the_input" if Rm is m else "equal_to_the_input"))
                    if queried and b + 1 < nb:
                        _warm(m, SurfOracle(prev_in["F"], len(prev_in["V"]), prev_in["E"]), cx.events)
                        m.is_triangular(); m.is_quad()
                if not ok:
                    break               # not repeated with connectivity queried between the blocks: ':queried_between' means ONLY then
                s = prev_in             # the object every block was made for (equal to the mesh handed back, or left unchanged)
                topo = R.surface_topology(s["F"], len(s["V"]))
                if any(topo[k] != cx.topo0[k] for k in ("chi", "border_loops", "components")):
                    rep.violation(sub + "topology", S_CALLEE[seq[-1][0]], "mismatch:topology", f"{mode}:after_the_last_block", det(got=topo, want=cx.topo0)); continue
                tri = all(len(f) == 3 for f in s["F"]); quad = all(len(f) == 4 for f in s["F"])
                fails = _eval_accessors(m, SurfOracle(s["F"], len(s["V"]), s["E"]), cx.events, min(cx.cap, 12), rep,
                                        extra=[("is_triangular", m.is_triangular, tri), ("is_quad", m.is_quad, quad)])
                if fails:
                    k = fails[0][2] if fails[0][2].startswith("raises:") else "mismatch:answers"
                    rep.violation(sub + "result_connectivity", "SurfaceSubdivision.__exit__", k, f"{mode}:after_the_last_block:{'queried_between' if queried else 'not_queried'}",
                                  det(**_summary(fails))); continue
                rep.count("history:surface_histories")
                rep.flag("history_surface_%d_blocks_%s" % (nb, mode))
                if queried:
                    rep.flag("history_surface_queried_between_blocks")
                if any(k in S_REPLACING for k, _ in seq):
                    rep.flag("history_surface_containers_replaced_%s" % mode)
    rep.count("history:surface_operations_in_blocks_of_their_own", n_ops)


def explore_surface(cx: SurfCtx):
    rep = cx.rep
    init = {"V": cx.Pf0, "F": cx.F0, "E": [tuple(e) for e in cx.E0], "P": [R.W(i) for i in range(len(cx.P0))], "depth": 0}
    key0 = h64(pickle.dumps((init["V"], init["F"], init["E"], True)))
    known = {(): init}
    seen = {key0}
    frontier = [()]
    rep.states += 1
    while frontier:
        seq = frontier.pop(0)
        st = known[seq]
        wl = cx.depth - sum(S_WEIGHT[k] for k, _ in seq)
        for ev in _surf_events(st, wl, cx.all_faces, cx.is_zoo, cx.max_faces, rep, cx.arg_events_only):
            seq2 = seq + (ev,)
            kind, arg = ev
            callee = S_CALLEE[kind]
            rep.traces += 2; rep.transitions += 2
            runA = _run_surf_block(cx, seq2, False)
            # ---- replayed prefix must reproduce the recorded observations
            for i in range(min(len(seq), len(runA["states"]))):
                rec = known[seq2[:i + 1]]
                if runA["states"][i]["V"] != rec["V"] or runA["states"][i]["F"] != rec["F"]:
                    raise AssertionError(f"replay divergence on {cx.name} {seq2} step {i}")
            after, doneA = None, set()
            if runA["exc"] is not None:
                k, exn, msg = runA["exc"]
                rep.outcome(kind, "raise:" + exn)
                if k < len(seq):
                    raise AssertionError(f"replayed prefix raised on {cx.name} {seq2}: {runA['exc']}")
                if k == len(seq):
                    rep.violation("C13.surf.accepts", runA["where"] or callee, "raises:" + exn, ("second_round_of_a_repeated_refinement" if S_WEIGHT[kind] == 2 and _edge_table_class(st).startswith("raw_edge_list_complete") else _edge_table_class(st)),
                                  cx.detail(seq2, msg=msg, state_faces_before=st["F"][:8], state_edges_before=[list(e) for e in st["E"][:12]]))
                else:
                    rep.violation("C13.surf.hands_back_a_mesh", "SurfaceSubdivision.__exit__", "raises:" + exn, cx.icls, cx.detail(seq2, msg=msg))
            else:
                obs = runA["states"][-1]
                rep.outcome(kind, (len(obs["V"]) - len(st["V"]), len(obs["F"]) - len(st["F"])))
                cls = f"state_arity{_arity_class(st['F'])}:{'closed' if cx.closed else 'bordered'}"
                # a quad of the state one of whose diagonals is already an edge: a fixed choice of diagonal can
                # collide with it; everything that goes wrong then is reported under ONE fingerprint
                taken = [] if kind == "FAN" else R.quad_with_taken_diagonal(st["F"], None if arg is None else {arg})
                try:
                    rep.evaluations += 5
                    Wts, stats = R.validate_surface_step(st["P"], cx.P0, st["V"], st["F"], kind, None if arg is None else [arg], obs["V"], obs["F"])
                    if not F.is_oriented_manifold(obs["F"], len(obs["V"])):
                        raise R.StepFailure("valid_mesh", "not_an_oriented_manifold", {})
                    after = {"V": obs["V"], "F": obs["F"], "E": obs["E"], "P": Wts, "depth": st["depth"] + 1}
                    Pex = [R.pos(w, cx.P0) for w in Wts]
                    if kind == "S6" and len(st["F"][0]) == 3:
                        # observation only (the statement does not fix the diagonal; the docstring says corner-barycentre)
                        A, B, C = (st["P"][v] for v in st["F"][0])
                        k = R.rot_min((A, R.centroid((A, B)), R.centroid((A, B, C))))
                        has = any(R.rot_min(tuple(Wts[v] for v in g)) == k for g in obs["F"])
                        rep.count("observed_1to6_split_along_" + ("corner_barycentre_diagonal_as_documented" if has else "midpoint_midpoint_diagonal_not_as_documented"))
                except R.Degenerate:
                    rep.count("filtered_coincident_refinement_points")
                except R.StepFailure as sf:
                    if taken:
                        rep.violation("C13.surf.valid_mesh", S_CALLEE["TF"], "mismatch:quad_diagonal_collides_with_another_edge", "quad_diagonal_joins_vertices_joined_elsewhere",
                                      cx.detail(seq2, operation=callee, clause=sf.clause, label=sf.label, quads=taken, state_faces_before=st["F"][:10], **sf.detail))
                    else:
                        rep.violation("C13.surf." + sf.clause, callee, "mismatch:" + sf.label, cls, cx.detail(seq2, **sf.detail))
                if taken:
                    rep.flag("quad_with_taken_diagonal")
                sres = None
                if after is not None:
                    opcls = "+".join(sorted(set(k for k, _ in seq2))) + ":" + cx.icls
                    sres = _check_surface_result(cx, seq2, runA["ed"].mesh, obs, Pex, callee, opcls)
                    doneA = _check_surface_input_object(cx, seq2, runA, sres, False, "SurfaceSubdivision.__exit__")
                    after["res"] = sres
                    rep.count("steps_validated")
                    if sres is not None and cx.do_config_off:
                        _check_surface_config_off(cx, seq2, st, runA, sres, callee)
            # ---- same sequence with connectivity queried before
            runB = _run_surf_block(cx, seq2, True) if cx.do_queried else runA
            rep.evaluations += 1
            same = (runB["exc"] == runA["exc"]) and [(s["V"], s["F"]) for s in runB["states"]] == [(s["V"], s["F"]) for s in runA["states"]]
            sresB = None
            if not cx.do_queried:
                pass
            elif same and runA["exc"] is None:
                oB = call(_snap_surf, runB["ed"].mesh)
                oA = call(_snap_surf, runA["ed"].mesh)
                same = oA.ok == oB.ok and (not oA.ok or oA.value == oB.value)
                sresB = oB.value if oB.ok else None
            if not cx.do_queried:
                pass
            elif not same:
                rep.violation("C13.surf.pre_state_independent", callee, "mismatch:result_depends_on_queried_connectivity", cx.icls,
                              cx.detail(seq2, exc_fresh=runA["exc"], exc_queried=runB["exc"]))
            elif after is not None:
                _check_surface_input_object(cx, seq2, runB, sresB, True, "SurfaceSubdivision.__exit__", doneA)
            # ---- expansion
            if after is not None:
                key = h64(pickle.dumps((after["V"], after["F"], after["E"], runA["shared"])))
                known[seq2] = after
                if key not in seen:
                    seen.add(key)
                    rep.states += 1
                    rep.case((cx.name, key))
                    if sum(S_WEIGHT[k] for k, _ in seq2) < cx.depth:
                        frontier.append(seq2)
    if cx.do_abandoned:
        _check_surface_abandoned(cx, known)
    if cx.do_history:
        _check_surface_histories(cx, known)
    rep.count("surface_inputs")
    if len(cx.F0[0]) != 3 and len(set(len(f) for f in cx.F0)) > 1:
        rep.flag("non_triangle_in_position_0_of_a_mixed_face_list")
    rep.flag("closed" if cx.closed else "bordered")
    for f in cx.F0:
        rep.flag("arity%d" % min(len(f), 5))
    diag = [d for f in cx.F0 if len(f) == 4 for d in (tuple(sorted((f[0], f[2]))), tuple(sorted((f[1], f[3]))))]
    if len(set(diag)) != len(diag):
        rep.flag("two_quads_share_a_pair_of_opposite_corners")
        if len(set(tuple(sorted((f[1], f[3]))) for f in cx.F0 if len(f) == 4)) != sum(1 for f in cx.F0 if len(f) == 4):
            rep.flag("two_quads_share_the_pair_of_their_second_and_fourth_corner")
    if len(rep.samples) < 2:
        rep.sample({"surface": cx.name, "faces": cx.faces, "states": len(seen), "a_sequence": [list(e) for e in max(known, key=len)]})


def check_split_double(cx: SurfCtx):
    """standalone split_double_boundary_edges_triangles(mesh) on a triangle mesh"""
    from mouette.mesh.subdivision import split_double_boundary_edges_triangles as sdb
    rep = cx.rep
    callee = S_CALLEE["SDB"]
    bh = set(F.border_half_edges(cx.F0))
    targets = [i for i, f in enumerate(cx.F0) if sum(1 for e in F.directed_edges(f) if e in bh) >= 2]
    seq = (("SDB", None),)
    results = {}
    doneA = set()
    for queried in ((False, True) if cx.do_queried else (False,)):
        rep.traces += 1; rep.transitions += 1
        m = cx.build()
        if queried:
            cx.warm(m)
        pre = _snap_surf(m)
        o = call(sdb, m)
        if not o.ok:
            rep.outcome("SDB", "raise:" + o.exc)
            rep.violation("C13.surf.accepts", callee, exc_kind(o), cx.icls, cx.detail(seq, msg=o.msg)); return
        Rm = o.value
        rep.outcome("SDB", len(targets))
        if targets:
            rep.flag("sdb_split_something")
        if type(Rm) is not cx.M.mesh.SurfaceMesh:
            rep.violation("C13.surf.hands_back_a_mesh", callee, "mismatch:type", cx.icls, cx.detail(seq, got=type(Rm).__name__)); return
        osn = call(_snap_surf, Rm)
        if not osn.ok:
            rep.violation("C13.surf.valid_mesh", callee, "mismatch:containers_unreadable", cx.icls, cx.detail(seq, msg=osn.msg)); return
        s = osn.value
        results[queried] = s
        if not queried:
            try:
                rep.evaluations += 4
                Wts, _ = R.validate_surface_step([R.W(i) for i in range(len(cx.P0))], cx.P0, cx.Pf0, cx.F0, "FAN", targets, s["V"], s["F"])
                Pex = [R.pos(w, cx.P0) for w in Wts]
            except R.Degenerate:
                rep.count("filtered_coincident_refinement_points"); return
            except R.StepFailure as sf:
                rep.violation("C13.surf." + sf.clause, callee, "mismatch:" + sf.label, cx.icls, cx.detail(seq, targets=targets, **sf.detail)); return
            _check_surface_result(cx, seq, Rm, {"V": s["V"], "F": s["F"]}, Pex, callee, "SDB:" + cx.icls)
            bh2 = set(F.border_half_edges(s["F"]))
            if any(sum(1 for e in F.directed_edges(f) if e in bh2) >= 2 for f in s["F"]):
                rep.violation("C13.surf.refinement_pattern", callee, "mismatch:triangle_with_two_border_edges_left", cx.icls, cx.detail(seq))
        run = {"m": m, "pre": pre}
        # in-place function: the documented result IS the input object
        sq = (("FAN", None),) if targets else ()
        doneA = _check_surface_input_object(cx, sq, run, s, queried, callee, doneA)
        if cx.do_history and not queried and not doneA:
            # history: a SECOND call on the mesh the first one handed back - it refines the triangles that still have two
            # border edges (the first call leaves none: checked above) and must hand back a valid mesh again
            rep.traces += 1; rep.transitions += 1; rep.evaluations += 4
            seq2 = (("SDB", None), ("SDB", None))
            o2 = call(sdb, Rm)
            if not o2.ok:
                rep.violation("C13.surf.block_history.accepts", callee, exc_kind(o2), "second_call_on_the_mesh_handed_back", cx.detail(seq2, msg=o2.msg)); continue
            os2 = call(_snap_surf, o2.value)
            if type(o2.value) is not cx.M.mesh.SurfaceMesh or not os2.ok:
                rep.violation("C13.surf.block_history.hands_back_a_mesh", callee, "mismatch:type_or_containers", "second_call_on_the_mesh_handed_back", cx.detail(seq2)); continue
            s2 = os2.value
            t2 = [i for i, f in enumerate(s["F"]) if sum(1 for e in F.directed_edges(f) if e in bh2) >= 2]
            try:
                R.validate_surface_step(Wts, cx.P0, s["V"], s["F"], "FAN", t2, s2["V"], s2["F"])
            except R.Degenerate:
                rep.count("filtered_coincident_refinement_points"); continue
            except R.StepFailure as sf:
                rep.violation("C13.surf.block_history." + sf.clause, callee, "mismatch:" + sf.label, "second_call_on_the_mesh_handed_back", cx.detail(seq2, targets=t2, **sf.detail)); continue
            bad = _validity_surface(s2, len(s2["V"])) + _storage_format(cx.M, o2.value)[0]
            if bad:
                rep.violation("C13.surf.block_history.valid_mesh", callee, "mismatch:" + bad[0], "second_call_on_the_mesh_handed_back", cx.detail(seq2, labels=bad)); continue
            rep.count("history:sdb_second_calls")
    if len(results) == 2 and results[False] != results[True]:
        rep.violation("C13.surf.pre_state_independent", callee, "mismatch:result_depends_on_queried_connectivity", cx.icls, cx.detail(seq))


# =========================================================================================== volumes
def _vol_events():
    from props import c03
    return c03


class VolCtx:
    def __init__(self, M, name, n, cells, variant, depth, cap, all_args, rep, scale=1.0, lite=None, listing=None):
        from props import c03
        self.M, self.name, self.rep, self.depth, self.cap, self.all_args = M, name, rep, depth, cap, all_args
        self.c03 = c03
        self.do_history = True if lite is None else bool(lite.get("history", False))
        lite = lite or {}
        self.do_queried, self.do_config_off, self.do_abandoned = (lite.get(k, True) for k in ("queried", "config_off", "abandoned"))
        ipts = F.moment_curve(n, 1)
        self.pts = ipts if scale == 1.0 else [tuple(float(x) * scale for x in p) for p in ipts]   # exact: scale is a power of two
        self.cells = [tuple(c) for c in cells] if variant == "sorted" else F.orient_cells_positive(cells, ipts)
        if listing:      # an even permutation of the listing of every cell: the same oriented complex
            self.cells = [tuple(c[k] for k in listing) for c in self.cells]
            rep.flag("cells_listed_from_another_corner")
        self.variant = variant
        self.sort = bool(M.config.sort_neighborhoods)
        self.events = [e for e in c03._events(self.sort) if e.name not in ("enable_boundary_connectivity", "extract_boundary_of_volume")]
        m0 = self.build()
        s0 = _snap_vol(m0)
        self.s0 = s0
        self.P0 = [R.P(p) for p in s0["V"]]
        self.topo0 = R.volume_topology(s0["C"], len(self.P0))
        self.vol0 = R.volume6_abs(self.P0, s0["C"])
        self.icls = f"tet:cells{'1' if len(self.cells) == 1 else '2+'}:{variant}"
        self.base = {"complex": name, "points": [list(p) for p in self.pts], "cells": [list(c) for c in self.cells]}
        _describe_setting(self.base, scale, self.sort)
        _setting_flags(rep, m0.vertices, scale, self.sort)

    def build(self):
        return F.build_volume(self.pts, self.cells, tuple)

    def oracle(self, s):
        return self.c03.VolOracle(s["C"], len(s["V"]), s["F"], s["E"], s["V"])

    def warm(self, m):
        _warm(m, self.oracle(self.s0), self.events)

    def detail(self, seq, **kw):
        d = dict(self.base); d["sequence"] = [list(e) for e in seq]; d.update(kw)
        return d


V_CALLEE = {"CFAN": "VolumeSubdivision.split_cell_as_fan", "FSPLIT": "VolumeSubdivision.split_tet_from_face_center"}


def _run_vol_block(cx: VolCtx, seq, queried, cfg=None, leave=None):
    """see _run_surf_block; leave: None | 'caller' | 'CFAN' / 'FSPLIT' (called with index == number of cells / raw faces)"""
    from mouette.mesh.subdivision import VolumeSubdivision
    m = cx.build()
    if queried:
        cx.warm(m)
    pre = _snap_vol(m)
    states, exc, where = [], None, None
    left = {"mode": None, "exc": None, "propagated": None}
    ed = VolumeSubdivision(m)
    saved = _set_switches(cx.M, cfg)
    try:
        try:
            with ed:
                for kind, arg in seq:
                    if kind == "CFAN": ed.split_cell_as_fan(_arg(arg))
                    else: ed.split_tet_from_face_center(_arg(arg))
                    states.append({"V": _pts(ed.mesh.vertices), "C": _rows(ed.mesh.cells), "F": _rows(ed.mesh.faces),
                                   "E": [tuple(int(x) for x in e) for e in ed.mesh.edges]})
                if leave == "caller":
                    left["mode"], left["exc"] = "caller", _Abandon("the caller leaves the block")
                    raise left["exc"]
                elif leave is not None:
                    left["arg"] = len(ed.mesh.cells) if leave == "CFAN" else len(ed.mesh.faces)
                    try:
                        if leave == "CFAN": ed.split_cell_as_fan(_arg(left["arg"]))
                        else: ed.split_tet_from_face_center(_arg(left["arg"]))
                        left["mode"] = "accepted"
                    except Exception as ex0:   # noqa
                        left["mode"], left["exc"] = "rejected", ex0
                        raise
        except Exception as ex:   # noqa
            exc = (len(states), type(ex).__name__, str(ex)[:200])
            where = _where(ex, "VolumeSubdivision")
            left["propagated"] = ex is left["exc"]
    finally:
        _restore_switches(cx.M, saved)
    left["exc"] = None if left["exc"] is None else type(left["exc"]).__name__
    return {"m": m, "ed": ed, "pre": pre, "states": states, "exc": exc, "where": where, "left": left}


def _validity_volume(s, faces_completed=True, edges_completed=True):
    """faces_completed / edges_completed False: the block ran with that completion switch off - the list need not
    cover every triangle / side of the cells, but must not contain anything else (and no duplicate)"""
    n = len(s["V"])
    C, Fl, E = s["C"], s["F"], s["E"]
    if any(len(c) != 4 or len(set(c)) != 4 or any(v < 0 or v >= n for v in c) for c in C):
        return ["cell_invalid"]
    bad = []
    tris = set(tuple(sorted(c[:k] + c[k + 1:])) for c in C for k in range(4))
    if any(len(f) != 3 or any(v < 0 or v >= n for v in f) for f in Fl):
        bad.append("face_invalid")
    else:
        fs = [tuple(sorted(f)) for f in Fl]
        if len(set(fs)) != len(fs):
            bad.append("duplicate_face")
        if faces_completed and set(fs) != tris:
            bad.append("faces_are_not_the_triangles_of_the_cells")
        if not faces_completed and not set(fs) <= tris:
            bad.append("face_that_is_not_a_triangle_of_a_cell")
    sides = set(tuple(sorted(e)) for c in C for e in itertools.combinations(c, 2))
    if any(len(e) != 2 for e in E):
        bad.append("edge_not_a_pair")
    else:
        if any(a > b for a, b in E):
            bad.append("edge_not_sorted")
        if len(set(tuple(sorted(e)) for e in E)) != len(E):
            bad.append("duplicate_edge")
        if edges_completed and set(tuple(sorted(e)) for e in E) != sides:
            bad.append("edges_are_not_the_sides_of_the_cells")
        if not edges_completed and not set(tuple(sorted(e)) for e in E) <= sides:
            bad.append("edge_that_is_not_the_side_of_a_cell")
    if bad:
        return bad
    if s["FC"][0] != [v for f in Fl for v in f] or s["FC"][1] != [i for i, f in enumerate(Fl) for _ in f]:
        bad.append("face_corners_inconsistent")
    if s["CC"][0] != [v for c in C for v in c] or s["CC"][1] != [i for i, c in enumerate(C) for _ in c]:
        bad.append("cell_corners_inconsistent")
    cf = s["CF"][0]
    if not faces_completed and not cf and not s["CF"][1] and set(tuple(sorted(f)) for f in Fl) != tris:
        return bad          # no cell -> face table when some triangle of a cell is not in the face list
    if len(cf) != 4 * len(C) or any(not (0 <= cf[4 * i + k] < len(Fl)) or set(Fl[cf[4 * i + k]]) != set(c[:k] + c[k + 1:])
                                     for i, c in enumerate(C) for k in range(4)):
        bad.append("cell_faces_inconsistent")
    return bad


def _check_volume_result(cx: VolCtx, seq, Rm, last_obs, Pex, callee, cls):
    rep, M = cx.rep, cx.M
    sub = "C13.vol."
    if type(Rm) is not M.mesh.VolumeMesh:
        rep.violation(sub + "hands_back_a_mesh", callee, "mismatch:type", cls, cx.detail(seq, got=type(Rm).__name__)); return None
    o = call(_snap_vol, Rm)
    if not o.ok:
        rep.violation(sub + "valid_mesh", callee, "mismatch:containers_unreadable", cls, cx.detail(seq, msg=o.msg)); return None
    s = o.value
    rep.evaluations += 8
    if s["V"] != last_obs["V"] or s["C"] != last_obs["C"]:
        rep.violation(sub + "hands_back_a_mesh", "VolumeSubdivision.__exit__", "mismatch:elements_changed_on_exit", cls, cx.detail(seq)); return None
    bad = _validity_volume(s)
    if bad:
        rep.violation(sub + "valid_mesh", callee, "mismatch:" + bad[0], cls, cx.detail(seq, labels=bad, result_cells=s["C"])); return s
    fmt, fdet = _storage_format(M, Rm)
    if fmt:
        rep.violation(sub + "valid_mesh", callee, "mismatch:" + fmt[0], "storage_format:mesh_handed_back", cx.detail(seq, **fdet)); return s
    rep.count("storage_format_judged:volume")
    topo = R.volume_topology(s["C"], len(s["V"]))
    for k in sorted(topo):
        if topo[k] != cx.topo0[k] and not (k == "max_cells_per_triangle" and topo[k] <= 2):
            rep.violation(sub + "topology", callee, "mismatch:" + k, cls, cx.detail(seq, got=topo, want=cx.topo0))
    v1 = R.volume6_abs(Pex, s["C"])
    if v1 != cx.vol0:
        rep.violation(sub + "volume", callee, "mismatch:total_volume", cls, cx.detail(seq, got6=str(v1), want6=str(cx.vol0)))
    fails = _eval_accessors(Rm, cx.oracle(s), cx.events, cx.cap, rep)
    if fails:
        kind = fails[0][2] if fails[0][2].startswith("raises:") else "mismatch:answers"
        rep.violation(sub + "result_connectivity", callee, kind, cls, cx.detail(seq, **_summary(fails)))
    return s


def _check_volume_input_object(cx: VolCtx, seq, run, sres, queried, suppress=(), sub="C13.vol.", cls_prefix="", extra=None):
    rep = cx.rep
    done = set()
    m = run["m"]
    extra = extra or {}
    callee = "VolumeSubdivision.__exit__"
    cls = f"{cls_prefix}edited_in_place:{'queried_before' if queried else 'not_queried'}"
    o = call(_snap_vol, m)
    rep.evaluations += 1
    if not o.ok:
        rep.violation(sub + "input_object", callee, "side_effect:input_containers_unreadable", cls, cx.detail(seq, msg=o.msg, **extra)); return done
    s = o.value
    keys = ("V", "E", "F", "FC", "C", "CC", "CF")
    if s == run["pre"]:
        state = "unchanged"
    elif sres is not None and s == sres:
        state = "equal_to_result"
    else:
        done.add("input_object")
        if "input_object" in suppress:
            return done
        rep.violation(sub + "input_object", callee, "side_effect:input_half_updated", cls,
                      cx.detail(seq, differs_from_preimage=[k for k in keys if s[k] != run["pre"][k]],
                                differs_from_result=[k for k in keys if sres is None or s[k] != sres[k]], **extra))
        return done
    rep.outcome("vol_input_object" if sub == "C13.vol." else sub[4:] + "input_object", state)
    fmt, fdet = _storage_format(cx.M, m)
    if fmt:
        done.add("input_format")
        if "input_format" not in suppress:
            rep.violation(sub + "input_object", callee, "side_effect:" + fmt[0], "storage_format:object_passed_in", cx.detail(seq, **fdet, **extra))
        return done
    if _validity_volume(s) or "input_caches" in suppress:
        return done
    fails = _eval_accessors(m, cx.oracle(s), cx.events, min(cx.cap, 60), rep)
    if fails:
        if "input_caches" in suppress:
            return done
        done.add("input_caches")
        rep.violation(sub + "input_caches", callee, "mismatch:stale_connectivity", cls + ":" + state, cx.detail(seq, **_summary(fails), **extra))
    return done


CFG_VOL = [("edge_completion_off", {"complete_edges_from_faces": False}),
           ("face_and_edge_completion_off", {"complete_faces_from_cells": False, "complete_edges_from_faces": False})]


def _triples(Fl):
    return sorted(tuple(sorted(int(x) for x in f)) for f in Fl)


def _check_volume_config_off(cx: VolCtx, seq, st, runA, sresA, callee):
    """configuration dimension for volume blocks: config.complete_edges_from_faces off, and both completion switches
    off, from just before the block is entered until it has been left (mesh built with the default configuration).
    What is handed back is then what the operations wrote:
      * vertices and cells (every step, the result) are those of the default configuration;
      * the edge list (and, with face completion off, the face list) handed back is exactly the one the operations left;
        with face completion on the face list is complete;
      * no duplicate / foreign edge or face; corners match the elements; the cell -> face table is consistent, or empty
        when a triangle of a cell has no face; the edges at the vertex created by the last operation are written
        together or not at all;
      * with face completion off the raw face list after split_tet_from_face_center is the documented one: the split
        triangle replaced by its three sub-triangles ('split the triangle into three triangles'), every other face kept;
        after split_cell_as_fan (documents cells only) the old faces, plus all six new ones or none;
      * the object passed in equals the result.
    Connectivity answers are not judged (the edge list never covers the sides of the new vertex: the volume operations
    of the unchanged library write no edge)."""
    rep = cx.rep
    sub = "C13.vol.config."
    kind, arg = seq[-1]
    for label, cfg in CFG_VOL:
        faces_on = cfg.get("complete_faces_from_cells", True)
        cls = label
        rep.traces += 1; rep.transitions += 1

        def det(**kw):
            return cx.detail(seq, config=dict(cfg), **kw)
        run = _run_vol_block(cx, seq, False, cfg=cfg)
        rep.evaluations += 8
        if run["exc"] is not None:
            k, exn, msg = run["exc"]
            rep.violation(sub + "accepts", (run["where"] or callee) if k < len(seq) else "VolumeSubdivision.__exit__", "raises:" + exn, cls, det(msg=msg)); continue
        if [(x["V"], x["C"], x["F"]) for x in run["states"]] != [(x["V"], x["C"], x["F"]) for x in runA["states"]]:
            rep.violation(sub + "independent_elements", callee, "mismatch:operations_depend_on_the_completion_switch", cls, det()); continue
        Rm = run["ed"].mesh
        if type(Rm) is not cx.M.mesh.VolumeMesh:
            rep.violation(sub + "hands_back_a_mesh", callee, "mismatch:type", cls, det(got=type(Rm).__name__)); continue
        o = call(_snap_vol, Rm)
        if not o.ok:
            rep.violation(sub + "valid_mesh", callee, "mismatch:containers_unreadable", cls, det(msg=o.msg)); continue
        s = o.value
        if s["V"] != sresA["V"] or s["C"] != sresA["C"]:
            rep.violation(sub + "independent_elements", "VolumeSubdivision.__exit__", "mismatch:elements_depend_on_the_completion_switch", cls, det()); continue
        raw = run["states"][-1]
        if _pairs(s["E"]) != _pairs(raw["E"]):
            rep.violation(sub + "edges_handed_back", "VolumeSubdivision.__exit__", "mismatch:edges_added_or_lost_on_exit", cls,
                          det(n_got=len(s["E"]), n_written=len(raw["E"]))); continue
        if not faces_on and _triples(s["F"]) != _triples(raw["F"]):
            rep.violation(sub + "faces_handed_back", "VolumeSubdivision.__exit__", "mismatch:faces_added_or_lost_on_exit", cls,
                          det(n_got=len(s["F"]), n_written=len(raw["F"]))); continue
        bad = _validity_volume(s, faces_completed=faces_on, edges_completed=False)
        if bad:
            rep.violation(sub + "valid_mesh", callee, "mismatch:" + bad[0], cls, det(labels=bad, result_cells=s["C"], result_faces=s["F"][:16])); continue
        n = len(s["V"])
        sides = set(tuple(sorted(e)) for c in s["C"] for e in itertools.combinations(c, 2))
        half = _half_written(range(len(st["V"]), n), sides, set(_pairs(s["E"])))
        if half:
            rep.violation(sub + "edges_written_together", callee, "mismatch:new_vertex_with_some_but_not_all_of_its_edges", cls, det(half_written=half[:3])); continue
        if not faces_on:
            new = n - 1
            before, got = _triples(st["F"]), _triples(s["F"])
            tris = set(tuple(sorted(c[:k] + c[k + 1:])) for c in s["C"] for k in range(4))
            all_new = sorted(t for t in tris if new in t)
            if kind == "FSPLIT":
                t = tuple(sorted(st["F"][arg]))
                kept = list(before); kept.remove(t)
                minimal = sorted(kept + [tuple(sorted((t[0], t[1], new))), tuple(sorted((t[1], t[2], new))), tuple(sorted((t[0], t[2], new)))])
                wants = [minimal, sorted(kept + all_new)]
            else:
                wants = [before, sorted(before + all_new)]
            if got not in wants:
                rep.violation(sub + "faces_written_as_documented", callee, "mismatch:face_list_half_written", cls,
                              det(faces_before=[list(f) for f in before], faces_handed_back=[list(f) for f in got])); continue
        rep.count("config_off:volume_blocks")
        rep.outcome("config_off:" + kind, label + (":faces_complete" if set(_triples(s["F"])) == set(tuple(sorted(c[:k] + c[k + 1:])) for c in s["C"] for k in range(4)) else ":faces_left_to_the_completion_step"))
        if Rm is run["m"]:
            rep.outcome("config.vol_input_object", "is_the_result")
        else:
            so = call(_snap_vol, run["m"])
            if not so.ok or (so.value != s and so.value != run["pre"]):
                rep.violation(sub + "input_object", "VolumeSubdivision.__exit__", "side_effect:input_half_updated", cls, det())


def _check_volume_abandoned(cx: VolCtx, known):
    """volume blocks left by an exception after 0, 1 or 2 operations (see _check_surface_abandoned)"""
    rep = cx.rep
    sub = "C13.vol.abandoned_block."
    for seq in _abandon_prefixes(known, (), V_CALLEE):
        if seq:
            sres = known[seq]["res"]
        else:
            r0 = _run_vol_block(cx, (), False)
            o0 = call(_snap_vol, r0["ed"].mesh)
            if r0["exc"] is not None or not o0.ok:
                rep.violation("C13.vol.hands_back_a_mesh", "VolumeSubdivision.__exit__", "raises:" + (r0["exc"][1] if r0["exc"] else o0.exc),
                              "block_without_operation", cx.detail(seq)); continue
            sres = o0.value
        for mode in (("caller", "CFAN", "FSPLIT") if len(seq) < 2 else ("caller", "FSPLIT")):
            done = set()
            label = ("caller_exception" if mode == "caller" else "rejected_argument") + ":" + ("no_edit" if not seq else "after_edits") + ":"
            for queried in (False, True):
                rep.traces += 1; rep.transitions += 1
                run = _run_vol_block(cx, seq, queried, leave=mode)
                left = run["left"]
                if left["mode"] is None:
                    raise AssertionError(f"replayed prefix raised on {cx.name} {seq}: {run['exc']}")
                extra = {"block_left_by": "raise in the caller's code" if mode == "caller" else f"{V_CALLEE[mode]}({left.get('arg')}) - no such element",
                         "exception": left["exc"], "connectivity_queried_before": queried}
                if left["mode"] == "accepted":
                    rep.outcome("leave:" + mode, "accepted"); rep.count("abandoned:nonexistent_index_accepted"); continue
                rep.outcome("leave:" + mode, "raise:" + str(left["exc"]))
                rep.count("abandoned:volume_blocks")
                rep.flag("abandoned_volume_%d_%s" % (len(seq), "caller" if mode == "caller" else "rejected"))
                if run["exc"] is None:
                    rep.count("abandoned:exception_did_not_propagate")
                elif not left["propagated"]:
                    rep.violation(sub + "hands_back_a_mesh", "VolumeSubdivision.__exit__", "raises:" + run["exc"][1], label + ("queried_before" if queried else "not_queried"),
                                  cx.detail(seq, msg=run["exc"][2], **extra)); continue
                done = _check_volume_input_object(cx, seq, run, sres, queried, done, sub=sub, cls_prefix=label, extra=extra)


def _check_volume_histories(cx: VolCtx, known):
    """several editing blocks on one volume mesh, one operation per block + one block without operation, the editor
    objects fresh / re-used / constructed before the first block (see _check_surface_histories). A face index of a later
    block is an index into the face list of the mesh the previous block handed back (completed on exit), so every
    operation is validated against the reference model from the state handed back by the previous block."""
    from mouette.mesh.subdivision import VolumeSubdivision
    rep, M = cx.rep, cx.M
    sub = "C13.vol.block_history."
    n_ops = 0
    for seq in _history_sequences(known, lambda k: k, cx.all_args):
        for mode in HIST_MODES:
            for queried in ((False, True) if (cx.do_queried and mode != H_FRESH) else (False,)):
                rep.traces += 1
                nb = len(seq) + 1
                m = cx.build()
                cur = {"V": cx.s0["V"], "C": cx.s0["C"], "F": cx.s0["F"], "P": [R.W(i) for i in range(len(cx.P0))]}
                if queried:
                    cx.warm(m)
                prev_in = _snap_vol(m)
                eds = [VolumeSubdivision(m)] * nb if mode == H_REUSED else [VolumeSubdivision(m) for _ in range(nb)] if mode == H_EARLY else None
                ok = True
                for b in range(nb):
                    rep.transitions += 1; rep.evaluations += 6
                    op = seq[b] if b < len(seq) else None
                    which = "block_without_operation" if op is None else ("first_block" if b == 0 else "later_block")
                    cls = f"{mode}:{which}:{'queried_between' if queried else 'not_queried'}"
                    callee = "VolumeSubdivision.__exit__" if op is None else V_CALLEE[op[0]]

                    def det(**kw):
                        return cx.detail(seq, blocks=[[list(e)] for e in seq] + [[]], editor_objects=mode, failing_block=b,
                                         connectivity_queried_before_every_block=queried, **kw)
                    ed = eds[b] if eds else VolumeSubdivision(m)
                    raw, stage = None, "enter"
                    try:
                        with ed:
                            stage = "operation"
                            if op is not None:
                                if op[0] == "CFAN": ed.split_cell_as_fan(_arg(op[1]))
                                else: ed.split_tet_from_face_center(_arg(op[1]))
                            raw = {"V": _pts(ed.mesh.vertices), "C": _rows(ed.mesh.cells)}
                            stage = "exit"
                    except Exception as ex:   # noqa
                        who = {"enter": "VolumeSubdivision.__enter__", "exit": "VolumeSubdivision.__exit__"}.get(stage) or _where(ex, "VolumeSubdivision") or callee
                        rep.violation(sub + "accepts", who, "raises:" + type(ex).__name__, cls, det(msg=str(ex)[:200])); ok = False; break
                    Rm = ed.mesh
                    if type(Rm) is not M.mesh.VolumeMesh:
                        rep.violation(sub + "hands_back_a_mesh", callee, "mismatch:type", cls, det(got=type(Rm).__name__)); ok = False; break
                    o, oi = call(_snap_vol, Rm), call(_snap_vol, m)
                    if not o.ok or not oi.ok:
                        rep.violation(sub + "valid_mesh", callee, "mismatch:containers_unreadable", cls, det(msg=o.msg if not o.ok else oi.msg)); ok = False; break
                    s = o.value
                    if op is None:
                        if raw["V"] != cur["V"] or raw["C"] != cur["C"]:
                            rep.violation(sub + "refinement_pattern", callee, "mismatch:block_without_operation_changes_the_elements", cls,
                                          det(n_cells=[len(cur["C"]), len(raw["C"])], n_vertices=[len(cur["V"]), len(raw["V"])])); ok = False; break
                    else:
                        try:
                            Wts, _ = R.validate_volume_step(cur["P"], cx.P0, cur["V"], cur["C"], cur["F"], op[0], op[1], raw["V"], raw["C"])
                            rep.count("history:operation_validated_against_the_model")
                        except R.Degenerate:
                            rep.count("filtered_coincident_refinement_points"); ok = False; break
                        except R.StepFailure as sf:
                            rep.violation(sub + sf.clause, callee, "mismatch:" + sf.label, cls,
                                          det(cells_before_the_block=cur["C"], faces_before_the_block=cur["F"], cells_after=raw["C"], **sf.detail)); ok = False; break
                        n_ops += 1
                    if s["V"] != raw["V"] or s["C"] != raw["C"]:
                        rep.violation(sub + "hands_back_a_mesh", "VolumeSubdivision.__exit__", "mismatch:elements_changed_on_exit", cls,
                                      det(n_cells=[len(raw["C"]), len(s["C"])])); ok = False; break
                    bad = _validity_volume(s)
                    fmt, fdet = _storage_format(M, Rm)
                    if bad or fmt:
                        rep.violation(sub + "valid_mesh", "VolumeSubdivision.__exit__", "mismatch:" + (bad + fmt)[0], cls,
                                      det(labels=bad + fmt, result_cells=s["C"], n_faces=len(s["F"]), n_edges=len(s["E"]), **fdet)); ok = False; break
                    if oi.value == s:
                        if op is not None:
                            cur = {"V": s["V"], "C": s["C"], "F": s["F"], "P": Wts}
                    elif oi.value == prev_in:       # the statement allows it: the next block then refines the same mesh once more
                        rep.count("history:object_passed_in_left_unchanged")
                    else:
                        rep.violation(sub + "input_object", "VolumeSubdivision.__exit__", "side_effect:input_half_updated", cls,
                                      det(differs_from_result=[k for k in ("V", "E", "F", "FC", "C", "CC", "CF") if oi.value[k] != s[k]],
                                          differs_from_preimage=[k for k in ("V", "E", "F", "FC", "C", "CC", "CF") if oi.value[k] != prev_in[k]]))
                        ok = False; break
                    prev_in = oi.value
                    rep.outcome("history:vol:" + mode, which + ":" + ("is_the_input" if Rm is m else "equal_to_the_input"))
                    if queried and b + 1 < nb:
                        _warm(m, cx.oracle(prev_in), cx.events)
                if not ok:
                    break
                s = prev_in             # the object every block was made for
                topo = R.volume_topology(s["C"], len(s["V"]))
                if any(topo[k] != cx.topo0[k] and not (k == "max_cells_per_triangle" and topo[k] <= 2) for k in topo):
                    rep.violation(sub + "topology", V_CALLEE[seq[-1][0]], "mismatch:topology", f"{mode}:after_the_last_block", det(got=topo, want=cx.topo0)); continue
                v1 = R.volume6_abs([R.pos(w, cx.P0) for w in cur["P"]], s["C"])
                if v1 != cx.vol0:
                    rep.violation(sub + "volume", V_CALLEE[seq[-1][0]], "mismatch:total_volume", f"{mode}:after_the_last_block", det(got6=str(v1), want6=str(cx.vol0))); continue
                fails = _eval_accessors(m, cx.oracle(s), cx.events, min(cx.cap, 12), rep)
                if fails:
                    k = fails[0][2] if fails[0][2].startswith("raises:") else "mismatch:answers"
                    rep.violation(sub + "result_connectivity", "VolumeSubdivision.__exit__", k, f"{mode}:after_the_last_block:{'queried_between' if queried else 'not_queried'}",
                                  det(**_summary(fails))); continue
                rep.count("history:volume_histories")
                rep.flag("history_volume_%d_blocks_%s" % (nb, mode))
                if queried:
                    rep.flag("history_volume_queried_between_blocks")
    rep.count("history:volume_operations_in_blocks_of_their_own", n_ops)


def _vol_args(st, prev, all_args):
    C, Fl = st["C"], st["F"]
    if all_args or prev is None:
        return [("CFAN", i) for i in range(len(C))] + [("FSPLIT", i) for i in range(len(Fl))]
    cs = {0, len(C) - 1}
    fs = {0, len(Fl) - 1}
    pk, pa = prev
    # elements touched by the previous operation (the interesting ones for a table computed on entry)
    if pk == "CFAN":
        cs.add(pa)
        cell = set(C[pa])
        fs.update(i for i, f in enumerate(Fl) if len(set(f) & cell) >= 2)
    else:
        new = len(st["V"]) - 1
        cs.update(i for i, c in enumerate(C) if new in c)
        fs.update(i for i, f in enumerate(Fl) if new in f)
        fs.add(pa)
    return [("CFAN", i) for i in sorted(cs)] + [("FSPLIT", i) for i in sorted(fs)]


def explore_volume(cx: VolCtx):
    rep = cx.rep
    init = {"V": cx.s0["V"], "C": cx.s0["C"], "F": cx.s0["F"], "P": [R.W(i) for i in range(len(cx.P0))]}
    known = {(): init}
    seen = {h64(pickle.dumps((init["V"], init["C"], init["F"])))}
    frontier = [()]
    rep.states += 1
    while frontier:
        seq = frontier.pop(0)
        st = known[seq]
        for ev in _vol_args(st, seq[-1] if seq else None, cx.all_args):
            seq2 = seq + (ev,)
            kind, arg = ev
            callee = V_CALLEE[kind]
            rep.traces += 2; rep.transitions += 2
            runA = _run_vol_block(cx, seq2, False)
            for i in range(min(len(seq), len(runA["states"]))):
                rec = known[seq2[:i + 1]]
                if runA["states"][i]["V"] != rec["V"] or runA["states"][i]["C"] != rec["C"]:
                    raise AssertionError(f"replay divergence on {cx.name} {seq2} step {i}")
            cls = "first_operation_of_the_block" if not seq else "later_operation_of_the_block"
            after, sres, doneA = None, None, set()
            if runA["exc"] is not None:
                k, exn, msg = runA["exc"]
                rep.outcome(kind, "raise:" + exn)
                if k < len(seq):
                    raise AssertionError(f"replayed prefix raised on {cx.name} {seq2}: {runA['exc']}")
                if k == len(seq):
                    rep.violation("C13.vol.accepts", runA["where"] or callee, "raises:" + exn, cls, cx.detail(seq2, msg=msg))
                else:
                    rep.violation("C13.vol.hands_back_a_mesh", "VolumeSubdivision.__exit__", "raises:" + exn, cls, cx.detail(seq2, msg=msg))
            else:
                obs = runA["states"][-1]
                rep.outcome(kind, (len(obs["V"]) - len(st["V"]), len(obs["C"]) - len(st["C"])))
                try:
                    rep.evaluations += 4
                    Wts, _ = R.validate_volume_step(st["P"], cx.P0, st["V"], st["C"], st["F"], kind, arg, obs["V"], obs["C"])
                    after = {"V": obs["V"], "C": obs["C"], "F": obs["F"], "P": Wts}
                    Pex = [R.pos(w, cx.P0) for w in Wts]
                except R.Degenerate:
                    rep.count("filtered_coincident_refinement_points")
                except R.StepFailure as sf:
                    rep.violation("C13.vol." + sf.clause, callee, "mismatch:" + sf.label, cls,
                                  cx.detail(seq2, cells_before=st["C"], faces_before=st["F"], cells_after=obs["C"], **sf.detail))
                if after is not None:
                    sres = _check_volume_result(cx, seq2, runA["ed"].mesh, obs, Pex, callee, cls)
                    doneA = _check_volume_input_object(cx, seq2, runA, sres, False)
                    after["res"] = sres
                    rep.count("steps_validated")
                    if sres is not None and not _validity_volume(sres) and cx.do_config_off:
                        _check_volume_config_off(cx, seq2, st, runA, sres, callee)
            runB = _run_vol_block(cx, seq2, True) if cx.do_queried else runA
            rep.evaluations += 1
            same = (runB["exc"] == runA["exc"]) and [(s["V"], s["C"]) for s in runB["states"]] == [(s["V"], s["C"]) for s in runA["states"]]
            sresB = None
            if not cx.do_queried:
                pass
            elif same and runA["exc"] is None:
                oA, oB = call(_snap_vol, runA["ed"].mesh), call(_snap_vol, runB["ed"].mesh)
                same = oA.ok == oB.ok and (not oA.ok or oA.value == oB.value)
                sresB = oB.value if oB.ok else None
            if not cx.do_queried:
                pass
            elif not same:
                rep.violation("C13.vol.pre_state_independent", callee, "mismatch:result_depends_on_queried_connectivity", cls,
                              cx.detail(seq2, exc_fresh=runA["exc"], exc_queried=runB["exc"]))
            elif after is not None:
                _check_volume_input_object(cx, seq2, runB, sresB, True, doneA)
            if after is not None:
                key = h64(pickle.dumps((after["V"], after["C"], after["F"])))
                known[seq2] = after
                if key not in seen:
                    seen.add(key)
                    rep.states += 1
                    rep.case((cx.name, cx.variant, key))
                    if len(seq2) < cx.depth:
                        frontier.append(seq2)
    if cx.do_abandoned:
        _check_volume_abandoned(cx, known)
    if cx.do_history:
        _check_volume_histories(cx, known)
    rep.count("volume_inputs")
    if len(cx.cells) >= 2:
        rep.flag("tet_shared_face")
    rep.flag("tet_" + cx.variant)


# =========================================================================================== polylines
def _line_oracle_fails(pl, s, rep):
    """connectivity answers of a polyline vs its own edge list (oracle: adjacency lists built here)"""
    n, E = len(s["V"]), s["E"]
    nb = [[] for _ in range(n)]
    inc = [[] for _ in range(n)]
    eid = {}
    for i, (a, b) in enumerate(E):
        nb[a].append(b); nb[b].append(a); inc[a].append(i); inc[b].append(i)
        eid[(a, b)] = i; eid[(b, a)] = i
    fails = []
    cn = pl.connectivity

    def cmp(name, args, fn, want, as_set=False):
        rep.evaluations += 1
        o = call(fn, *args)
        if not o.ok:
            fails.append([name, list(args), "raises:" + o.exc]); return
        got = o.value
        if as_set:
            got = sorted(int(x) for x in got)
            want_ = sorted(want)
        else:
            got = tuple(int(x) for x in got) if isinstance(got, (list, tuple)) else (None if got is None else int(got))
            want_ = want
        if got != want_:
            fails.append([name, list(args), "mismatch"])
    for u in range(n):
        for v in range(n):
            cmp("edge_id", (u, v), cn.edge_id, eid.get((u, v)))
        cmp("vertex_to_vertices", (u,), cn.vertex_to_vertices, nb[u], True)
        cmp("vertex_to_edges", (u,), cn.vertex_to_edges, inc[u], True)
    for i, (a, b) in enumerate(E):
        cmp("edge_to_vertices", (i,), cn.edge_to_vertices, (a, b))
        for v in range(n):
            cmp("other_edge_end", (i, v), cn.other_edge_end, b if v == a else (a if v == b else None))
    return fails


def _validity_line(s):
    n = len(s["V"])
    bad = []
    if any(len(e) != 2 for e in s["E"]):
        return ["edge_not_a_pair"]
    if any(a < 0 or b < 0 or a >= n or b >= n or a == b for a, b in s["E"]):
        bad.append("edge_index_invalid")
    if any(a > b for a, b in s["E"]):
        bad.append("edge_not_sorted")
    if len(set(tuple(sorted(e)) for e in s["E"])) != len(s["E"]):
        bad.append("duplicate_edge")
    return bad


def explore_polyline(M, n, edges, depth, rep: Report, scale=1.0, lite=None):
    from mouette.mesh.subdivision import split_edge as _split_edge
    split_edge = lambda pl, e: _split_edge(pl, _arg(e))
    lite = lite or {}
    modes = (False, True) if lite.get("queried", True) else (False,)
    pts = F.moment_curve(n)
    if scale != 1.0:
        pts = [tuple(float(x) * scale for x in p) for p in pts]      # exact: scale is a power of two
    name = (f"graph{n}:{edges}" + ("" if scale == 1.0 else f":unit={scale!r}") + ("" if M.config.sort_neighborhoods else ":sort=False")
            + ("" if ARGFORM[0] is None else ":arg=" + ARGFORM[0]))
    build = lambda: F.build_polyline(pts, edges, tuple)
    m0 = build()
    s0 = _snap_line(m0)
    comps0 = len(F.components(n, s0["E"]))
    P0 = [R.P(p) for p in s0["V"]]
    length0 = sum(float(R.dot(R.sub(P0[a], P0[b]), R.sub(P0[a], P0[b]))) ** 0.5 for a, b in s0["E"])
    base = {"points": [list(p) for p in pts], "edges": [list(e) for e in edges]}
    _describe_setting(base, scale, bool(M.config.sort_neighborhoods))
    _setting_flags(rep, m0.vertices, scale, bool(M.config.sort_neighborhoods))
    known = {(): {"V": s0["V"], "E": s0["E"], "P": P0}}
    seen = {h64(pickle.dumps((s0["V"], s0["E"])))}
    frontier = [()]
    rep.states += 1
    callee = "split_edge"
    while frontier:
        seq = frontier.pop(0)
        st = known[seq]
        # ---- a call that is left by an exception: the index of an edge that does not exist (== number of edges). Nothing
        #      promises the rejection; if it is rejected the polyline passed in must be unchanged (there is no result it
        #      could be equal to) and its connectivity answers must describe its own edge list
        reported_rej = set()
        for queried in (modes if lite.get("abandoned", True) else ()):
            rep.traces += 1; rep.transitions += 1
            pl = build()
            if queried:
                _line_oracle_fails(pl, s0, Report())
            for i, ei in enumerate(seq):
                o = call(split_edge, pl, ei)
                if not o.ok or _snap_line(o.value)["V"] != known[seq[:i + 1]]["V"]:
                    raise AssertionError(f"replay divergence on {name} {seq}")
                pl = o.value
            if queried and seq:
                _line_oracle_fails(pl, known[seq], Report())
            o = call(split_edge, pl, len(st["E"]))
            if o.ok:
                rep.outcome("split_edge:no_such_edge", "accepted"); rep.count("abandoned:nonexistent_index_accepted"); continue
            rep.outcome("split_edge:no_such_edge", "raise:" + o.exc)
            rep.count("abandoned:polyline_calls")
            cls = f"rejected_argument:{'no_edit' if not seq else 'after_edits'}:{'queried_before' if queried else 'not_queried'}"
            det = dict(base, sequence=list(seq), rejected_call=f"split_edge(polyline, {len(st['E'])}) - no such edge", exception=o.exc)
            osn = call(_snap_line, pl)
            rep.evaluations += 2
            if not osn.ok or osn.value != {"V": st["V"], "E": st["E"]}:
                if not (queried and "input_object" in reported_rej):
                    reported_rej.add("input_object")
                    rep.violation("C13.polyline.rejected_call.input_object", callee, "side_effect:input_half_updated", cls, det)
                continue
            f2 = _line_oracle_fails(pl, osn.value, rep)
            if f2 and not (queried and "input_caches" in reported_rej):
                reported_rej.add("input_caches")
                rep.violation("C13.polyline.rejected_call.input_caches", callee, "mismatch:stale_connectivity", cls, dict(det, **_summary(f2)))
        for e in range(len(st["E"])):
            seq2 = seq + (e,)
            after = None
            snaps = {}
            reported = set()
            for queried in modes:
                rep.traces += 1; rep.transitions += 1
                cls = f"polyline:{'first_split' if not seq else 'after_a_split'}:{'queried_before' if queried else 'not_queried'}"
                det = dict(base, sequence=list(seq2))

                def V(sub, kind, detail, cls=cls, queried=queried):
                    # a clause already reported for this sequence without queried connectivity is not repeated
                    if queried and sub in reported:
                        return
                    reported.add(sub)
                    rep.violation("C13.polyline." + sub, callee, kind, cls, detail)
                pl = build()
                if queried:
                    _line_oracle_fails(pl, s0, Report())
                ok = True
                for i, ei in enumerate(seq):
                    o = call(split_edge, pl, ei)
                    if not o.ok or _snap_line(o.value)["V"] != known[seq2[:i + 1]]["V"]:
                        raise AssertionError(f"replay divergence on {name} {seq2}")
                    pl = o.value
                o = call(split_edge, pl, e)
                if not o.ok:
                    rep.outcome("split_edge", "raise:" + o.exc)
                    V("accepts", exc_kind(o), dict(det, msg=o.msg)); continue
                res = o.value
                rep.outcome("split_edge", "ok")
                if type(res) is not M.mesh.PolyLine:
                    V("hands_back_a_mesh", "mismatch:type", dict(det, got=type(res).__name__)); continue
                osn = call(_snap_line, res)
                if not osn.ok:
                    V("valid_mesh", "mismatch:containers_unreadable", dict(det, msg=osn.msg)); continue
                s = osn.value
                snaps[queried] = s
                rep.evaluations += 8
                bad = _validity_line(s)
                if bad:
                    V("valid_mesh", "mismatch:" + bad[0], dict(det, labels=bad, result_edges=[list(x) for x in s["E"]])); continue
                fmt, fdet = _storage_format(M, res)
                if fmt:
                    V("valid_mesh", "mismatch:" + fmt[0], dict(det, **fdet), cls="storage_format:mesh_handed_back"); continue
                rep.count("storage_format_judged:polyline")
                # counts, originals, position of the new vertex, the refined edge set
                n0 = len(st["V"])
                if len(s["V"]) != n0 + 1 or len(s["E"]) != len(st["E"]) + 1:
                    V("counts", "mismatch:element_count", dict(det, got=[len(s["V"]), len(s["E"])], want=[n0 + 1, len(st["E"]) + 1])); continue
                if s["V"][:n0] != st["V"]:
                    V("originals_in_place", "mismatch:original_vertex_moved", det); continue
                a, b = st["E"][e]
                mid = R.centroid3((st["P"][a], st["P"][b]))
                c, d = R.snap(s["V"][n0], [(0, tuple(float(x) for x in mid))], R.tolerance(st["V"]))
                if c is None:
                    V("new_vertex_position", "mismatch:new_vertex_not_at_the_middle", dict(det, got=list(s["V"][n0]), want=[float(x) for x in mid])); continue
                want = sorted([tuple(sorted(x)) for i, x in enumerate(st["E"]) if i != e] + [tuple(sorted((a, n0))), tuple(sorted((b, n0)))])
                if sorted(tuple(sorted(x)) for x in s["E"]) != want:
                    V("refinement_pattern", "mismatch:edges_not_the_documented_split", dict(det, got=[list(x) for x in s["E"]], want=[list(x) for x in want])); continue
                Pex = st["P"] + [mid]
                if len(F.components(len(s["V"]), s["E"])) != comps0 or len(s["V"]) - len(s["E"]) != n - len(s0["E"]):
                    V("topology", "mismatch:components_or_euler", det)
                length = sum(float(R.dot(R.sub(Pex[x], Pex[y]), R.sub(Pex[x], Pex[y]))) ** 0.5 for x, y in s["E"])
                if abs(length - length0) > 1e-9 * length0:
                    V("length", "mismatch:total_length", dict(det, got=length, want=length0))
                fails = _line_oracle_fails(res, s, rep)
                if fails:
                    V("result_connectivity", "mismatch:answers", dict(det, **_summary(fails)))
                # the object passed in: documented as processed in place -> must equal the result, caches included
                if res is not pl:
                    sp = _snap_line(pl)
                    if sp != s and sp != {"V": st["V"], "E": st["E"]}:
                        V("input_object", "side_effect:input_half_updated", det)
                    elif not _validity_line(sp):
                        f2 = _line_oracle_fails(pl, sp, rep)
                        if f2:
                            V("input_caches", "mismatch:stale_connectivity", dict(det, **_summary(f2)))
                if not queried:
                    after = {"V": s["V"], "E": s["E"], "P": Pex}
                    rep.count("steps_validated")
            if len(snaps) == 2 and snaps[False] != snaps[True]:
                rep.violation("C13.polyline.pre_state_independent", callee, "mismatch:result_depends_on_queried_connectivity", "polyline", dict(base, sequence=list(seq2)))
            if after is not None:
                known[seq2] = after
                key = h64(pickle.dumps((after["V"], after["E"])))
                if key not in seen:
                    seen.add(key); rep.states += 1; rep.case((name, key))
                    if len(seq2) < depth:
                        frontier.append(seq2)
    rep.count("polyline_inputs")
    if len(F.components(n, s0["E"])) > 1:
        rep.flag("polyline_disconnected")


# =========================================================================================== call forms and defaults
# The documented signatures of the unchanged tree (parameter names in the documented order, self omitted, and the
# documented default of every optional parameter), PINNED here: they are not read from the library at run time - a
# change of a default changes the signature with it. Two uses: (1) the behavioural clauses below - every optional
# parameter omitted (one at a time, all together) must mean the pinned default passed explicitly, every parameter
# passed by keyword must mean the same as passed positionally in the pinned order; (2) the guard check_signatures().
REQUIRED = "<required>"
SIGNATURES = {
    "split_edge": [("polyline", REQUIRED), ("edge_ind", REQUIRED)],
    "SurfaceSubdivision.__init__": [("mesh", REQUIRED), ("verbose", False)],
    "SurfaceSubdivision.triangulate_face": [("face_id", REQUIRED), ("sides", None)],
    "SurfaceSubdivision.split_face_as_fan": [("face_id", REQUIRED)],
    "SurfaceSubdivision.triangulate": [],
    "SurfaceSubdivision.loop_subdivision": [("n", 1)],
    "SurfaceSubdivision.subdivide_triangles_6": [("repeat", 1)],
    "SurfaceSubdivision.subdivide_triangles_3quads": [],
    "split_double_boundary_edges_triangles": [("mesh", REQUIRED)],
    "VolumeSubdivision.__init__": [("mesh", REQUIRED), ("verbose", False)],
    "VolumeSubdivision.split_cell_as_fan": [("cell_id", REQUIRED)],
    "VolumeSubdivision.split_tet_from_face_center": [("face_id", REQUIRED)],
}
DEFAULTS = {(c, p): d for c, ps in SIGNATURES.items() for p, d in ps if d is not REQUIRED}     # the table of documented defaults
D_VERBOSE = DEFAULTS[("SurfaceSubdivision.__init__", "verbose")]
D_VERBOSE_VOL = DEFAULTS[("VolumeSubdivision.__init__", "verbose")]
D_SIDES = DEFAULTS[("SurfaceSubdivision.triangulate_face", "sides")]
D_N = DEFAULTS[("SurfaceSubdivision.loop_subdivision", "n")]
D_REPEAT = DEFAULTS[("SurfaceSubdivision.subdivide_triangles_6", "repeat")]
SUB_SIG, SUB_OMIT, SUB_KW, SUB_SIDES, SUB_NPCOUNT, SUB_VERBOSE = ("C13.defaults.signature", "C13.defaults.omitted", "C13.callform.keyword",
                                                                  "C13.callform.sides_given", "C13.callform.numpy_int_count", "C13.callform.verbose")


def _same_default(got, want):
    return got is want if (want is None or isinstance(want, bool)) else (type(got) is type(want) and got == want)


def _resolve(callee):
    import mouette.mesh.subdivision as S
    obj = S
    for part in callee.split("."):
        obj = getattr(obj, part)
    return obj


def check_signatures(rep: Report):
    """guard: the pinned table against inspect.signature(). A default that differs from the documented one IS the defect
    (reported as a violation of its own subcheck, class = the parameter); so is a pinned parameter that is missing,
    renamed, moved or no longer callable both positionally and by keyword. Additional trailing parameters that have a
    default are tolerated (counted)."""
    import inspect
    for callee, want in SIGNATURES.items():
        rep.traces += 1
        o = call(_resolve, callee)
        if not o.ok:
            rep.violation(SUB_SIG, callee, "mismatch:entry_point_missing", "entry_point", {"callee": callee, "msg": o.msg}); continue
        o = call(inspect.signature, o.value)
        if not o.ok:
            rep.violation(SUB_SIG, callee, "mismatch:signature_unreadable", "entry_point", {"callee": callee, "msg": o.msg}); continue
        params = list(o.value.parameters.values())
        if "." in callee:
            params = params[1:]          # self
        found = [[p.name, "<required>" if p.default is inspect.Parameter.empty else repr(p.default), str(p.kind)] for p in params]
        det = {"callee": callee, "documented": [[n, d if d is REQUIRED else repr(d)] for n, d in want], "found": found}
        rep.flag("signature:" + callee)
        for i, (name, dflt) in enumerate(want):
            rep.evaluations += 3
            rep.flag(f"signature:{callee}:{name}")
            if i >= len(params) or params[i].name != name:
                rep.violation(SUB_SIG, callee, "mismatch:parameter_name_or_order", name, det); break
            p = params[i]
            if p.kind is not inspect.Parameter.POSITIONAL_OR_KEYWORD:
                rep.violation(SUB_SIG, callee, "mismatch:parameter_kind", name, det); continue
            if dflt is REQUIRED:
                if p.default is not inspect.Parameter.empty:
                    rep.count("signature:required_parameter_acquired_a_default")      # harmless extension, not judged
            elif p.default is inspect.Parameter.empty:
                rep.violation(SUB_SIG, callee, "mismatch:default_removed", name, det)
            elif not _same_default(p.default, dflt):
                rep.violation(SUB_SIG, callee, "mismatch:default_value", name, det)
        for p in params[len(want):]:
            if p.default is inspect.Parameter.empty and p.kind in (inspect.Parameter.POSITIONAL_OR_KEYWORD, inspect.Parameter.POSITIONAL_ONLY,
                                                                    inspect.Parameter.KEYWORD_ONLY):
                rep.violation(SUB_SIG, callee, "mismatch:new_required_parameter", p.name, det)
            else:
                rep.count("signature:additional_optional_parameter")
    rep.count("forms:signature_guards")


def _np_count(k):
    import numpy as np
    return np.int64(k)


def _make_editor(cls, m, form, dflt):
    """forms of the constructor: every parameter positional with the documented default | optional omitted | all by keyword"""
    if form == "explicit": return cls(m, dflt)
    if form == "omitted": return cls(m)
    if form == "keyword": return cls(mesh=m, verbose=dflt)
    if form == "verbose_on": return cls(m, True)
    if form == "verbose_on_keyword": return cls(verbose=True, mesh=m)
    if form == "verbose_off_keyword": return cls(verbose=False, mesh=m)
    raise ValueError(form)


# kind -> (entry point, optional parameter or None, forms of the call besides 'explicit')
SURF_OP_FORMS = {
    "T": (None, ()), "Q3": (None, ()),
    "FAN": (None, ("keyword",)),
    "TF": ("sides", ("omitted", "keyword", "sides_given", "sides_given_keyword")),
    "L": ("n", ("omitted", "keyword", "numpy_int")), "L2": ("n", ("keyword", "numpy_int")),
    "S6": ("repeat", ("omitted", "keyword", "numpy_int")), "S6x2": ("repeat", ("keyword", "numpy_int")),
}


def _apply_surf_form(ed, kind, arg, form, sides):
    """'explicit' = every parameter positional, optional ones with the documented default"""
    if kind == "T": return ed.triangulate()
    if kind == "Q3": return ed.subdivide_triangles_3quads()
    if kind == "FAN":
        return ed.split_face_as_fan(arg) if form == "explicit" else ed.split_face_as_fan(face_id=arg)
    if kind == "TF":
        if form == "explicit": return ed.triangulate_face(arg, D_SIDES)
        if form == "omitted": return ed.triangulate_face(arg)
        if form == "keyword": return ed.triangulate_face(sides=D_SIDES, face_id=arg)
        if form == "sides_given": return ed.triangulate_face(arg, set(sides))
        if form == "sides_given_keyword": return ed.triangulate_face(sides=set(sides), face_id=arg)
    if kind in ("L", "L2"):
        k = D_N if kind == "L" else 2
        if form == "explicit": return ed.loop_subdivision(k)
        if form == "omitted" and kind == "L": return ed.loop_subdivision()
        if form == "keyword": return ed.loop_subdivision(n=k)
        if form == "numpy_int": return ed.loop_subdivision(_np_count(k))
    if kind in ("S6", "S6x2"):
        k = D_REPEAT if kind == "S6" else 2
        if form == "explicit": return ed.subdivide_triangles_6(k)
        if form == "omitted" and kind == "S6": return ed.subdivide_triangles_6()
        if form == "keyword": return ed.subdivide_triangles_6(repeat=k)
        if form == "numpy_int": return ed.subdivide_triangles_6(_np_count(k))
    raise ValueError((kind, form))


def _apply_vol_form(ed, kind, arg, form, sides=None):
    if kind == "CFAN":
        return ed.split_cell_as_fan(arg) if form == "explicit" else ed.split_cell_as_fan(cell_id=arg)
    if kind == "FSPLIT":
        return ed.split_tet_from_face_center(arg) if form == "explicit" else ed.split_tet_from_face_center(face_id=arg)
    raise ValueError((kind, form))


def _form_block(cls, build, snap, apply, dflt, kind, arg, cform, oform, sides=None):
    """one complete editing block in the given forms of the constructor and of the operation. Everything observable is
    returned: what the block printed (with a probe through the editor's log() right after construction - the only thing
    `verbose` stands for), the raw state after the operation, the mesh handed back, whether the object passed in equals it"""
    import io, contextlib
    out = io.StringIO()
    res = {"exc": None}
    m = build()
    try:
        with contextlib.redirect_stdout(out):
            ed = _make_editor(cls, m, cform, dflt)
            ed.log("probe")
            with ed:
                apply(ed, kind, arg, oform, sides)
                raw = ed.mesh
                res["raw"] = {"V": _pts(raw.vertices), "F": _rows(raw.faces), "E": _pairs(raw.edges),
                              "C": _rows(raw.cells) if hasattr(raw, "cells") else None}
            s = snap(ed.mesh)
            s["E"] = _pairs(s["E"])
            res["result"] = s
            res["type"] = type(ed.mesh).__name__
            si = snap(m)
            si["E"] = _pairs(si["E"])
            res["input_equals_result"] = si == s
    except Exception as ex:   # noqa
        res["exc"] = type(ex).__name__
        res["msg"] = str(ex)[:200]
    res["printed"] = out.getvalue()
    return res


def _form_diff(a, b):
    return [k for k in sorted(set(a) | set(b)) if k != "msg" and a.get(k) != b.get(k)]


def _form_combos(opt, oforms):
    """(constructor form, operation form, subcheck, the constructor is the callee?, class). Reference = ('explicit', 'explicit').
    Optional parameters omitted one at a time and all together; by keyword (constructor, operation); the remaining forms
    of the operation."""
    combos = [("omitted", "explicit", SUB_OMIT, True, "verbose:omitted"),
              ("keyword", "explicit", SUB_KW, True, "all_arguments_by_keyword")]
    if "omitted" in oforms:
        combos.append(("explicit", "omitted", SUB_OMIT, False, f"{opt}:omitted"))
        combos.append(("omitted", "omitted", SUB_OMIT, False, "all_optional_arguments:omitted"))
    if "keyword" in oforms:
        combos.append(("explicit", "keyword", SUB_KW, False, "all_arguments_by_keyword"))
    for f in oforms:
        if f.startswith("sides_given"):
            combos.append(("explicit", f, SUB_SIDES, False, "sides:" + ("positional" if f == "sides_given" else "keyword")))
        elif f == "numpy_int":
            combos.append(("explicit", f, SUB_NPCOUNT, False, f"{opt}:numpy_int"))
    return combos


def _forms_of_event(rep, cls, cname, ctor_default, build, snap, apply, callee, opt, oforms, kind, arg, detail, sides=None):
    """run one operation in every call form and demand, exactly, what the fully explicit form gives"""
    ctor = cname + ".__init__"
    ref = _form_block(cls, build, snap, apply, ctor_default, kind, arg, "explicit", "explicit", sides)
    rep.traces += 1; rep.transitions += 1
    rep.flag(f"forms:{ctor}:verbose:explicit_default")
    if opt:
        rep.flag(f"forms:{callee}:{opt}:explicit_default")
    if ref["exc"] is not None:
        rep.count("forms:explicit_form_raised_judged_by_the_main_exploration"); return None
    failed_single = False
    for cform, oform, sub, on_ctor, cls_ in _form_combos(opt, oforms):
        rep.traces += 1; rep.transitions += 1; rep.evaluations += 6
        got = _form_block(cls, build, snap, apply, ctor_default, kind, arg, cform, oform, sides)
        if cform in ("omitted", "keyword"):
            rep.flag(f"forms:{ctor}:verbose:{cform}")
        if cform == "keyword":
            rep.flag(f"forms:{ctor}:keyword")
        if oform == "keyword":
            rep.flag(f"forms:{callee}:keyword")
        if opt and oform in ("omitted", "keyword"):
            rep.flag(f"forms:{callee}:{opt}:{oform}")
        if oform not in ("explicit", "omitted", "keyword"):
            rep.flag(f"forms:{callee}:{oform}")
        rep.count("forms:blocks_compared")
        diff = _form_diff(got, ref)
        if not diff:
            continue
        if cls_ == "all_optional_arguments:omitted" and failed_single:
            continue          # already reported for the parameter that matters
        if sub == SUB_OMIT:
            failed_single = True
        who = ctor if on_ctor else callee
        knd = "raises:" + got["exc"] if got["exc"] is not None else "mismatch:" + (
            "differs_from_documented_default" if sub == SUB_OMIT else "differs_from_positional_call" if sub == SUB_KW else
            "differs_from_computed_sides" if sub == SUB_SIDES else "differs_from_python_int")
        rep.violation(sub, who, knd, cls_, dict(detail, operation=[kind, arg], constructor_form=cform, operation_form=oform,
                                                differs_in=diff, msg=got.get("msg"), explicit_call_is="every parameter positional, optional ones = documented default",
                                                documented_defaults={f"{c}.{p}": repr(d) for (c, p), d in DEFAULTS.items() if c in (ctor, callee)}))
    return ref


def _forms_verbose(rep, cls, cname, ctor_default, build, snap, apply, kind, arg, detail, ref):
    """`verbose` stands for one thing: whether the editor's log() prints. The documented default (False) must be silent,
    True must print - positionally and by keyword - and the meshes must not depend on it"""
    ctor = cname + ".__init__"
    rep.evaluations += 4
    if ref["printed"] != "":
        rep.violation(SUB_VERBOSE, ctor, "mismatch:prints_although_verbose_is_off", "verbose:False", dict(detail, printed=ref["printed"][:200])); return
    for cform in ("verbose_on", "verbose_on_keyword", "verbose_off_keyword"):
        rep.traces += 1; rep.transitions += 1
        got = _form_block(cls, build, snap, apply, ctor_default, kind, arg, cform, "explicit")
        want_print = cform != "verbose_off_keyword"
        cls_ = "verbose:" + ("True" if want_print else "False") + (":keyword" if cform.endswith("keyword") else ":positional")
        if got["exc"] is not None:
            rep.violation(SUB_VERBOSE, ctor, "raises:" + got["exc"], cls_, dict(detail, msg=got.get("msg"), constructor_form=cform)); continue
        if ("probe" in got["printed"]) != want_print:
            rep.violation(SUB_VERBOSE, ctor, "mismatch:verbose_flag_not_honoured", cls_, dict(detail, printed=got["printed"][:200], constructor_form=cform)); continue
        if [k for k in _form_diff(got, ref) if k != "printed"]:
            rep.violation(SUB_VERBOSE, ctor, "mismatch:mesh_depends_on_verbose", cls_, dict(detail, constructor_form=cform)); continue
        if want_print:
            rep.flag(f"forms:{ctor}:verbose_matters")
    rep.count("forms:verbose_probes")


def forms_surface(cx: SurfCtx):
    """every single operation (+ the two repeated refinements) on the initial state of the input, in every call form"""
    from mouette.mesh.subdivision import SurfaceSubdivision, split_double_boundary_edges_triangles as sdb
    rep = cx.rep
    st = {"F": cx.F0, "depth": 0}
    sides = F.undirected_edges(cx.F0)
    first = True
    results = {}
    for kind, arg in _surf_events(st, 1, False, True, cx.max_faces, rep):
        opt, oforms = SURF_OP_FORMS[kind]
        ref = _forms_of_event(rep, SurfaceSubdivision, "SurfaceSubdivision", D_VERBOSE, cx.build, _snap_surf, _apply_surf_form, S_CALLEE[kind], opt, oforms,
                              kind, arg, cx.base, sides)
        if ref is None:
            continue
        results[(kind, arg)] = ref["result"]["F"]
        rep.case((cx.name, "forms", kind, arg))
        rep.outcome("forms:" + kind, len(ref["result"]["F"]) - len(cx.F0))
        if kind == "TF" and len(cx.F0[arg]) == 4:
            rep.flag("forms:sides_given_for_a_quad")
            if R.quad_with_taken_diagonal(cx.F0, {arg}):
                rep.flag("forms:sides_given_for_a_quad_with_taken_diagonal")
        if first:
            first = False
            _forms_verbose(rep, SurfaceSubdivision, "SurfaceSubdivision", D_VERBOSE, cx.build, _snap_surf, _apply_surf_form, kind, arg, cx.base, ref)
    # vacuity: the count handed over matters (2 is not the default)
    for a, b, p in ((("L", None), ("L2", None), "n"), (("S6", None), ("S6x2", None), "repeat")):
        if a in results and b in results and results[a] != results[b]:
            rep.flag(f"forms:{p}_matters")
    # the standalone function: positional / by keyword
    if cx.arity == "3":
        def run(kw):
            m = cx.build()
            o = call(sdb, mesh=m) if kw else call(sdb, m)
            if not o.ok:
                return {"exc": o.exc, "msg": o.msg}
            s = _snap_surf(o.value); s["E"] = _pairs(s["E"])
            return {"exc": None, "result": s, "is_input": o.value is m, "type": type(o.value).__name__}
        rep.traces += 2; rep.transitions += 2; rep.evaluations += 4
        a, b = run(False), run(True)
        rep.flag("forms:" + S_CALLEE["SDB"] + ":keyword")
        if a["exc"] is None and _form_diff(a, b):
            rep.violation(SUB_KW, S_CALLEE["SDB"], "raises:" + b["exc"] if b["exc"] else "mismatch:differs_from_positional_call", "all_arguments_by_keyword",
                          dict(cx.base, differs_in=_form_diff(a, b), msg=b.get("msg")))
    rep.count("forms:surface_inputs")


def forms_volume(cx: VolCtx):
    from mouette.mesh.subdivision import VolumeSubdivision
    rep = cx.rep
    C, Fl = cx.s0["C"], cx.s0["F"]
    first = True
    for kind, arg in [("CFAN", 0), ("CFAN", len(C) - 1), ("FSPLIT", 0), ("FSPLIT", len(Fl) - 1)]:
        ref = _forms_of_event(rep, VolumeSubdivision, "VolumeSubdivision", D_VERBOSE_VOL, cx.build, _snap_vol, _apply_vol_form, V_CALLEE[kind], None, ("keyword",),
                              kind, arg, cx.base)
        if ref is None:
            continue
        rep.case((cx.name, "forms", kind, arg))
        rep.outcome("forms:" + kind, len(ref["result"]["C"]) - len(C))
        if first:
            first = False
            _forms_verbose(rep, VolumeSubdivision, "VolumeSubdivision", D_VERBOSE_VOL, cx.build, _snap_vol, _apply_vol_form, kind, arg, cx.base, ref)
    rep.count("forms:volume_inputs")


def forms_polyline(M, n, edges, rep: Report):
    """split_edge(polyline, edge_ind): positional | both by keyword (in the other order) | index by keyword"""
    from mouette.mesh.subdivision import split_edge
    pts = F.moment_curve(n)
    base = {"points": [list(p) for p in pts], "edges": [list(e) for e in edges]}

    def run(form, e):
        pl = F.build_polyline(pts, edges, tuple)
        o = (call(split_edge, pl, e) if form == "explicit" else call(split_edge, edge_ind=e, polyline=pl) if form == "keyword"
             else call(split_edge, pl, edge_ind=e))
        if not o.ok:
            return {"exc": o.exc, "msg": o.msg}
        s = call(_snap_line, o.value)
        return {"exc": None, "result": s.value if s.ok else s.exc, "is_input": o.value is pl, "type": type(o.value).__name__}
    for e in sorted({0, len(edges) - 1}):
        ref = run("explicit", e)
        rep.traces += 3; rep.transitions += 3; rep.evaluations += 4
        if ref["exc"] is not None:
            rep.count("forms:explicit_form_raised_judged_by_the_main_exploration"); continue
        rep.outcome("forms:split_edge", "ok")
        for form, cls_ in (("keyword", "all_arguments_by_keyword"), ("mixed", "edge_ind:keyword")):
            got = run(form, e)
            rep.count("forms:blocks_compared")
            rep.flag("forms:split_edge:keyword")
            if _form_diff(got, ref):
                rep.violation(SUB_KW, "split_edge", "raises:" + got["exc"] if got["exc"] else "mismatch:differs_from_positional_call", cls_,
                              dict(base, edge=e, call_form=form, differs_in=_form_diff(got, ref), msg=got.get("msg")))
    rep.count("forms:polyline_inputs")


def _forms_tasks(tier, ins, tets, graphs):
    """call forms / defaults: the 40 SURF classes, 7 ZOO specimens, every TET complex (positive), every GRAPH; single
    operations on the initial state (+ loop_subdivision(2), subdivide_triangles_6(2)); default configuration"""
    out = [{"fam": "signature"}]
    classes = [x for x in ins if x[0].split("c#")[-1].isdigit() and "c#" in x[0]]
    for i in range(0, len(classes), 5):
        out.append({"fam": "forms", "what": "surf", "max_faces": 160, "meshes": [[x[0], x[1], x[2]] for x in classes[i:i + 5]]})
    for name, p, f in _zoo(tier):
        if name in ZOO_DEV:
            out.append({"fam": "forms", "what": "surf", "max_faces": 160, "zoo": [name, p, f]})
    for i in range(0, len(tets), 14):
        out.append({"fam": "forms", "what": "tet", "complexes": tets[i:i + 14]})
    out.append({"fam": "forms", "what": "graph", "graphs": graphs})
    return out


def _run_forms(M, task, rep: Report):
    lite = {"queried": False, "config_off": False, "abandoned": False}
    if task["what"] == "surf":
        recs = [(n_, [tuple(q) for q in p], [tuple(g) for g in f]) for n_, p, f in ([task["zoo"]] if "zoo" in task else [])]
        recs += [(name, F.moment_curve(n), [tuple(g) for g in fl]) for name, n, fl in task.get("meshes", [])]
        for name, pts, faces in recs:
            cx = SurfCtx(M, name + ":forms", pts, faces, 1, 30, False, rep, True, task["max_faces"], 1.0, lite)
            if len(set(cx.P0)) != len(cx.P0):
                rep.count("filtered_coincident_vertices"); continue
            forms_surface(cx)
            for f in cx.F0:
                rep.flag("forms:arity%d" % min(len(f), 5))
    elif task["what"] == "tet":
        for name, n, cells in task["complexes"]:
            forms_volume(VolCtx(M, name + ":forms", n, [tuple(c) for c in cells], "positive", 1, 30, False, rep, 1.0, lite))
    else:
        for n, edges in task["graphs"]:
            forms_polyline(M, n, [tuple(e) for e in edges], rep)


# =========================================================================================== entry points
def run_task(task, rep: Report):
    import mouette as M
    dev = task.get("dev")
    if not dev:
        return _run_task(M, task, rep)
    # ---- a deviation: own input-class suffix, coverage facts kept apart; process-global settings restored
    sub = Report()
    sub.class_suffix, sub.stop_on = rep.class_suffix + ":" + dev, rep.stop_on
    old_sort, old_form, old_unit = M.config.sort_neighborhoods, ARGFORM[0], UNIT[0]
    try:
        if task.get("sort") is False:
            M.config.sort_neighborhoods = False
        ARGFORM[0] = task.get("argform")
        UNIT[0] = 2.0 ** task.get("unit", 0)
        _run_task(M, task, sub)
    finally:
        M.config.sort_neighborhoods, ARGFORM[0], UNIT[0] = old_sort, old_form, old_unit
        sub.counters = {dev + ":" + k: v for k, v in sub.counters.items()}
        sub.flags = {dev + ":" + k for k in sub.flags}
        sub.outcomes = {dev + ":" + k: v for k, v in sub.outcomes.items()}
        sub.count(dev + ":tasks")
        rep.merge(sub)


def _run_task(M, task, rep: Report):
    fam = task["fam"]
    scale, lite, sfx = UNIT[0], task.get("lite"), (":" + task["dev"] if task.get("dev") else "")
    if fam == "signature":
        check_signatures(rep)
    elif fam == "forms":
        _run_forms(M, task, rep)
    elif fam == "surf":
        recs = []
        if "zoo" in task:
            name, p, f, d = task["zoo"]
            recs.append((name, [tuple(q) for q in p], [tuple(g) for g in f], d, True))
        for name, n, fl, d in task.get("meshes", []):
            recs.append((name, F.moment_curve(n), [tuple(g) for g in fl], d, bool(task.get("repeated"))))
        for name, pts, faces, d, is_zoo in recs:
            cx = SurfCtx(M, name + sfx, pts, faces, d, task["cap"], task["all_faces"], rep, is_zoo, task["max_faces"], scale, lite,
                         bool(task.get("arg_events_only")))
            if len(set(cx.P0)) != len(cx.P0):
                rep.count("filtered_coincident_vertices"); continue
            explore_surface(cx)
            if cx.arity == "3" and not cx.arg_events_only:
                check_split_double(cx)
    elif fam == "tet":
        for name, n, cells in (task["complexes"] if "complexes" in task else [task["complex"]]):
            cx = VolCtx(M, name + sfx, n, [tuple(c) for c in cells], task["variant"], task["depth"], task["cap"], task["all_args"], rep, scale, lite,
                        task.get("cell_listing"))
            explore_volume(cx)
    elif fam == "graph":
        for n, edges in task["graphs"]:
            if task.get("edge_listing") == "larger_end_first":
                edges = [(b, a) for a, b in edges]
                rep.flag("edges_listed_larger_end_first")
            explore_polyline(M, n, [tuple(e) for e in edges], task["depth"], rep, scale, lite)
    else:
        raise ValueError(fam)


def finish(tier, rep: Report):
    fails = []
    for f in ("closed", "bordered", "arity3", "arity4", "arity5", "tet_shared_face", "tet_positive", "tet_sorted",
              "polyline_disconnected", "sdb_split_something", "quad_with_taken_diagonal", "area_clause_on_polygon_mesh"):
        if f not in rep.flags:
            fails.append("coverage flag missing: " + f)
    for kind in ("T", "TF", "FAN", "L", "Q3", "S6", "L2", "S6x2", "SDB", "CFAN", "FSPLIT", "split_edge"):
        if not rep.outcomes.get(kind):
            fails.append(f"operation {kind} was never executed")
    for kind in ("T", "TF", "FAN", "L", "Q3", "S6", "FSPLIT"):
        if len(rep.outcomes.get(kind, ())) < 2:
            fails.append(f"operation {kind} produced a single distinct outcome")
    for c in ("surface_inputs", "volume_inputs", "polyline_inputs", "area_clause_evaluated"):
        if not rep.counters.get(c):
            fails.append("nothing counted for " + c)
    if rep.counters.get("volume_inputs") != (81 if tier == "thorough" else 54):
        fails.append(f"expected 27 complexes x 2 orientations, got {rep.counters.get('volume_inputs')}")
    if rep.counters.get("polyline_inputs") != 71:
        fails.append(f"expected 71 graphs with an edge on 2..4 vertices, got {rep.counters.get('polyline_inputs')}")
    # ---- configuration dimension (completion switches off)
    for c in ("config_off:surface_blocks", "config_off:volume_blocks", "config_off:surface_connectivity_judged_edge_list_covers_every_side"):
        if not rep.counters.get(c):
            fails.append("nothing counted for " + c)
    for kind in ("T", "TF", "FAN", "L", "Q3", "S6", "CFAN", "FSPLIT"):
        if not rep.outcomes.get("config_off:" + kind):
            fails.append(f"operation {kind} was never the last of a block run with the completion switches off")
    for kind in ("T", "TF"):      # quads leave a side to the completion step, pentagons (fans) do not
        if len(rep.outcomes.get("config_off:" + kind, ())) < 2:
            fails.append(f"completion off: operation {kind} produced a single distinct outcome")
    if len(rep.outcomes.get("config_off:FSPLIT", ())) < 2:
        fails.append("completion off: both switch settings of the volume blocks should have been observed")
    # ---- history dimension (blocks left by an exception)
    for fam in ("surface", "volume"):
        for k in (0, 1, 2):
            for how in ("caller", "rejected"):
                if f"abandoned_{fam}_{k}_{how}" not in rep.flags:
                    fails.append(f"no {fam} block was left by an exception ({how}) after {k} operation(s)")
        for state in ("unchanged", "equal_to_result"):
            if state not in rep.outcomes.get(("surf" if fam == "surface" else "vol") + ".abandoned_block.input_object", ()):
                fails.append(f"abandoned {fam} blocks: the object passed in was never '{state}'")
    if not rep.counters.get("abandoned:polyline_calls"):
        fails.append("no split_edge call was rejected")
    c = "abandoned:nonexistent_index_accepted"
    if rep.counters.get(c):
        fails.append(f"{c} = {rep.counters[c]}: the unchanged library rejects an index == number of elements; these blocks were not judged")
    if "non_triangle_in_position_0_of_a_mixed_face_list" not in rep.flags:
        fails.append("coverage flag missing: non_triangle_in_position_0_of_a_mixed_face_list")
    # ---- deviations (their facts are prefixed with the deviation)
    ALL_OPS = ("T", "TF", "FAN", "L", "Q3", "S6", "L2", "S6x2", "SDB", "CFAN", "FSPLIT", "split_edge")
    want = {d: {"surface_inputs": 47, "volume_inputs": 27, "polyline_inputs": 71, "ops": ALL_OPS, "flag": "built_with_scaled_coordinates"} for d in DEV_UNIT}
    want[DEV_SORT] = {"surface_inputs": 134, "volume_inputs": 54, "polyline_inputs": 71, "ops": ALL_OPS, "flag": "built_with_sort_neighborhoods_off"}
    want[DEV_ORDER] = {"surface_inputs": 87, "ops": ("T", "TF", "FAN", "L", "Q3", "S6", "SDB"), "flag": "non_triangle_in_position_0_of_a_mixed_face_list"}
    want[DEV_NPINT] = {"surface_inputs": 40, "volume_inputs": 27, "polyline_inputs": 71, "ops": ("TF", "FAN", "CFAN", "FSPLIT", "split_edge"),
                       "flag": "indices_given_as_numpy_integers"}
    want[DEV_CORNER] = {"surface_inputs": 158 if tier == "quick" else 953, "volume_inputs": 27 * len(CELL_LISTINGS[tier]), "polyline_inputs": 71,
                        "ops": tuple(k for k in ALL_OPS if tier == "thorough" or k not in ("L2", "S6x2")), "flag": "cells_listed_from_another_corner"}
    for d, w in want.items():
        if not rep.counters.get(d + ":tasks"):
            fails.append(f"deviation {d}: no task"); continue
        for k in ("surface_inputs", "volume_inputs", "polyline_inputs"):
            if k in w and rep.counters.get(d + ":" + k) != w[k]:
                fails.append(f"deviation {d}: {k} = {rep.counters.get(d + ':' + k)}, expected {w[k]}")
        for kind in w["ops"]:
            if not rep.outcomes.get(d + ":" + kind):
                fails.append(f"deviation {d}: operation {kind} was never executed")
        for kind in ("TF", "FAN") + (("FSPLIT",) if "volume_inputs" in w else ()):
            if len(rep.outcomes.get(d + ":" + kind, ())) < 2:
                fails.append(f"deviation {d}: operation {kind} produced a single distinct outcome")
        for f in (w["flag"], "closed", "bordered", "arity3", "arity4", "arity5"):
            if d + ":" + f not in rep.flags:
                fails.append(f"deviation {d}: coverage flag missing: {f}")
        if not rep.counters.get(d + ":steps_validated"):
            fails.append(f"deviation {d}: no operation was validated against the refinement model")
        if any(k.startswith(d + ":") and "InexactUnit" in x for k, v in rep.outcomes.items() for x in v):
            fails.append(f"deviation {d}: a coordinate was not exactly representable in the unit of the task")
    for d in DEV_UNIT:
        for f in ("area_clause_on_polygon_mesh", "tet_shared_face", "polyline_disconnected", "sdb_split_something"):
            if d + ":" + f not in rep.flags:
                fails.append(f"deviation {d}: coverage flag missing: {f}")
        # the unit of length changes nothing but the unit: the same operations validated, clauses evaluated, cases filtered
        for k in ("steps_validated", "area_clause_evaluated", "filtered_coincident_refinement_points",
                  "area_clause_skipped_input_has_nonplanar_or_nonconvex_polygon", "events_skipped_result_larger_than_the_face_bound"):
            a, b = rep.counters.get(DEV_UNIT[0] + ":" + k, 0), rep.counters.get(d + ":" + k, 0)
            if a != b or (k in ("steps_validated", "area_clause_evaluated") and not a):
                fails.append(f"unit of length: counter {k} is {a} under {DEV_UNIT[0]} and {b} under {d}")
    if not rep.outcomes.get(DEV_SORT + ":input_object") or not rep.outcomes.get(DEV_SORT + ":vol_input_object"):
        fails.append(f"deviation {DEV_SORT}: the object passed in was never judged")
    if not rep.counters.get(DEV_ORDER + ":config_off:surface_blocks"):
        fails.append(f"deviation {DEV_ORDER}: no block was run with edge completion off")
    for f in ("edges_listed_larger_end_first", "two_quads_share_a_pair_of_opposite_corners", "two_quads_share_the_pair_of_their_second_and_fourth_corner",
              "quad_with_taken_diagonal"):
        if DEV_CORNER + ":" + f not in rep.flags:
            fails.append(f"deviation {DEV_CORNER}: coverage flag missing: {f}")
    if len(rep.outcomes.get(DEV_CORNER + ":T", ())) < 2:
        fails.append(f"deviation {DEV_CORNER}: triangulate produced a single distinct outcome")
    # ---- history dimension: several blocks on one mesh object, editor objects fresh / re-used / constructed early
    for fam, sizes in (("surface", (2, 3)), ("volume", (2, 3))):
        for mode in HIST_MODES:
            for nb in sizes:
                if f"history_{fam}_{nb}_blocks_{mode}" not in rep.flags:
                    fails.append(f"block histories: no {fam} history of {nb} blocks was completed with {mode}")
            if len(rep.outcomes.get(("history:" if fam == "surface" else "history:vol:") + mode, ())) < 3:
                fails.append(f"block histories ({fam}, {mode}): first block / later block / block without operation were not all observed")
        if f"history_{fam}_queried_between_blocks" not in rep.flags:
            fails.append(f"block histories: no {fam} history with connectivity queried between the blocks")
        if not rep.counters.get(f"history:{fam}_histories") or not rep.counters.get(f"history:{fam}_operations_in_blocks_of_their_own"):
            fails.append(f"block histories: nothing counted for {fam}")
    for mode in HIST_MODES:
        if "history_surface_containers_replaced_" + mode not in rep.flags:
            fails.append(f"block histories: no block that replaces the containers was run with {mode}")
    if not rep.counters.get("history:operation_validated_against_the_model") or not rep.counters.get("history:operation_gives_the_state_validated_in_one_block"):
        fails.append("block histories: both ways of validating an operation (state of the one-block run / reference model) should have been used")
    if not rep.counters.get("history:sdb_second_calls"):
        fails.append("block histories: split_double_boundary_edges_triangles was never called a second time")
    # ---- documented storage format of the vertices
    for fam in ("surface", "volume", "polyline"):
        if not rep.counters.get("storage_format_judged:" + fam):
            fails.append(f"storage format: no {fam} mesh handed back was judged")
    # ---- call forms and defaults: every entry of the pinned table exercised, every entry point called by keyword
    if rep.counters.get("forms:signature_guards") != 1:
        fails.append("the signature guard did not run exactly once")
    for callee, params in SIGNATURES.items():
        if "signature:" + callee not in rep.flags:
            fails.append(f"signature guard: {callee} was not compared")
        for name, dflt in params:
            if f"signature:{callee}:{name}" not in rep.flags:
                fails.append(f"signature guard: parameter {name} of {callee} was not compared")
        if params and f"forms:{callee}:keyword" not in rep.flags:
            fails.append(f"call forms: {callee} was never called with its arguments by keyword")
    for (callee, name), dflt in DEFAULTS.items():
        for form in ("explicit_default", "omitted", "keyword"):
            if f"forms:{callee}:{name}:{form}" not in rep.flags:
                fails.append(f"defaults: {callee}({name}={dflt!r}) was never exercised in the form '{form}'")
    if len(DEFAULTS) != 5:
        fails.append(f"defaults: the pinned table has {len(DEFAULTS)} entries, expected 5")
    for f in ("forms:n_matters", "forms:repeat_matters", "forms:SurfaceSubdivision.__init__:verbose_matters", "forms:VolumeSubdivision.__init__:verbose_matters",
              "forms:sides_given_for_a_quad", "forms:sides_given_for_a_quad_with_taken_diagonal", "forms:arity3", "forms:arity4", "forms:arity5",
              "forms:SurfaceSubdivision.triangulate_face:sides_given", "forms:SurfaceSubdivision.triangulate_face:sides_given_keyword",
              "forms:SurfaceSubdivision.loop_subdivision:numpy_int", "forms:SurfaceSubdivision.subdivide_triangles_6:numpy_int"):
        if f not in rep.flags:
            fails.append("coverage flag missing: " + f)
    for k, w in (("forms:surface_inputs", 47), ("forms:volume_inputs", 27), ("forms:polyline_inputs", 71)):
        if rep.counters.get(k) != w:
            fails.append(f"call forms: {k} = {rep.counters.get(k)}, expected {w}")
    for kind in ("T", "TF", "FAN", "L", "Q3", "S6", "L2", "S6x2", "CFAN", "FSPLIT", "split_edge"):
        if not rep.outcomes.get("forms:" + kind):
            fails.append(f"call forms: operation {kind} was never executed")
    c = "forms:explicit_form_raised_judged_by_the_main_exploration"
    if rep.counters.get(c):
        fails.append(f"{c} = {rep.counters[c]}: the unchanged library accepts these calls; their forms were not compared")
    return fails
