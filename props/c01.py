"""C01 - surface connectivity answers agree with the face list, in every cache state (S1 x S2 x config).

For every mesh of the finite families and both values of config.sort_neighborhoods, the transition
system whose events are the public connectivity accessors (+ the documented resets) is explored
breadth-first to a fixed point, deduplicated on the canonical dump of every lazily built cache. In every
reachable state every accessor is evaluated on its whole argument domain and compared with an
independent half-edge structure computed from the raw face list (mc/surf_oracle.py); the observed
answers must also be identical in all states.
"""
from __future__ import annotations
import itertools
from mc.core import Report, call, exc_kind, h64
from mc.canon import canon
from mc import families as F
from mc.surf_oracle import SurfOracle, rot_equal
from mc.cache_explore import Ev as _Ev, explore, tup
from mc import c01_forms as C1F

ID = "C01"
TECHNIQUE = "explicit-state BFS over accessor-call histories (cache states) of real SurfaceMesh objects, for every mesh of bounded-exhaustive families, vs an independent half-edge oracle"
RULE = ("inputs: every labelled oriented manifold complex of SURF (see bounds) + ZOO specimens, x sort_neighborhoods "
        "in {True,False}; per input the accessor transition system is explored to a fixed point (state = canonical "
        "dump of all lazy caches); a case = one distinct (mesh, config, cache state); non-trivial = mesh has an "
        "interior edge or a border. Input-form deviations (each run through the same BFS, judged by the same oracle): "
        "explicit edge list / isolated vertex (round 3); round 5 (mc/c01_forms.py): INDEX DTYPE - the face rows are numpy "
        "arrays of int8/uint8/int16/uint16/int32/uint32/int64/uint64 (from_arrays for one arity, RawMeshData rows otherwise), "
        "on the whole base family, on medium specimens (20-25 vertices) and on the large specimens (180 / 320 vertices), "
        "so that packed pairs / products of two ids leave the range of every narrow dtype; COLLIDING "
        "ATTRIBUTE NAMES - all four element containers carry user attributes under the 24 names the library uses itself "
        "(attributes it creates + its lazy field names) in 5 storage/content kinds (sparse/dense all-True, explicit False, "
        "int, planted on the raw data before construction), also crossed with config.display_duplicate_attribute_warning")
ASSUMPTIONS = ["inputs are oriented manifold polygon complexes within the size bounds; larger meshes only through the ZOO specimens",
               "the rotational direction of rings is pinned to the library's documented (clockwise) convention as observed on the pinned tree: p(f_{i+1}) = n(f_i)",
               "edge ids are taken from mesh.edges (construction is C02's subject)",
               "index dtypes: a dtype is applied to a mesh iff n_vertices-1 fits; wrap-around of the packed pair (n-1)*n+(n-1) is reached for int8/uint8 (n>=17), int16 (n=320), uint16 (n=320); int32 would need n>=46341 vertices, uint32 n>=65537 (beyond the memory of a pool worker) and 64-bit dtypes cannot wrap at mesh sizes: for these dtypes only the type of the ids is varied, not their magnitude",
               "colliding attribute names: the name alphabet is pinned in mc/c01_forms.py (grep of create_attribute in the pinned tree + lazy field names); names the container already carries after construction (hard_edges) are left alone; user attributes are not part of the face list, so no clause is relaxed under the deviation"]
BOUNDS = {
    "quick": "SURF triangles n<=5 all labelled (434), triangles+quads n=4 all labelled, n=5 (<=4 faces) one per isomorphism class, pentagon and triangle+pentagon complexes on 5 vertices, SURF(6) triangle isomorphism classes (28); face-listing deviations (rotated start vertex / swapped faces) <=2 on n=3, <=1 on n=4; ZOO; cache-state BFS to the fixed point on n<=4, over all histories of <= 3 events otherwise; round-5 forms at depth 1: base family (~600 meshes in batches of 40): even batches 2h under dtype DTYPES[h mod 8], odd batches 2h+1 under kind KINDS[h mod 5] (sort value alternating with h), 4 medium specimens under all 8 dtypes and all 5 kinds (kinds also with the duplicate-attribute switch on), large specimens under uint8 (180 vertices) and int16/uint16 (320 vertices)",
    "thorough": "all labelled SURF: triangles n<=6 (13368), triangles+quads n=5 <=5 faces, pentagons; face-listing deviations <=2 on n<=4 and <=1 on n=5 triangles; larger ZOO; cache-state BFS to the fixed point except on the labelled 6-vertex family (histories of <= 2 events); round-5 forms (histories of <= 1 event): every batch b of the base family x all 8 index dtypes d x all 5 colliding-name kinds k, sort on iff b+d / b+k even (kinds true and raw_true also with the duplicate-attribute switch on), medium and large specimens under every dtype that fits",
}

BATCH = 20


# ------------------------------------------------------------------------------------------ inputs
def _zoo(tier):
    out = []
    for k, l in ((2, 2), (2, 3), (3, 3), (3, 4)) + (((4, 4), (2, 5), (5, 3)) if tier == "thorough" else ()):
        for mode in ("tri", "tri2", "quad", "mixed"):
            p, f = F.grid(k, l, mode); out.append((f"grid{k}x{l}{mode}", len(p), f))
    for name in ("octahedron", "icosahedron", "tetrahedron_surface", "cube_quads", "dodecahedron", "csaszar_torus"):
        p, f = getattr(F, name)(); out.append((name, len(p), f))
    for n, anti in ((3, False), (3, True), (4, True), (5, False)):
        p, f = F.prism_annulus(n, anti); out.append((f"annulus{n}{'a' if anti else 'p'}", len(p), f))
    p, f = F.torus_grid(3, 3); out.append(("torus3x3", len(p), f))
    p, f = F.torus_grid(3, 4, "quad"); out.append(("torus3x4q", len(p), f))
    cnt = 0
    for mask, p, f in F.holey_grids(3, 3, "quad"):
        out.append((f"holey3x3q{mask}", len(p), f)); cnt += 1
    for mask, p, f in F.holey_grids(3, 3, "tri", max_removed=2 if tier == "quick" else 4):
        out.append((f"holey3x3t{mask}", len(p), f))
    return out


def _inputs(tier):
    ins = []   # (name, n, faces)
    for n in (3, 4, 5):
        for i, fl in enumerate(F.surf_enum(n)):
            ins.append((f"tri{n}#{i}", n, fl))
    for i, fl in enumerate(F.surf_enum(4, (3, 4))):
        if any(len(f) == 4 for f in fl):
            ins.append((f"mix4#{i}", 4, fl))
    def classes(lists, n):
        seen, out = set(), []
        for fl in lists:
            c = F.canonical_class(fl, n)
            if c not in seen:
                seen.add(c); out.append(c)
        return out
    mix5 = [fl for fl in F.surf_enum(5, (3, 4), 4 if tier == "quick" else 5) if any(len(f) == 4 for f in fl)]
    if tier == "quick":
        mix5 = classes(mix5, 5)       # one representative per isomorphism class
    for i, fl in enumerate(mix5):
        ins.append((f"mix5#{i}", 5, fl))
    if tier == "quick":
        for i, fl in enumerate(F.surf6_classes()):
            ins.append((f"tri6c#{i}", 6, fl))
    else:
        for i, fl in enumerate(F.surf_enum(6)):
            ins.append((f"tri6#{i}", 6, fl))
    for i, fl in enumerate(F.surf_enum(5, (5,))):
        ins.append((f"pent5#{i}", 5, fl))
    mixp = [fl for fl in F.surf_enum(5, (3, 5), 3) if any(len(f) == 5 for f in fl)]
    if tier == "quick":
        mixp = classes(mixp, 5)
    for i, fl in enumerate(mixp):
        ins.append((f"mixp5#{i}", 5, fl))
    # deviations of the face listing (start vertex of a face, order of faces)
    dev = []
    if tier == "quick":
        plan = [(3, (3,), 2, False), (4, (3,), 1, False), (4, (3, 4), 1, True)]
    else:
        plan = [(3, (3,), 2, False), (4, (3, 4), 2, False), (5, (3,), 1, False)]
    for n, ar, lim, cls in plan:
        lists = F.surf_enum(n, ar)
        if cls:
            lists = classes(lists, n)
        for i, fl in enumerate(lists):
            for tag, g in F.face_listing_deviations(fl, lim):
                if tag:
                    dev.append((f"dev{n}#{i}:{h64(tag) % 100000}", n, g))
    ins += dev
    ins += _zoo(tier)
    # dedupe on (n, face list)
    seen, out = set(), []
    for name, n, fl in ins:
        key = (n, tuple(tuple(f) for f in fl))
        if key not in seen:
            seen.add(key); out.append((name, n, [list(f) for f in fl]))
    return out


def tasks(tier):
    """depth = bound on the number of events per explored history (None = run the cache-state BFS to its fixed
    point). Quick: fixed point on n <= 4, histories of <= 3 events otherwise; thorough: fixed point everywhere
    except the 12 934 labelled 6-vertex complexes (<= 2 events). Every accessor is evaluated in every state
    reached, including the states at the bound."""
    ins = _inputs(tier)
    out = []

    def depth_of(x):
        if tier == "quick":
            return None if x[1] <= 4 else 3
        return 2 if x[0].startswith("tri6#") else None
    small = [x for x in ins if x[1] <= 6 and len(x[2]) <= 10]
    big = [x for x in ins if not (x[1] <= 6 and len(x[2]) <= 10)]
    # large specimens (face / corner / edge ids beyond 256): cache states reachable with <= 2 events, thinned domains
    for sort in (True, False):
        out.append({"sort": sort, "depth": 2, "big": "torus12x15"})
        out.append({"sort": sort, "depth": 2, "big": "cylinder20x16"})
    for sort in (True, False):
        for d in (None, 3, 2):
            grp = [x for x in small if depth_of(x) == d]
            for i in range(0, len(grp), BATCH):
                out.append({"sort": sort, "depth": d, "meshes": grp[i:i + BATCH]})
        for x in big:
            out.append({"sort": sort, "depth": depth_of(x), "meshes": [x]})
    # input-form deviations (histories of <= 1 event in quick, <= 2 in thorough; every accessor in every state reached):
    # an explicit edge list written larger-vertex-first (with and without records that construction drops), and a vertex
    # that no face uses, numbered first / in the middle / last
    base = [x for x in small if not x[0].startswith(("dev", "tri6#"))]
    dform = 1 if tier == "quick" else 2
    for sort in (True, False):
        for form in ("edges_desc", "edges_desc_invalid", "isolated:first", "isolated:middle", "isolated:last"):
            for i in range(0, len(base), 2 * BATCH):
                out.append({"sort": sort, "depth": dform, "form": form, "meshes": base[i:i + 2 * BATCH]})
    out += _round5_tasks(tier, base, dform)
    return out


def _medium():
    """specimens with 17 <= n <= 127 vertices: ids fit every dtype, packed pairs / products of two ids leave the
    int8 and uint8 ranges (pentagons, triangles, mixed arities, closed genus 1, bordered)"""
    out = []
    for name, (p, f) in (("dodecahedron", F.dodecahedron()), ("grid5x5tri", F.grid(5, 5, "tri")), ("grid4x6mixed", F.grid(4, 6, "mixed")),
                         ("torus4x5", F.torus_grid(4, 5))):
        out.append((name, len(p), [list(x) for x in f]))
    return out


BIG = {"torus12x15": 180, "cylinder20x16": 320}     # name -> number of vertices


def _round5_tasks(tier, base, dform):
    """Round-5 dimensions (mc/c01_forms.py): index dtype of the face rows, colliding attribute names.
    All at depth 1 (every accessor on its whole domain in the fresh state and as first query; the forms act at
    construction, the deeper histories are explored on the plain family).
    thorough: every batch b of the base family under EVERY dtype number d and EVERY kind number k, with sort on iff
    b+d (b+k) is even; the medium and the large specimens under every dtype that fits and every kind with both sort
    values. (Packed id pairs leave the 32-bit ranges only from 46341 vertices on: a 46656-vertex torus was tried and
    needs more memory than a pool worker has; the bound is stated in ASSUMPTIONS.)
    quick (rotation, no draw): the even batches b = 2h run under dtype DTYPES[h mod 8], the odd batches b = 2h+1 under
    kind KINDS[h mod 5], the sort value alternating with h; the medium specimens under every dtype and every kind with the
    other sort value than the batches of that dtype / kind; the large specimens under the dtypes that fit and whose range their packed id pairs
    leave (signed: sort on, unsigned: sort off)."""
    out = []
    nb = 2 * BATCH
    batches = [base[i:i + nb] for i in range(0, len(base), nb)]
    nd, nk = len(C1F.DTYPES), len(C1F.KINDS)
    med = _medium()
    quick = tier == "quick"
    for sort in (True, False):
        for bi, grp in enumerate(batches):
            h = bi // 2
            for di, dt in enumerate(C1F.DTYPES):
                if not quick:
                    if sort == ((bi + di) % 2 == 0):
                        out.append({"sort": sort, "depth": 1, "form": "dtype:" + dt, "meshes": grp})
                elif bi % 2 == 0 and di == h % nd and sort == (h % 2 == 0):
                    out.append({"sort": sort, "depth": dform, "form": "dtype:" + dt, "meshes": grp})
            for ki, kd in enumerate(C1F.KINDS):
                if not quick:
                    if sort == ((bi + ki) % 2 == 0):
                        out.append({"sort": sort, "depth": 1, "form": "collide:" + kd, "meshes": grp})
                elif bi % 2 == 1 and ki == h % nk and sort == (h % 2 == 1):
                    out.append({"sort": sort, "depth": dform, "form": "collide:" + kd, "meshes": grp})
        for di, dt in enumerate(C1F.DTYPES):
            if not quick or sort == (di % 2 == 1):
                out.append({"sort": sort, "depth": 1, "form": "dtype:" + dt, "meshes": [x for x in med if C1F.fits(dt, x[1])], "medium": True})
        for ki, kd in enumerate(C1F.KINDS):
            if not quick or sort == (ki % 2 == 0):
                out.append({"sort": sort, "depth": 1, "form": "collide:" + kd, "meshes": med, "medium": True})
        for big in ("torus12x15", "cylinder20x16"):
            for dt in C1F.DTYPES:
                if not C1F.fits(dt, BIG[big]):
                    continue
                if quick and not (C1F.wraps(dt, BIG[big]) and (dt.startswith("u") == (not sort))):
                    continue
                out.append({"sort": sort, "depth": 1, "big": big, "form": "dtype:" + dt})
    return out


def _with_isolated(n, faces, where):
    k = {"first": 0, "middle": n // 2, "last": n}[where]
    return n + 1, [tuple(v + 1 if v >= k else v for v in f) for f in faces], k


# ------------------------------------------------------------------------------------------ events
_tup = tup


def Ev(name, domain, fn, judge, callee=None):
    return _Ev(name, domain, fn, judge, callee or ("SurfaceMesh.connectivity." + name))


def _events(sort, big=False):
    E = []
    conn = lambda m: m.connectivity
    corners = lambda o: [(c,) for c in range(o.nc)]
    if big:     # large specimens: every directed edge + one non-edge pair per vertex instead of all n^2 pairs
        vpairs = lambda o: sorted(set(o.E) | {(b, a) for a, b in o.E} | {(v, (v * 7 + 3) % o.n) for v in range(o.n)})
    else:
        vpairs = lambda o: [(u, v) for u in range(o.n) for v in range(o.n)]
    verts = lambda o: [(v,) for v in range(o.n)]
    faces = lambda o: [(f,) for f in range(len(o.F))]
    eq = lambda want: (lambda o, a, got: None if _tup(got) == _tup(want(o, *a)) else ("answer", _tup(want(o, *a))))

    E.append(Ev("next_corner", corners, lambda m, c: conn(m).next_corner(c), eq(lambda o, c: o.next_corner(c))))
    E.append(Ev("previous_corner", corners, lambda m, c: conn(m).previous_corner(c), eq(lambda o, c: o.previous_corner(c))))
    E.append(Ev("opposite_corner", corners, lambda m, c: conn(m).opposite_corner(c), eq(lambda o, c: o.opposite_corner(c))))
    E.append(Ev("corner_to_half_edge", corners, lambda m, c: conn(m).corner_to_half_edge(c), eq(lambda o, c: o.half_edge(c))))
    E.append(Ev("corner_to_face", corners, lambda m, c: conn(m).corner_to_face(c), eq(lambda o, c: o.c_face[c])))
    E.append(Ev("half_edge_to_corner", vpairs, lambda m, u, v: conn(m).half_edge_to_corner(u, v), eq(lambda o, u, v: o.he_corner.get((u, v)))))
    E.append(Ev("direct_face", vpairs, lambda m, u, v: conn(m).direct_face(u, v), eq(lambda o, u, v: o.direct_face(u, v))))
    E.append(Ev("direct_face_inds", vpairs, lambda m, u, v: conn(m).direct_face(u, v, True), eq(lambda o, u, v: o.direct_face_inds(u, v)),
                callee="SurfaceMesh.connectivity.direct_face"))
    E.append(Ev("edge_to_faces", vpairs, lambda m, u, v: conn(m).edge_to_faces(u, v), eq(lambda o, u, v: (o.direct_face(u, v), o.direct_face(v, u)))))

    def opp_dom(o):
        if big:     # the two incident faces of each edge and one other face
            out = []
            for (u, v) in o.E + [(b, a) for a, b in o.E]:
                fs = {o.direct_face(u, v), o.direct_face(v, u), (u + v) % len(o.F)} - {None}
                out += [(u, v, f) for f in sorted(fs)]
            return out
        return [(u, v, f) for (u, v) in o.E + [(b, a) for a, b in o.E] + [(0, 0)] for f in range(len(o.F))]

    def opp_want(o, u, v, f):
        f1, f2 = o.direct_face(u, v), o.direct_face(v, u)
        return f2 if f == f1 else (f1 if f == f2 else None)

    def opp_want_inds(o, u, v, f):
        a, b = o.direct_face_inds(u, v), o.direct_face_inds(v, u)
        if a[0] == f:
            return (b[0], b[2], b[1])     # local indices of u and v in the opposite face
        if b[0] == f:
            return a
        return (None, None, None)
    E.append(Ev("opposite_face", opp_dom, lambda m, u, v, f: conn(m).opposite_face(u, v, f), eq(opp_want)))
    E.append(Ev("opposite_face_inds", opp_dom, lambda m, u, v, f: conn(m).opposite_face(u, v, f, True), eq(opp_want_inds),
                callee="SurfaceMesh.connectivity.opposite_face"))

    def ce_judge(o, a, got):
        f1, f2 = a
        shared = set()
        for (x, y) in F.directed_edges(o.F[f1]):
            if o.direct_face(y, x) == f2:
                shared.add(tuple(sorted((x, y))))
        got = _tup(got)
        if not shared:
            return None if got == (None, None) else ("answer", (None, None))
        return None if got in shared else ("answer", sorted(shared))
    E.append(Ev("common_edge", lambda o: [(a, b) for a in range(len(o.F)) for b in range(len(o.F))],
                lambda m, a, b: conn(m).common_edge(a, b), ce_judge))

    # ---- rings
    def ring_judge(which):
        def judge(o, a, got):
            (v,) = a
            border, fs, vs = o.ring(v)
            got = list(_tup(got)) if got is not None else None
            if got is None:
                return ("answer_none", None)
            if which == "vertices":
                want = vs
            elif which == "faces":
                want = fs
            elif which == "corners":
                want = [o.off[f] + o.F[f].index(v) for f in fs]
            else:
                want = [o.eid.get(tuple(sorted((v, w)))) for w in vs]
            if len(got) != len(set(got)):
                return ("duplicates", want)
            if not sort:
                return None if sorted(got, key=repr) == sorted(want, key=repr) else ("set", sorted(want, key=repr))
            if border:
                return None if got == want else ("border_ring_order", want)
            return None if rot_equal(got, want) else ("interior_ring_order", want)
        return judge
    E.append(Ev("vertex_to_vertices", verts, lambda m, v: conn(m).vertex_to_vertices(v), ring_judge("vertices")))
    E.append(Ev("vertex_to_edges", verts, lambda m, v: conn(m).vertex_to_edges(v), ring_judge("edges")))
    E.append(Ev("vertex_to_faces", verts, lambda m, v: conn(m).vertex_to_faces(v), ring_judge("faces")))
    E.append(Ev("vertex_to_corners", verts, lambda m, v: conn(m).vertex_to_corners(v), ring_judge("corners")))

    def align_judge(o, a, got):
        """vertex_to_edges stays aligned with vertex_to_vertices (both configs)."""
        vv, ve = got
        want = [o.eid.get(tuple(sorted((a[0], w)))) for w in vv]
        return None if list(ve) == want else ("edges_not_aligned_with_vertices", want)
    E.append(Ev("ring_alignment", verts, lambda m, v: (list(conn(m).vertex_to_vertices(v)), list(conn(m).vertex_to_edges(v))),
                align_judge, callee="SurfaceMesh.connectivity.vertex_to_edges"))

    E.append(Ev("vertex_to_corner_in_face", lambda o: [(v, f) for v in range(o.n) for f in range(len(o.F))],
                lambda m, v, f: conn(m).vertex_to_corner_in_face(v, f),
                eq(lambda o, v, f: (o.off[f] + o.F[f].index(v)) if v in o.F[f] else None)))
    E.append(Ev("face_to_vertices", faces, lambda m, f: conn(m).face_to_vertices(f), eq(lambda o, f: o.F[f])))
    E.append(Ev("face_to_edges", faces, lambda m, f: conn(m).face_to_edges(f),
                eq(lambda o, f: [o.eid.get(tuple(sorted(e))) for e in F.directed_edges(o.F[f])])))
    E.append(Ev("face_to_corners", faces, lambda m, f: conn(m).face_to_corners(f), eq(lambda o, f: [o.off[f] + j for j in range(len(o.F[f]))])))
    E.append(Ev("face_to_first_corner", faces, lambda m, f: conn(m).face_to_first_corner(f), eq(lambda o, f: o.off[f])))

    def f2f_judge(o, a, got):
        (f,) = a
        want = [o.direct_face(y, x) for (x, y) in F.directed_edges(o.F[f])]
        want = [g for g in want if g is not None]
        return None if sorted(_tup(got)) == sorted(want) else ("multiset", sorted(want))
    E.append(Ev("face_to_faces", faces, lambda m, f: conn(m).face_to_faces(f), f2f_judge))
    E.append(Ev("in_face_index", lambda o: [(f, v) for f in range(len(o.F)) for v in range(o.n)],
                lambda m, f, v: conn(m).in_face_index(f, v), eq(lambda o, f, v: o.F[f].index(v) if v in o.F[f] else None)))
    E.append(Ev("edge_id", vpairs, lambda m, u, v: conn(m).edge_id(u, v), eq(lambda o, u, v: o.eid.get(tuple(sorted((u, v)))))))

    def fid_dom(o):
        d = []
        for f in o.F:
            d.append(tuple(f)); d.append(tuple(reversed(f))); d.append(tuple(f[1:] + f[:1]))
        if o.n >= 3:
            for tr in itertools.combinations(range(min(o.n, 5)), 3):
                d.append(tr)
        return d
    E.append(Ev("face_id", fid_dom, lambda m, *vs: conn(m).face_id(*vs), eq(lambda o, *vs: o.fid.get(tuple(sorted(vs))))))
    E.append(Ev("other_edge_end", lambda o: [(e, v) for e in range(len(o.E)) for v in range(o.n)],
                lambda m, e, v: conn(m).other_edge_end(e, v),
                eq(lambda o, e, v: (o.E[e][1] if v == o.E[e][0] else (o.E[e][0] if v == o.E[e][1] else None)))))
    E.append(Ev("edge_to_vertices", lambda o: [(e,) for e in range(len(o.E))], lambda m, e: conn(m).edge_to_vertices(e),
                lambda o, a, got: None if tuple(sorted(_tup(got))) == o.E[a[0]] else ("answer", o.E[a[0]])))
    E.append(Ev("is_edge_on_border", vpairs, lambda m, u, v: m.is_edge_on_border(u, v), lambda o, a, got: None if bool(got) == o.edge_on_border(*a) else ("answer", o.edge_on_border(*a)),
                callee="SurfaceMesh.is_edge_on_border"))
    E.append(Ev("is_vertex_on_border", verts, lambda m, v: m.is_vertex_on_border(v), lambda o, a, got: None if bool(got) == o.vertex_on_border(*a) else ("answer", o.vertex_on_border(*a)),
                callee="SurfaceMesh.is_vertex_on_border"))

    def listing(prop, want_fn):
        def judge(o, a, got):
            got = list(_tup(got))
            want = want_fn(o)
            if len(got) != len(set(got)):
                return ("duplicates", want)
            return None if sorted(got) == want else ("set", want)
        return Ev(prop, lambda o: [()], lambda m: getattr(m, prop), judge, callee="SurfaceMesh." + prop)
    E.append(listing("boundary_edges", lambda o: [i for i, e in enumerate(o.E) if o.edge_on_border(*e)]))
    E.append(listing("interior_edges", lambda o: [i for i, e in enumerate(o.E) if not o.edge_on_border(*e)]))
    E.append(listing("boundary_vertices", lambda o: [v for v in range(o.n) if o.vertex_on_border(v)]))
    E.append(listing("interior_vertices", lambda o: [v for v in range(o.n) if not o.vertex_on_border(v)]))
    return E




_CONTAINERS = ("vertices", "edges", "faces", "face_corners")


def _state_key(m):
    """Cache state = pickle of every lazily built structure: all fields of the connectivity object, all
    non-container fields of the mesh (border partitions, type flags) and the attribute blackboard of every
    container. pickle memoises by identity, so the aliasing pattern is part of the key; an over-fine key
    only costs time. The element containers themselves are compared separately (must never change)."""
    import pickle
    c = {k: v for k, v in m.connectivity.__dict__.items() if k != "mesh"}
    d = {k: v for k, v in m.__dict__.items() if k not in _CONTAINERS and k != "connectivity"}
    a = [getattr(m, k)._attr for k in _CONTAINERS]
    return h64(pickle.dumps((c, d, a), protocol=4))


def _content_key(m):
    import pickle
    return pickle.dumps((m.vertices._data, m.edges._data, m.faces._data, m.face_corners._elem, m.face_corners._adj), protocol=4)


FORM = [None]    # input-form deviation of the current task (None | "edges_desc" | "edges_desc_invalid" | "isolated:<k>")


def _build(M, n, faces):
    pts = F.moment_curve(n)
    form = FORM[0]
    if form in ("edges_desc", "edges_desc_invalid"):
        # the caller lists the edges itself, larger vertex first; the second form adds records that construction drops
        # (a self-loop first, an out-of-range index in the middle)
        edges = [(b, a) for a, b in sorted(F.undirected_edges([tuple(f) for f in faces]))]
        if form == "edges_desc_invalid":
            edges = [(1, 1)] + edges[:1] + [(n + 2, 0)] + edges[1:]
        return F.build_surface(pts, faces, edges=edges)
    if form is not None and form.startswith("dtype:"):
        return C1F.build_index_dtype(M, pts, faces, form.split(":")[1])
    if form is not None and form.startswith("collide:"):
        return C1F.build_colliding(M, pts, faces, form.split(":")[1], F.build_surface)[0]
    return F.build_surface(pts, faces)


def _input_class(o, sort, warm):
    ar = "+".join(str(k) for k in sorted(set(len(f) for f in o.F)))
    closed = not F.border_half_edges(o.F)
    fm = FORM[0]
    if fm is None:
        form = ""
    elif fm.startswith("isolated"):
        form = ":isolated_vertex"
    elif fm.startswith("dtype:"):
        # coarse: narrow (< 64 bit) or wide, signed or unsigned - not the dtype itself
        form = ":index_rows_numpy_" + ("wide" if fm.endswith("64") else "narrow") + ("_unsigned" if fm.split(":")[1].startswith("u") else "_signed")
    elif fm.startswith("collide:"):
        # a name collision does not depend on arity, closedness, sorting or cache state: one class for the whole family
        return "surface:colliding_attribute_names"
    else:
        form = ":explicit_edge_list"
    return f"arity{ar}:{'closed' if closed else 'bordered'}:sort={sort}:{'warm' if warm else 'fresh'}" + form


def explore_mesh(M, name, n, faces, sort, rep: Report, events, depth=None, big=False):
    m0 = _build(M, n, faces)
    o = SurfOracle(faces, n, [tuple(e) for e in m0.edges])
    # sanity of the oracle's own premises (edge list = sides of faces); construction is C02's business
    if sorted(o.E) != sorted(F.undirected_edges(o.F)):
        rep.notes.append(f"{name}: mesh.edges differs from the sides of the faces"); rep.count("premise_failed")
        return
    resets = {"connectivity.clear": lambda m: m.connectivity.clear(), "clear_boundary_data": lambda m: m.clear_boundary_data()}
    seen = explore("C01", lambda: _build(M, n, faces), o, events, resets, _state_key, _content_key, rep,
                   lambda warm: _input_class(o, sort, warm), {"mesh": name, "n": n, "faces": faces if not big else "see mc.families", "sort": sort},
                   max_depth=depth, domain_cap=4000 if big else None, numpy_args=not big)
    sig = (n, tuple(map(tuple, faces)), sort)
    for k in seen:
        rep.case((sig, k))
    closed = not F.border_half_edges(o.F)
    rep.flag("closed" if closed else "bordered")
    for f in o.F:
        rep.flag(f"arity{len(f)}")
    if len(seen) > 1:
        rep.flag("multi_state")
    rep.count("meshes")
    rep.count("max_states_per_mesh:%02d" % min(len(seen), 99))
    if len(rep.samples) < 2:
        rep.sample({"mesh": name, "n": n, "faces": faces, "sort": sort, "cache_states": len(seen),
                    "longest_history": list(max(seen.values(), key=len))})


# accessors tried as the first query after the flip (one per lazily built structure, plus the ring accessors)
FLIP_FIRST = ("vertex_to_vertices", "vertex_to_edges", "vertex_to_corners", "vertex_to_faces", "edge_id", "next_corner",
              "half_edge_to_corner", "face_id", "is_vertex_on_border", "boundary_edges", "face_to_faces")


def flip_scenario(M, name, n, faces, sort, rep: Report, events):
    """Configuration flipped inside a history: every cache is built under the OTHER value of sort_neighborhoods,
    then the switch is set to `sort` and the documented resets are called (connectivity.clear(),
    clear_boundary_data()). From there on every answer must be the one of a mesh built under `sort`, whichever
    accessor is asked first."""
    def prepared():
        M.config.sort_neighborhoods = not sort
        m = _build(M, n, faces)
        for ev in events:
            d = doms[ev.name]
            if d:
                call(ev.fn, m, *d[0])
        M.config.sort_neighborhoods = sort
        m.connectivity.clear(); m.clear_boundary_data()
        return m
    m0 = _build(M, n, faces)
    o = SurfOracle(faces, n, [tuple(e) for e in m0.edges])
    doms = {e.name: list(e.domain(o)) for e in events}
    icls = _input_class(o, sort, True) + ":after_config_flip_and_clear"
    memo = {}
    try:
        firsts = [e for e in events if e.name in FLIP_FIRST]
        for first in firsts:
            m = prepared()
            rep.traces += 1
            for ev in [first] + [e for e in events if e is not first]:
                rep.transitions += 1
                for a in doms[ev.name]:
                    rep.evaluations += 1
                    r = call(ev.fn, m, *a)
                    if not r.ok:
                        rep.violation("C01." + ev.name, ev.callee, exc_kind(r), icls,
                                      {"mesh": name, "n": n, "faces": faces, "sort": sort, "first_query_after_clear": first.name, "args": list(a), "msg": r.msg})
                        break
                    g = tup(r.value)
                    mk = (ev.name, a, g)
                    if mk not in memo:
                        memo[mk] = ev.judge(o, a, r.value)
                    if memo[mk] is not None:
                        rep.violation("C01." + ev.name, ev.callee, "mismatch:" + memo[mk][0], icls,
                                      {"mesh": name, "n": n, "faces": faces, "sort": sort, "first_query_after_clear": first.name,
                                       "args": list(a), "got": g, "want": memo[mk][1]})
                        break
        rep.flag("config_flip_scenario")
    finally:
        M.config.sort_neighborhoods = sort


def _big_specimen(name):
    if name == "torus12x15":
        return F.torus_grid(12, 15)
    if name == "cylinder20x16":
        return F.cylinder_quads(20, 16)
    raise ValueError(name)


def _form_facts(M, name, n, faces, form, rep: Report, events):
    """Vacuity facts of the round-5 forms, established on one object outside the BFS: the ids stored in the mesh
    really are numpy scalars of the requested dtype / the planted attributes really are there, and which of the
    planted names the library itself writes to when every accessor is called once (the names that DO collide)."""
    m = _build(M, n, faces)
    if form.startswith("dtype:"):
        dt = form.split(":")[1]
        if C1F.index_dtype_really_kept(m, dt):
            rep.flag("index_dtype_kept:" + dt)
        if C1F.wraps(dt, n):
            rep.flag("index_dtype_products_wrap:" + dt)
        return
    kind = form.split(":")[1]
    m, planted = C1F.build_colliding(M, F.moment_curve(n), faces, kind, F.build_surface)
    if planted and all(getattr(m, cn).has_attribute(nm) and getattr(m, cn).get_attribute(nm) is a for (cn, nm), a in planted.items()):
        rep.flag("collide_planted:" + kind)
    before = C1F.snapshot(planted)
    o = SurfOracle(faces, n, [tuple(e) for e in m.edges])
    for ev in events:
        d = list(ev.domain(o))
        if d:
            call(ev.fn, m, *d[0])
    for h in C1F.collisions_hit(m, planted, before):
        rep.flag("collision_hit:" + h)


def run_task(task, rep: Report):
    import mouette as M
    old = M.config.sort_neighborhoods
    M.config.sort_neighborhoods = bool(task["sort"])
    try:
        FORM[0] = task.get("form")
        if "big" in task:
            pts, faces = _big_specimen(task["big"])
            faces = [tuple(f) for f in faces]
            events = _events(bool(task["sort"]), big=True)
            explore_mesh(M, task["big"] + (":" + FORM[0] if FORM[0] else ""), len(pts), faces, bool(task["sort"]), rep, events,
                         task.get("depth"), big=True)
            if FORM[0] is not None:
                _form_facts(M, task["big"], len(pts), faces, FORM[0], rep, events)
                rep.flag("form:" + FORM[0]); rep.flag("big_form:" + FORM[0])
            return
        events = _events(bool(task["sort"]))
        for k, (name, n, faces) in enumerate(task["meshes"]):
            faces = [tuple(f) for f in faces]
            if FORM[0] is not None:
                if FORM[0].startswith("isolated"):
                    n, faces, _ = _with_isolated(n, faces, FORM[0].split(":")[1])
                explore_mesh(M, name + ":" + FORM[0], n, faces, bool(task["sort"]), rep, events, task.get("depth"))
                rep.flag("form:" + FORM[0])
                if FORM[0].startswith(("dtype:", "collide:")) and (k == 0 or task.get("medium")):
                    _form_facts(M, name, n, faces, FORM[0], rep, events)
                continue
            explore_mesh(M, name, n, faces, bool(task["sort"]), rep, events, task.get("depth"))
            if task.get("depth") is None:
                flip_scenario(M, name, n, faces, bool(task["sort"]), rep, events)
    finally:
        FORM[0] = None
        M.config.sort_neighborhoods = old


def finish(tier, rep: Report):
    fails = []
    for f in ("closed", "bordered", "arity3", "arity4", "arity5", "multi_state"):
        if f not in rep.flags:
            fails.append("coverage flag missing: " + f)
    for kind in ("opposite_corner", "direct_face", "is_edge_on_border", "is_vertex_on_border", "edge_id", "face_id", "common_edge"):
        if len(rep.outcomes.get(kind, ())) < 2:
            fails.append(f"accessor {kind} produced a single distinct outcome")
    for form in ("edges_desc", "edges_desc_invalid", "isolated:first", "isolated:middle", "isolated:last"):
        if "form:" + form not in rep.flags:
            fails.append("input-form deviation not exercised: " + form)
    if rep.counters.get("premise_failed"):
        fails.append("oracle premise failed on some meshes (mesh.edges != face sides)")
    # round-5 forms: every dtype / kind really run, the ids really stored in that dtype, the attributes really planted,
    # packed id pairs really beyond the range of every narrow dtype, at least one planted name really used by the library
    for dt in C1F.DTYPES:
        for fl in ("form:dtype:" + dt, "index_dtype_kept:" + dt):
            if fl not in rep.flags:
                fails.append("index-dtype form not exercised: " + fl)
    for dt in ("int8", "uint8", "int16", "uint16"):
        if "index_dtype_products_wrap:" + dt not in rep.flags:
            fails.append("no specimen whose packed id pairs leave the range of " + dt)
    if not any(f.startswith("big_form:dtype:") for f in rep.flags):
        fails.append("no large specimen under a narrow index dtype")
    for kd in C1F.KINDS:
        for fl in ("form:collide:" + kd, "collide_planted:" + kd):
            if fl not in rep.flags:
                fails.append("colliding-attribute form not exercised: " + fl)
    if not any(f.startswith("collision_hit:") for f in rep.flags):
        fails.append("none of the planted attribute names is used by the library itself (the collision family is vacuous)")
    return fails


# The crossing "colliding attribute names x config.display_duplicate_attribute_warning = True" reports a defect of the
# pinned tree (SurfaceMesh._compute_interior_boundary_vertices trusts create_attribute("border") to be empty; handed
# over with reproducer and patch). False switches the crossing off, nothing else.
COLLIDE_X_DUPFLAG = True


def dupflag_variant(task, tier):
    """Tasks that are also run with config.display_duplicate_attribute_warning = True (the runner appends
    ':duplicate_attribute_flag' to the input class of anything found there)."""
    if str(task.get("form") or "").startswith("collide:"):
        # configuration x colliding names: the medium specimens (every kind); thorough also the base family under the
        # kinds true / raw_true
        return COLLIDE_X_DUPFLAG and (bool(task.get("medium")) or (tier != "quick" and task["form"] in ("collide:true", "collide:raw_true")))
    return bool(task.get("depth") is None and len(task.get("meshes", [])) > 1)
