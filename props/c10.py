"""C10 - spanning trees and forests span, are acyclic, and respect exclusions (S2 x S3).

Bounded-exhaustive sweep: every member of the finite mesh families (all labelled graphs as polylines,
all labelled oriented manifold tri/quad complexes, all labelled tetrahedral complexes, holey grids,
a few closed/bordered zoo specimens) x every root x every exclusion set up to the size bound x
avoid_boundary x every weight choice of the menu x both traversal orders; the `None` root is decided
through a seam on the module-global `randint` of the three tree modules (every answer of the range
the library asks for is enumerated; the process RNGs must stay untouched).

The oracle is written from the statement on plain adjacency *lists* (the library walks the mesh
connectivity dictionaries): level-synchronous BFS for reachability / hop counts, label-array
components, an own Kruskal on exact integer / Fraction weights.
"""
from __future__ import annotations
import itertools
from fractions import Fraction
from mc.core import Report, call, exc_kind

ID = "C10"
TECHNIQUE = "bounded-exhaustive input families x configuration sweep of the real tree classes vs BFS/Kruskal oracle; randint seam"
RULE = ("one case = (mesh, tree class, root, exclusion set, avoid_boundary, weights): every member of GRAPH(<=5) as "
        "polyline (disconnected and isolated vertices included), SURF(<=5, tri+quad) , TET(<=5), holey 3x3 grids "
        "(+ zoo / 6-vertex classes in thorough) x every root x every subset of edge ids (face ids for cell trees) up to "
        "the size bound (+ one absent id) x avoid_boundary in {False,True}; minimal trees x {one, length on a lattice "
        "with ties and on the moment curve, 4 dict patterns with ties/zero/negative weights, sparse Attribute} and every "
        "weight vector over the small alphabet on graphs with few edges; forests on every mesh (face forest x every "
        "exclusion set); root=None x every answer of the randint seam; each tree traversed in BFS and DFS order. "
        "call forms (clause H): per mesh and entry point, every meaning of the options (all at the documented default, all "
        "different, each option singled out both ways) x every way of writing the call (all by keyword, each defaulted option "
        "omitted alone, all defaulted options omitted, all positional in the documented order, positional prefix); traverse() "
        "with the order omitted / by keyword / positional; the library signatures against the pinned table of documented "
        "defaults. non-trivial = the tree reaches at least two elements or the exclusion changes the reached set")
ASSUMPTIONS = [
    "mesh.vertices / edges / faces / cells containers are read back as data (edge id -> vertex pair, face id -> vertices); "
    "the adjacency oracle is recomputed from these lists only (C01/C03 check the connectivity tables themselves)",
    "a polyline has no border: avoid_boundary=True excludes nothing there (documented: 'boundary edges of a SurfaceMesh')",
    "border edge of a volume mesh = edge of a triangle that lies in exactly one cell",
    "'reached' = the root and every element with a non-None parent",
    "EdgeMinimalSpanningTree has no avoid_edges parameter: admissible edges there = all edges, minus border edges when asked",
    "exclusion sets are python sets of ids; only ids of the mesh plus one absent id; sizes bounded as in coverage.bounds",
    "weights: ints / halves / integer-coordinate lengths (compared as exact squared lengths); no NaN/inf weights",
    "C10.polyline_export (build_tree_as_polyline = the parent table drawn as a polyline, one vertex per element) is an extra "
    "observation of the same tree through the fourth public accessor of the anchored classes; it is evaluated on the fresh mesh and "
    "after a persistent 'barycenter' attribute exists on cells / on faces (what attributes.face_barycenter(mesh) leaves behind)",
    "a hang inside the library is only caught by the runner's per-task watchdog",
    "documented defaults (table DOC_SIGNATURES, copied from the signatures and docstrings of the unchanged tree): an omitted option "
    "means its documented default, options passed positionally in the documented order mean the same as by keyword; the library is "
    "deterministic, so two spellings of one call give identical parent / children (as sets) / edge tables; a None root is the "
    "answer of the randint seam (the same answer for every spelling)",
    "'BFS' order = the depth of the yielded nodes never decreases; 'DFS' order = pre-order, every subtree is one contiguous block "
    "(which child comes first is not fixed)",
    "no option of these entry points has a size threshold (no leaf size or the like): small inputs exercise every default",
]
BOUNDS = {
    "quick": "GRAPH(n<=5): all 1099 labelled graphs as polylines; SURF: all tri+quad complexes on 3 and 4 vertices (66), all 410 "
             "triangle complexes on 5 vertices, all 2222 tri+quad complexes with a quad on 5 vertices and <=5 faces; TET(n<=5): 27; "
             "holey 3x3 grids tri/quad/mixed: 139; 6 odd specimens (unused vertices, hexahedral grids); every root; exclusion sets "
             "= every subset of ids of size <=2 (<=1 for the 5-vertex quad complexes, holey grids, odd specimens) + 2 sets with an "
             "absent id; avoid_boundary both; 9 weight choices + every weight vector in {1,2}^E for graphs with E<=5; every "
             "answer of randint; BFS and DFS traversal; call forms (clause H) on every 2nd graph, every 2nd member of surf, "
             "every 4th 5-vertex quad complex and every member of the other families: <=8 meanings x <=7 spellings per class",
    "thorough": "same families + TET(6) classes (16), SURF(6) triangle classes (28), zoo (octahedron, cube, tetrahedron, Csaszar "
                "torus, prisms/antiprisms 3..4, grids 2x2..3x4 in 4 modes: 32), 4x4 holey grids with <=2 faces removed (74); "
                "exclusion sets of size <=3 (<=2 for zoo, 4x4 holey grids, odd specimens); every weight vector in {1,2,3}^E for "
                "graphs with E<=5 edges and for all graphs on <=4 vertices; call forms (clause H) on every mesh",
}

TREEMODS = ("edge_sp", "face_sp", "cell_sp")


# ------------------------------------------------------------------------------------------ inputs
def _families(tier):
    """-> list of (family name, exclusion bound, list of mesh specs)."""
    from mc import families as F
    thorough = tier == "thorough"
    x = 3 if thorough else 2
    fams = []
    graphs = []
    for n in range(1, 6):
        for g in F.graph_enum(n):
            graphs.append({"k": "pl", "p": "lat", "n": n, "el": [list(e) for e in g]})
    fams.append(("graph", x, graphs))
    surf = []
    for n in (3, 4):
        for fl in F.surf_enum(n, (3, 4), None):
            surf.append({"k": "sf", "p": "lat", "n": n, "el": [list(f) for f in fl]})
    for fl in F.surf_enum(5, (3,), None):
        surf.append({"k": "sf", "p": "lat", "n": 5, "el": [list(f) for f in fl]})
    fams.append(("surf", x, surf))
    surf5q = [{"k": "sf", "p": "lat", "n": 5, "el": [list(f) for f in fl]}
              for fl in F.surf_enum(5, (3, 4), 5) if any(len(f) == 4 for f in fl)]
    fams.append(("surf5q", 3 if thorough else 1, surf5q))
    tets = []
    for n in (4, 5):
        for cl in F.tet_enum(n):
            tets.append({"k": "vol", "p": "mom", "n": n, "el": [list(c) for c in cl]})
    fams.append(("tet", x, tets))
    holey = []
    for mode in ("tri", "quad", "mixed"):
        for mask, pts, faces in F.holey_grids(3, 3, mode):
            holey.append({"k": "sf", "p": [list(p) for p in pts], "n": len(pts), "el": [list(f) for f in faces],
                          "tag": f"holey3x3:{mode}:{mask}"})
    fams.append(("holey3", 3 if thorough else 1, holey))
    lat = [list(q) for q in F.sphere_lattice_points(9)]
    mom = [list(q) for q in F.moment_curve(6)]

    def hexgrid(nx, ny, nz):
        vid = lambda i, j, k: (k * (ny + 1) + j) * (nx + 1) + i
        P = [[i, j, k] for k in range(nz + 1) for j in range(ny + 1) for i in range(nx + 1)]
        C = [[vid(i, j, k), vid(i + 1, j, k), vid(i + 1, j + 1, k), vid(i, j + 1, k),
              vid(i, j, k + 1), vid(i + 1, j, k + 1), vid(i + 1, j + 1, k + 1), vid(i, j + 1, k + 1)]
             for k in range(nz) for j in range(ny) for i in range(nx)]
        return P, C
    odd = [{"k": "sf", "p": lat[:4], "n": 4, "el": [[0, 1, 2]], "tag": "triangle+unused_vertex"},
           {"k": "sf", "p": lat[:7], "n": 7, "el": [[0, 1, 2], [4, 6, 5]], "tag": "two_triangles+unused_vertex"},
           {"k": "vol", "p": mom[:6], "n": 6, "el": [[0, 1, 2, 3]], "tag": "tet+two_unused_vertices"}]
    for dims in ((1, 1, 2), (2, 2, 1), (2, 1, 2)):
        P, C = hexgrid(*dims)
        odd.append({"k": "vol", "p": P, "n": len(P), "el": C, "tag": "hexgrid%dx%dx%d" % dims})
    fams.append(("odd", 2 if thorough else 1, odd))
    # several components whose vertices and elements are numbered round-robin (components interleaved in index order)
    inter = [{"k": k, "p": [list(q) for q in pts], "n": len(pts), "el": [list(e) for e in el], "tag": tag}
             for k in ("pl", "sf", "vol") for tag, pts, el in F.interleaved_specimens(k)]
    fams.append(("interleaved", 2 if thorough else 1, inter))
    if thorough:
        t6 = [{"k": "vol", "p": "mom", "n": 6, "el": [list(c) for c in cl]} for cl in F.tet6_classes()]
        fams.append(("tet6", 3, t6))
        s6 = [{"k": "sf", "p": "lat", "n": 6, "el": [list(f) for f in fl]} for fl in F.surf6_classes()]
        fams.append(("surf6", 3, s6))
        zoo = []
        for name, (pts, faces) in (("octahedron", F.octahedron()), ("cube", F.cube_quads()),
                                   ("tetrahedron", F.tetrahedron_surface()), ("csaszar", F.csaszar_torus()),
                                   ("prism3", F.prism_annulus(3)), ("prism4", F.prism_annulus(4)),
                                   ("antiprism3", F.prism_annulus(3, True)), ("antiprism4", F.prism_annulus(4, True))):
            zoo.append({"k": "sf", "p": [list(p) for p in pts], "n": len(pts), "el": [list(f) for f in faces], "tag": name})
        for k in (2, 3):
            for l in (2, 3, 4):
                for mode in ("tri", "tri2", "quad", "mixed"):
                    pts, faces = F.grid(k, l, mode)
                    zoo.append({"k": "sf", "p": [list(p) for p in pts], "n": len(pts), "el": [list(f) for f in faces],
                                "tag": f"grid{k}x{l}:{mode}"})
        fams.append(("zoo", 2, zoo))
        h4 = []
        for mask, pts, faces in F.holey_grids(4, 4, "tri", 2):
            h4.append({"k": "sf", "p": [list(p) for p in pts], "n": len(pts), "el": [list(f) for f in faces],
                       "tag": f"holey4x4:tri:{mask}"})
        fams.append(("holey4", 2, h4))
    return fams


# clause H (call forms) runs on every CF_STRIDE-th member of a family in the quick tier, on every member in thorough
CF_STRIDE = {"graph": 2, "surf": 2, "surf5q": 4}
BATCH = {"surf5q": 12, "odd": 1, "interleaved": 1, "graph": 12, "surf": 6, "tet": 3, "holey3": 2, "tet6": 1, "surf6": 1, "zoo": 1, "holey4": 1}


def tasks(tier):
    out = []
    for name, x, specs in _families(tier):
        b = BATCH[name]
        if tier == "thorough" and name in ("graph", "surf", "surf5q", "holey3"):
            b = max(1, b // 3)
        stride = 1 if tier == "thorough" else CF_STRIDE.get(name, 1)
        for j, sp in enumerate(specs):
            sp["cf"] = int(j % stride == 0)
        for i in range(0, len(specs), b):
            out.append({"fam": name, "xmax": x, "tier": tier, "meshes": specs[i:i + b]})
    out.append({"fam": "signature", "xmax": 0, "tier": tier, "meshes": []})
    return out


# ------------------------------------------------------------------------------------------ oracle
def _points(spec):
    from mc import families as F
    p = spec["p"]
    if p == "lat":
        return [tuple(q) for q in F.sphere_lattice_points(spec["n"])]
    if p == "mom":
        return [tuple(q) for q in F.moment_curve(spec["n"])]
    return [tuple(q) for q in p]


def _key(a, b):
    return (a, b) if a < b else (b, a)


def _adj(n, links):
    a = [[] for _ in range(n)]
    for u, v, _ in links:
        a[u].append(v)
        a[v].append(u)
    return a


def _hops(n, adj, root):
    """Level-synchronous BFS: hop distance from root, -1 = not reachable."""
    d = [-1] * n
    d[root] = 0
    level = [root]
    k = 0
    while level:
        k += 1
        nxt = []
        for x in level:
            for y in adj[x]:
                if d[y] < 0:
                    d[y] = k
                    nxt.append(y)
        level = nxt
    return d


def _labels(n, adj):
    """Component label (= smallest member) of every node."""
    lab = [-1] * n
    for s in range(n):
        if lab[s] >= 0:
            continue
        d = _hops(n, adj, s)
        for v in range(n):
            if d[v] >= 0:
                lab[v] = s
    return lab


def _kruskal_weights(n, links, w):
    """Sorted list of the weights of a minimum spanning forest (own Kruskal, label array instead of union-find)."""
    lab = list(range(n))
    out = []
    for u, v, lid in sorted(links, key=lambda l: (w[l[2]], l[2])):
        if lab[u] != lab[v]:
            old, new = lab[v], lab[u]
            for i in range(n):
                if lab[i] == old:
                    lab[i] = new
            out.append(w[lid])
    return sorted(out)


class Info:
    """Everything the oracle knows about a mesh, recomputed from the element lists."""

    def __init__(self, kind, mesh, pts):
        self.kind = kind
        self.nv = len(mesh.vertices)
        self.E = [_key(int(a), int(b)) for a, b in mesh.edges]
        self.edge_links = [(a, b, i) for i, (a, b) in enumerate(self.E)]
        self.pair2e = {e: i for i, e in enumerate(self.E)}
        self.border_e = [False] * len(self.E)
        self.sqlen = [sum((Fraction(pts[a][k]) - Fraction(pts[b][k])) ** 2 for k in range(3)) for a, b in self.E]
        self.nf = self.nc = 0
        self.face_links = self.cell_links = None
        if kind == "sf":
            Fc = [tuple(int(v) for v in f) for f in mesh.faces]
            self.nf = len(Fc)
            inc = [[] for _ in self.E]
            for fi, f in enumerate(Fc):
                m = len(f)
                for j in range(m):
                    inc[self.pair2e[_key(f[j], f[(j + 1) % m])]].append(fi)
            self.border_e = [len(x) == 1 for x in inc]
            self.face_links = [(x[0], x[1], i) for i, x in enumerate(inc) if len(x) == 2]
            self.closed = not any(self.border_e)
            self.arity = "".join(sorted(set(str(len(f)) for f in Fc)))
        elif kind == "vol":
            C = [frozenset(int(v) for v in c) for c in mesh.cells]
            Fv = [frozenset(int(v) for v in f) for f in mesh.faces]
            self.nc, self.nf = len(C), len(Fv)
            inc = [[ci for ci, c in enumerate(C) if f <= c] for f in Fv]
            self.cell_links = [(x[0], x[1], i) for i, x in enumerate(inc) if len(x) == 2]
            bf = [f for f, x in zip(Fv, inc) if len(x) == 1]
            self.border_e = [any(a in f and b in f for f in bf) for a, b in self.E]

    def admissible(self, links, excl, border=None):
        return [l for l in links if l[2] not in excl and not (border is not None and border[l[2]])]


# ------------------------------------------------------------------------------------------ judges
def _as_int(x):
    try:
        if isinstance(x, bool):
            return None
        i = int(x)
        return i if i == x else None
    except Exception:
        return None


def _tables(t, n, root):
    par, ch = t.parent, t.children
    if not hasattr(par, "__len__") or not hasattr(ch, "__len__") or len(par) != n or len(ch) != n:
        return ("tables", "mismatch:table_length", {"n_elements": n})
    if par[root] is not None:
        return ("tables", "mismatch:root_has_parent", {"parent_of_root": repr(par[root])})
    for v in range(n):
        p = par[v]
        if p is not None and (_as_int(p) is None or not 0 <= int(p) < n or int(p) == v):
            return ("tables", "mismatch:parent_not_an_element", {"v": v, "parent": repr(p)})
    return None


def _parent_children(t, n):
    par, ch = t.parent, t.children
    for p in range(n):
        kids = [(_as_int(c) if _as_int(c) is not None else repr(c)) for c in ch[p]]
        if len(set(kids)) != len(kids):
            return ("parent_children", "mismatch:duplicate_child", {"p": p, "children": kids})
        want = [v for v in range(n) if par[v] is not None and int(par[v]) == p]
        if sorted(kids, key=repr) != sorted(want, key=repr):
            return ("parent_children", "mismatch:children_not_inverse_of_parent",
                    {"p": p, "children": kids, "elements_whose_parent_is_p": want})
    return None


def _traverse(t, n, root, reached, order):
    par = t.parent
    # an abandoned traversal (first element only, generator dropped) must not influence the complete one
    call(lambda: next(iter(t.traverse(order)), None))
    o = call(lambda: list(itertools.islice(t.traverse(order), 2 * n + 3)))
    sub = "traverse." + order
    if not o.ok:
        return (sub, exc_kind(o), {"msg": o.msg}), None
    seq = o.value
    try:
        nodes = [int(x[0]) for x in seq]
        pars = [None if x[1] is None else int(x[1]) for x in seq]
    except Exception:
        return (sub, "mismatch:item_shape", {"got": repr(seq)[:200]}), None
    if len(set(nodes)) != len(nodes):
        return (sub, "mismatch:visited_twice", {"visited": nodes, "reached": reached}), None
    if sorted(nodes) != reached:
        return (sub, "mismatch:visited_set", {"visited": nodes, "reached": reached}), None
    pos = {v: i for i, v in enumerate(nodes)}
    for v, p in zip(nodes, pars):
        want = None if par[v] is None else int(par[v])
        if p != want:
            return (sub, "mismatch:yielded_parent", {"node": v, "yielded": p, "parent_table": want}), None
        if p is not None and pos[p] > pos[v]:
            return (sub, "mismatch:child_before_parent", {"sequence": list(zip(nodes, pars))}), None
    return None, nodes


def _edge_pairs(edges):
    out = []
    for e in edges:
        a, b = e
        out.append(_key(int(a), int(b)))
    return out


def _crossing(k, all_pairs, excl_pairs):
    if k not in all_pairs:
        return "mismatch:not_an_adjacency"
    return "mismatch:crossed_excluded_id" if k in excl_pairs else "mismatch:crossed_border"


def judge_bfs_tree(t, n, root, adm_pairs, all_pairs, dist, rep, excl_pairs=()):
    """First violated clause of the statement for a breadth-first tree, or None. `dist` = oracle hop distances."""
    r = _tables(t, n, root)
    if r:
        return r
    par = t.parent
    rep.evaluations += 1
    # every tree edge is an adjacency of the mesh that is not excluded
    for v in range(n):
        if par[v] is None:
            continue
        k = _key(int(par[v]), v)
        if k not in adm_pairs:
            return ("adjacency", _crossing(k, all_pairs, excl_pairs), {"tree_edge": k})
    # reaches exactly the elements connected to the root
    got = [v for v in range(n) if v == root or par[v] is not None]
    want = [v for v in range(n) if dist[v] >= 0]
    rep.evaluations += 1
    if got != want:
        kind = ("mismatch:reached_too_few" if set(got) < set(want) else
                "mismatch:reached_too_many" if set(got) > set(want) else "mismatch:reached_set")
        return ("reach", kind, {"reached": got, "connected_to_root": want})
    # one fewer tree edge than reached elements; edge list = parent relation
    rep.evaluations += 1
    try:
        ep = _edge_pairs(t.edges)
    except Exception:
        return ("edge_count", "mismatch:edge_shape", {"edges": repr(t.edges)[:200]})
    if len(ep) != len(got) - 1:
        return ("edge_count", "mismatch:n_edges", {"n_edges": len(ep), "reached": len(got)})
    if sorted(ep) != sorted(_key(int(par[v]), v) for v in got if v != root):
        return ("edge_count", "mismatch:edges_vs_parent", {"edges": ep, "parent": [p if p is None else int(p) for p in par]})
    rep.evaluations += 1
    r = _parent_children(t, n)
    if r:
        return r
    seqs = []
    for order in ("BFS", "DFS"):
        rep.evaluations += 1
        r, nodes = _traverse(t, n, root, got, order)
        if r:
            return r
        seqs.append(nodes)
    if seqs[0] != seqs[1]:
        rep.flag("orders_differ")
    # minimum hop distance
    rep.evaluations += 1
    for v in got:
        d, x = 0, v
        while x != root and d <= n:
            x = int(par[x])
            d += 1
        if x != root:
            return ("bfs_min_hops", "mismatch:parent_chain_misses_root", {"v": v})
        if d != dist[v]:
            return ("bfs_min_hops", "mismatch:hop_distance", {"v": v, "depth_in_tree": d, "min_hops": dist[v]})
    return None


def judge_mst(t, n, root, adm_links, adm_pairs, all_pairs, w, rep, excl_pairs=()):
    """Minimal tree: edge list = minimum-weight spanning forest of the admissible edges; tables orient root's part."""
    r = _tables(t, n, root)
    if r:
        return r
    par = t.parent
    rep.evaluations += 1
    try:
        ep = _edge_pairs(t.edges)
    except Exception:
        return ("mst.admissible", "mismatch:edge_shape", {"edges": repr(t.edges)[:200]})
    for k in ep:
        if k not in adm_pairs:
            return ("mst.admissible", _crossing(k, all_pairs, excl_pairs), {"tree_edge": k})
    rep.evaluations += 1
    if len(set(ep)) != len(ep):
        return ("mst.spanning_forest", "mismatch:duplicate_edge", {"edges": ep})
    adj_all = _adj(n, adm_links)
    lab_all = _labels(n, adj_all)
    tl = [(a, b, 0) for a, b in ep]
    adj_t = _adj(n, tl)
    lab_t = _labels(n, adj_t)
    if lab_t != lab_all:
        return ("mst.spanning_forest", "mismatch:not_spanning", {"edges": ep, "components_of_admissible_graph": lab_all})
    if len(ep) != n - len(set(lab_all)):
        return ("mst.spanning_forest", "mismatch:cycle", {"edges": ep})
    rep.evaluations += 1
    lid = {_key(a, b): i for a, b, i in adm_links}
    got_w = sorted(w[lid[k]] for k in ep)
    want_w = _kruskal_weights(n, adm_links, w)
    if got_w != want_w:
        return ("mst.minimum_weight", "mismatch:total_weight",
                {"edges": ep, "weights_of_edges": [str(x) for x in got_w], "weights_of_a_minimum_forest": [str(x) for x in want_w]})
    # orientation of the root's component
    rep.evaluations += 1
    got = [v for v in range(n) if v == root or par[v] is not None]
    want = [v for v in range(n) if lab_all[v] == lab_all[root]]
    if got != want:
        kind = ("mismatch:reached_too_few" if set(got) < set(want) else
                "mismatch:reached_too_many" if set(got) > set(want) else "mismatch:reached_set")
        return ("mst.orientation", kind, {"reached": got, "component_of_root": want, "edges": ep})
    pp = sorted(_key(int(par[v]), v) for v in got if v != root)
    if pp != sorted(k for k in ep if lab_all[k[0]] == lab_all[root]):
        return ("mst.orientation", "mismatch:parent_vs_edges", {"parent_pairs": pp, "edges": ep})
    for v in got:
        d, x = 0, v
        while x != root and d <= n:
            x = int(par[x])
            d += 1
        if x != root:
            return ("mst.orientation", "mismatch:parent_chain_misses_root", {"v": v})
    rep.evaluations += 1
    r = _parent_children(t, n)
    if r:
        return r
    for order in ("BFS", "DFS"):
        rep.evaluations += 1
        r, _ = _traverse(t, n, root, got, order)
        if r:
            return r
    return None


def judge_forest(fo, n, adm_links, adm_pairs, all_pairs, rep, excl_pairs=()):
    rep.evaluations += 1
    trees, roots = fo.trees, fo.roots
    if len(trees) != len(roots) or fo.n_trees != len(trees):
        return ("forest.tables", "mismatch:trees_vs_roots", {"n_trees": len(trees), "roots": repr(roots)})
    rts = []
    for t, r in zip(trees, roots):
        ri = _as_int(r)
        if ri is None or not 0 <= ri < n or _as_int(t.root) != ri:
            return ("forest.tables", "mismatch:root", {"root": repr(r), "tree_root": repr(t.root)})
        rts.append(ri)
    adj = _adj(n, adm_links)
    lab = _labels(n, adj)
    # each tree is a tree of its component
    for t, r in zip(trees, rts):
        res = judge_bfs_tree(t, n, r, adm_pairs, all_pairs, _hops(n, adj, r), rep, excl_pairs)
        if res:
            return ("forest." + res[0], res[1], dict(res[2], tree_root=r))
    rep.evaluations += 1
    if len(rts) != len(set(lab)) or len(set(lab[r] for r in rts)) != len(rts):
        return ("forest.one_tree_per_component", "mismatch:n_trees",
                {"roots": rts, "component_labels": lab})
    for order in ("BFS", "DFS"):
        rep.evaluations += 1
        o = call(lambda: list(itertools.islice(fo.traverse(order), 2 * n + 3)))
        if not o.ok:
            return ("forest.cover", exc_kind(o), {"msg": o.msg, "order": order})
        nodes = [int(x[0]) for x in o.value]
        if sorted(nodes) != list(range(n)):
            return ("forest.cover", "mismatch:elements_not_covered_once", {"visited": nodes, "n": n, "order": order})
    rep.evaluations += 1
    o = call(lambda: fo.edges)
    if not o.ok:
        return ("forest.edges", exc_kind(o), {"msg": o.msg})
    ep = sorted(_edge_pairs(o.value))
    if ep != sorted(k for t in trees for k in _edge_pairs(t.edges)) or len(ep) != n - len(set(lab)):
        return ("forest.edges", "mismatch:edge_list", {"edges": ep, "n": n, "components": len(set(lab))})
    return None


# ------------------------------------------------------------------------------------------ seam
class RandintSeam:
    """Replaces the module-global `randint` of the tree modules; scripted answer, arguments recorded."""

    def __init__(self):
        import importlib
        self.mods = [importlib.import_module("mouette.processing.trees." + m) for m in TREEMODS]
        self.calls, self.answer = [], None

    def __call__(self, a, b):
        self.calls.append((a, b))
        return a if self.answer is None else self.answer

    def __enter__(self):
        self.saved = [m.randint for m in self.mods]
        for m in self.mods:
            m.randint = self
        return self

    def __exit__(self, *exc):
        for m, f in zip(self.mods, self.saved):
            m.randint = f
        return False


def _rng_state():
    import random
    import numpy as np
    s = np.random.get_state()
    return (random.getstate(), (s[0], s[1].tobytes(), s[2], s[3], s[4]))


# ------------------------------------------------------------------------------------------ sweep
def _subsets(L, xmax):
    """Every subset of range(L) of size <= xmax, then two sets with an id that is not in the mesh."""
    for k in range(0, xmax + 1):
        for c in itertools.combinations(range(L), k):
            yield c
    yield (L + 1,)
    if L > 0:
        yield (0, L + 1)


KIND_NAME = {"pl": "polyline", "sf": "surface", "vol": "volume"}


def _ccls(excl, ab):
    return ("border+excl" if excl else "border") if ab else ("excl" if excl else "plain")


def _weight_menu(E):
    """(label, class label, exact weight list, builder of the library argument)."""
    menu = []
    pats = {
        "dict:two_values": [e % 2 + 1 for e in range(E)],
        "dict:reverse": [E - e for e in range(E)],
        "dict:ties_and_zero": [(e * 7 + 3) % 4 for e in range(E)],
        "dict:negative": [(e * 5) % 3 - 1 for e in range(E)],
        "dict:halves": [Fraction((e * 3) % 5, 2) for e in range(E)],
    }
    for name, w in pats.items():
        menu.append((name, "w=dict", w))
    # weights far from 1 whose differences are far below single precision: exact in double precision, so the expectation is exact
    pats2 = {
        "dict:2^24+small": [2 ** 24 + (e * 5 + 1) % 4 for e in range(E)],
        "dict:1+k*2^-40": [1 + Fraction((e * 3 + 2) % 5, 2 ** 40) for e in range(E)],
    }
    for name, w in pats2.items():
        menu.append((name, "w=dict", w))
    menu.append(("attr:two_values", "w=attr", [float((e * 3) % 2 + 1) for e in range(E)]))
    # storage forms of an Attribute argument: sparse / dense, default zero or not, explicit entries equal to zero or to the default
    tz = [float((e * 7 + 3) % 4) for e in range(E)]
    for form in ATTR_FORMS:
        menu.append(("attr:ties_and_zero:" + form, "w=attr", tz))
    return menu


# label -> (dense, default, which entries are written explicitly)
ATTR_FORMS = {"sparse:default=1:all_written": (False, 1.0, "all"), "sparse:default=1:only_non_default": (False, 1.0, "nondefault"),
              "sparse:default=0:only_non_default": (False, 0.0, "nondefault"), "dense:default=0": (True, 0.0, "all"),
              "dense:default=1": (True, 1.0, "all")}


def _make_attr(mesh, name, w, form):
    dense, default, which = ATTR_FORMS[form] if form else (False, 0.0, "all")
    kw = {"dense": True} if dense else {}
    if default != 0.0:
        kw["default_value"] = default
    at = mesh.edges.create_attribute(name, float, **kw)
    for e, x in enumerate(w):
        if which == "all" or float(x) != default:
            at[e] = float(x)
    return at


def _libw(w):
    # inserted in decreasing edge order: the insertion order of a dict of weights must not matter
    return {e: (float(w[e]) if isinstance(w[e], Fraction) else w[e]) for e in reversed(range(len(w)))}


# ------------------------------------------------------------------------------------------ documented defaults / call forms
REQUIRED = "<required>"
# Public entry points of the property with their parameters in the DOCUMENTED order and the DOCUMENTED default of each
# (copied from the signatures / docstrings of the unchanged tree; never read from the library at run time).
DOC_SIGNATURES = {
    "EdgeSpanningTree": [("mesh", REQUIRED), ("starting_vertex", None), ("avoid_boundary", False), ("avoid_edges", None)],
    "EdgeMinimalSpanningTree": [("mesh", REQUIRED), ("starting_vertex", None), ("avoid_boundary", False), ("weights", "length")],
    "EdgeSpanningForest": [("mesh", REQUIRED)],
    "FaceSpanningTree": [("mesh", REQUIRED), ("starting_face", None), ("forbidden_edges", None)],
    "FaceSpanningForest": [("mesh", REQUIRED), ("forbidden_edges", None)],
    "CellSpanningTree": [("mesh", REQUIRED), ("starting_cell", None), ("forbidden_faces", None)],
    "CellSpanningForest": [("mesh", REQUIRED)],
    "SpanningTree.traverse": [("order", "BFS")],
    "SpanningForest.traverse": [("order", "BFS")],
}
TREE_CLASSES = ("EdgeSpanningTree", "EdgeMinimalSpanningTree", "FaceSpanningTree", "CellSpanningTree")
FOREST_CLASSES = ("EdgeSpanningForest", "FaceSpanningForest", "CellSpanningForest")


def _optional(callee):
    return [(p, d) for p, d in DOC_SIGNATURES[callee] if not (isinstance(d, str) and d == REQUIRED)]


def _check_signatures(rep: Report):
    """The library's signatures against the pinned table: a default that differs from the documented one, or a documented
    parameter that sits at another position, IS the defect (cheap guard next to the behavioural sweep of the call forms)."""
    import inspect
    import mouette as M
    T = M.processing.trees
    for callee, doc in DOC_SIGNATURES.items():
        if callee.endswith(".traverse"):
            targets = [(c, getattr(T, c).traverse, True) for c in (TREE_CLASSES if callee.startswith("SpanningTree") else FOREST_CLASSES)]
        else:
            targets = [(callee, getattr(T, callee), False)]
        for cname, fn, drop_self in targets:
            rep.transitions += 1
            o = call(lambda: list(inspect.signature(fn).parameters.values()))
            if not o.ok:
                rep.violation("C10.defaults.signature", callee, exc_kind(o), "signature", {"class": cname, "msg": o.msg})
                continue
            params = o.value[1:] if drop_self else o.value
            got = [(p.name, REQUIRED if p.default is inspect.Parameter.empty else p.default) for p in params]
            names = [g[0] for g in got]
            for i, (p, d) in enumerate(doc):
                rep.evaluations += 1
                rep.flag(f"defaults:signature:{callee}.{p}")
                det = {"class": cname, "documented": [[a, repr(b)] for a, b in doc], "library": [[a, repr(b)] for a, b in got]}
                if p not in names:
                    rep.violation("C10.defaults.signature", callee, "mismatch:parameter_missing", p, det)
                    continue
                if names.index(p) != i:
                    rep.violation("C10.defaults.signature", callee, "mismatch:parameter_order", p, det)
                gp = params[names.index(p)]
                if gp.kind is not inspect.Parameter.POSITIONAL_OR_KEYWORD:
                    rep.violation("C10.defaults.signature", callee, "mismatch:parameter_kind", p, det)
                gd = got[names.index(p)][1]
                if type(gd) is not type(d) or gd != d:
                    rep.violation("C10.defaults.signature", callee, "mismatch:default_value", p, det)
            for p, d in got[len(doc):]:
                if isinstance(d, str) and d == REQUIRED:     # a new parameter without default breaks every documented call
                    rep.violation("C10.defaults.signature", callee, "mismatch:new_required_parameter", p,
                                  {"class": cname, "library": [[a, repr(b)] for a, b in got]})
    rep.traces += 1


def _meanings(k):
    """Assignments of 'd' (documented default) / 'a' (another value) to k options: all default, all other, and each option
    singled out both ways (it alone default / it alone different)."""
    out = []
    for m in [("d",) * k, ("a",) * k] + [tuple(x if j == i else y for j in range(k)) for i in range(k) for x, y in (("d", "a"), ("a", "d"))]:
        if m not in out:
            out.append(m)
    return out


def _forms(names, m):
    """Ways of writing the call with meaning m: (style, names of the omitted options, indices passed positionally,
    indices passed by keyword). Only options whose value is the documented default may be omitted."""
    k = len(names)
    dflt = [i for i in range(k) if m[i] == "d"]
    forms = [("keyword", (), (), tuple(range(k)))]
    if len(dflt) in (1, k):          # one at a time: among all-default options, and alone among options set otherwise
        for i in dflt:
            forms.append(("omitted", (names[i],), (), tuple(j for j in range(k) if j != i)))
    if len(dflt) >= 2:
        forms.append(("omitted", tuple(names[i] for i in dflt), (), tuple(j for j in range(k) if m[j] == "a")))
    forms.append(("positional", (), tuple(range(k)), ()))
    t = k
    while t > 0 and m[t - 1] == "d":
        t -= 1
    if 0 < t < k:                    # (t == 0 is the call with everything omitted, listed above)
        forms.append(("positional", tuple(names[t:]), tuple(range(t)), ()))
    return forms


def _order_shape(nodes, par, order):
    """BFS: the depth never decreases along the sequence; DFS: pre-order, the subtree of every node is one contiguous block."""
    try:
        if order == "BFS":
            depth = {}
            last = 0
            for v in nodes:
                depth[v] = 0 if par[v] is None else depth[int(par[v])] + 1
                if depth[v] < last:
                    return False
                last = depth[v]
            return True
        stack = []
        for v in nodes:
            p = None if par[v] is None else int(par[v])
            while stack and stack[-1] != p:
                stack.pop()
            if p is not None and not stack:
                return False
            stack.append(v)
        return True
    except (KeyError, IndexError):
        return False


def _tree_result(t):
    return (int(t.root), [None if p is None else int(p) for p in t.parent],
            [sorted(int(c) for c in ch) for ch in t.children], sorted(_edge_pairs(t.edges)))


def _forest_result(fo):
    return ([int(r) for r in fo.roots], [_tree_result(t) for t in fo.trees])


def _call_forms_clause(T, mesh, info, kind, rep: Report, mtag):
    """For every entry point: every way of writing a call (each option omitted alone, all defaulted options omitted, all by
    keyword, all positionally in the documented order, a positional prefix) for every meaning of `_meanings` must satisfy the
    oracle for the documented meaning and give the same tables as the all-keyword call. None roots are answered by the seam."""
    n, L = info.nv, len(info.E)
    all_epairs = set(info.E)

    def report(style, callee, kind_, omitted, detail):
        rep.violation("C10.defaults." + style, callee, kind_, "+".join(omitted) if omitted else "nothing_omitted", dict(detail, **mtag))

    def traverse_forms(obj, callee, n_el, want_of):
        """order omitted / keyword / positional. want_of(order) -> (sequence of the positional call, which the judges of the
        sweeps validate against the statement; [(nodes of one tree, its parent table)] to judge what BFS / DFS mean)."""
        cap = 2 * n_el + 3
        forms = (("BFS", "omitted", ("order",), lambda: obj.traverse()),
                 ("BFS", "keyword", (), lambda: obj.traverse(order="BFS")),
                 ("DFS", "keyword", (), lambda: obj.traverse(order="DFS")),
                 ("BFS", "positional", (), lambda: obj.traverse("BFS")),
                 ("DFS", "positional", (), lambda: obj.traverse("DFS")))
        seqs = {}
        for order in ("BFS", "DFS"):
            # what the two orders mean, judged once on the sequence of the positional call
            rep.evaluations += 1
            w = call(lambda: want_of(order))
            if not w.ok:
                continue                            # reported by the judges of the sweeps
            seqs[order] = w.value[0]
            for nodes, par in w.value[1]:
                if not _order_shape(nodes, par, order):
                    rep.violation("C10.traverse_order", callee, "mismatch:not_breadth_first" if order == "BFS" else "mismatch:not_depth_first",
                                  order, dict(call=f"traverse({order!r})", sequence=w.value[0], **mtag))
                    break
        for order, style, omitted, fn in forms:
            if order not in seqs:
                continue
            rep.transitions += 1
            rep.evaluations += 1
            rep.flag(f"defaults:{style}:{callee}.order")
            o = call(lambda: [(int(a), None if b is None else int(b)) for a, b in itertools.islice(fn(), cap)])
            det = {"call": {"omitted": "traverse()", "keyword": f"traverse(order={order!r})", "positional": f"traverse({order!r})"}[style]}
            if not o.ok:
                report(style, callee, exc_kind(o), omitted, dict(det, msg=o.msg))
            elif o.value != seqs[order]:
                report(style, callee, "mismatch:sequence_differs_from_documented_order", omitted,
                       dict(det, sequence=o.value, documented_order=order, sequence_of_that_order=seqs[order]))
        if len(seqs) == 2 and seqs["BFS"] != seqs["DFS"]:
            rep.flag(f"defaults:discriminating:{callee}.order")

    def tree_traversal(t, n_el):
        def want_of(order):
            seq = [(int(a), None if b is None else int(b)) for a, b in itertools.islice(t.traverse(order), 2 * n_el + 3)]
            return seq, [([a for a, _ in seq], t.parent)]
        traverse_forms(t, "SpanningTree.traverse", n_el, want_of)

    def forest_traversal(fo, n_el):
        def want_of(order):
            parts = [[(int(a), None if b is None else int(b)) for a, b in itertools.islice(t.traverse(order), 2 * n_el + 3)]
                     for t in fo.trees]
            return [x for p in parts for x in p], [([a for a, _ in p], t.parent) for p, t in zip(parts, fo.trees)]
        traverse_forms(fo, "SpanningForest.traverse", n_el, want_of)

    def sweep(callee, cls, values, expect, result_of, after):
        """values: option -> {'d': thunk, 'a': thunk} in the documented order; expect(m, obj) -> judge tuple or None."""
        opts = _optional(callee)
        names = [p for p, _ in opts]
        refs = {}
        for m in _meanings(len(names)):
            ref = None
            for style, omitted, pos, kw in _forms(names, m):
                args = [values[names[i]][m[i]]() for i in pos]
                kwargs = {names[i]: values[names[i]][m[i]]() for i in kw}
                for i in (pos if style == "positional" else kw if style == "keyword" else [names.index(p) for p in omitted]):
                    rep.flag(f"defaults:{style}:{callee}.{names[i]}")
                rep.transitions += 1
                rep.states += 1
                rep.evaluations += 1
                o = call(lambda: cls(mesh, *args, **kwargs)())
                cur = call(lambda: result_of(o.value)) if o.ok else None
                if style != "keyword" and cur is not None and cur.ok and cur.value == ref:
                    continue                        # same tables as the judged all-keyword call
                # the all-keyword call, or a call that answers differently: the oracle of the documented meaning says how
                if o.ok:
                    res = call(lambda: expect(m, o.value))
                    bad = (res.value if res.ok else ("judge", exc_kind(res), {"msg": res.msg}))
                    if not bad and not cur.ok:
                        bad = ("tables", exc_kind(cur), {"msg": cur.msg})
                else:
                    bad = ("answers", exc_kind(o), {"msg": o.msg})
                if bad or style != "keyword":
                    det = {"call": f"{callee}(mesh" + "".join(f", {a!r}" for a in args)
                           + "".join(f", {k_}={v!r}" for k_, v in kwargs.items()) + ")()", "randint_answers": seam.answer}
                    if omitted:
                        det["documented_default"] = {p: repr(dict(opts)[p]) for p in omitted}
                if style != "keyword" and omitted:
                    # which omitted option is to blame: the one whose documented default, passed explicitly, repairs the call
                    blame = []
                    for p in omitted:
                        kw2 = dict(kwargs, **{p: values[p]["d"]()})
                        o2 = call(lambda: result_of(cls(mesh, *args, **kw2)()))
                        if o2.ok and o2.value == ref:
                            blame.append(p)
                    if blame:
                        style, omitted = "omitted", tuple(blame)
                        det["repaired_by_passing_explicitly"] = blame
                if bad:
                    report(style, callee, bad[1], omitted, dict(det, clause=bad[0], **bad[2]))
                    if style == "keyword":
                        break                       # no sound reference for the other ways of writing this call
                    continue
                if style == "keyword":
                    ref = refs[m] = cur.value
                    rep.case(("H", callee, mtag["mesh"]["el"], mtag["mesh"]["n"], kind, m))
                    after(m, o.value)
                else:
                    report(style, callee, "mismatch:differs_from_all_keyword_call", omitted,
                           dict(det, result=repr(cur.value)[:400], all_keyword_result=repr(ref)[:400]))
        k = len(names)
        for i in range(k):
            for base in ("d", "a"):
                a = tuple("d" if j == i else base for j in range(k))
                b = tuple("a" if j == i else base for j in range(k))
                if a in refs and b in refs and refs[a] != refs[b]:
                    rep.flag(f"defaults:discriminating:{callee}.{names[i]}")

    def pick(links, n_el, n_ids):
        """(root given explicitly, root answered by the seam, exclusion set): both ends of the last link, and that link."""
        if links:
            a, b, lid = links[-1]
            return b, a, (lid,)
        return n_el - 1, 0, (n_ids + 1,)

    def rooted(m, t, n_el, explicit):
        r = _as_int(t.root)
        if r is None or not 0 <= r < n_el:
            return None, ("root", "mismatch:root_not_an_element", {"root": repr(t.root)})
        if m[0] == "a" and r != explicit:
            return None, ("root", "mismatch:root_is_not_the_given_one", {"root": r, "given": explicit})
        return r, None

    with RandintSeam() as seam:
        # vertex trees: prefer a link that is not on the border, so that the border switch and the exclusion are independent
        inner = [l for l in info.edge_links if not info.border_e[l[2]]]
        r2, r1, S = pick(inner or info.edge_links, n, L)
        seam.answer = r1

        def edge_expect(m, t):
            r, bad = rooted(m, t, n, r2)
            if bad:
                return bad
            ab, ex = m[1] == "a", (S if m[2] == "a" else ())
            adm = info.admissible(info.edge_links, ex, info.border_e if ab else None)
            pairs = set(_key(a, b) for a, b, _ in adm)
            xp = set(_key(a, b) for a, b, l in info.edge_links if l in ex) - pairs
            return judge_bfs_tree(t, n, r, pairs, all_epairs, _hops(n, _adj(n, adm), r), rep, xp)

        def mst_expect(m, t):
            r, bad = rooted(m, t, n, r2)
            if bad:
                return bad
            adm = info.admissible(info.edge_links, (), info.border_e if m[1] == "a" else None)
            pairs = set(_key(a, b) for a, b, _ in adm)
            return judge_mst(t, n, r, adm, pairs, all_epairs, info.sqlen if m[2] == "d" else [1] * L, rep)

        def trav(n_el):
            return lambda m, t: tree_traversal(t, n_el) if len(set(m)) == 1 else None

        rootv = {"d": lambda: None, "a": lambda: r2}
        sweep("EdgeSpanningTree", T.EdgeSpanningTree,
              {"starting_vertex": rootv, "avoid_boundary": {"d": lambda: False, "a": lambda: True},
               "avoid_edges": {"d": lambda: None, "a": lambda: set(S)}}, edge_expect, _tree_result, trav(n))
        sweep("EdgeMinimalSpanningTree", T.EdgeMinimalSpanningTree,
              {"starting_vertex": rootv, "avoid_boundary": {"d": lambda: False, "a": lambda: True},
               "weights": {"d": lambda: "length", "a": lambda: "one"}}, mst_expect, _tree_result, trav(n))
        o = call(lambda: T.EdgeSpanningForest(mesh)())
        if o.ok:
            forest_traversal(o.value, n)

        for cname, fname, links, ne, nl, optnames in (
                ("FaceSpanningTree", "FaceSpanningForest", info.face_links if kind == "sf" else None, info.nf, L,
                 ("starting_face", "forbidden_edges")),
                ("CellSpanningTree", "CellSpanningForest", info.cell_links if kind == "vol" else None, info.nc, info.nf,
                 ("starting_cell", "forbidden_faces"))):
            if links is None or ne == 0:
                continue
            all_pairs = set(_key(a, b) for a, b, _ in links)
            e2, e1, X = pick(links, ne, nl)
            seam.answer = e1

            def admit(ex):
                adm = info.admissible(links, ex)
                pairs = set(_key(a, b) for a, b, _ in adm)
                return adm, pairs, set(_key(a, b) for a, b, l in links if l in ex) - pairs

            def el_expect(m, t):
                r, bad = rooted(m, t, ne, e2)
                if bad:
                    return bad
                adm, pairs, xp = admit(X if m[1] == "a" else ())
                return judge_bfs_tree(t, ne, r, pairs, all_pairs, _hops(ne, _adj(ne, adm), r), rep, xp)

            def fo_expect(m, fo):
                adm, pairs, xp = admit(X if m and m[0] == "a" else ())
                return judge_forest(fo, ne, adm, pairs, all_pairs, rep, xp)

            sweep(cname, getattr(T, cname), {optnames[0]: {"d": lambda: None, "a": lambda: e2},
                                             optnames[1]: {"d": lambda: None, "a": lambda: set(X)}}, el_expect, _tree_result, trav(ne))
            if fname == "FaceSpanningForest":
                sweep(fname, getattr(T, fname), {"forbidden_edges": {"d": lambda: None, "a": lambda: set(X)}}, fo_expect,
                      _forest_result, lambda m, fo: forest_traversal(fo, ne))
            else:
                o = call(lambda: getattr(T, fname)(mesh)())
                if o.ok:
                    forest_traversal(o.value, ne)


def _check_mesh(spec, xmax, tier, fam, rep: Report):
    import mouette as M
    from mc import families as F
    T = M.processing.trees
    kind = spec["k"]
    pts = _points(spec)

    def build(points):
        if kind == "pl":
            return F.build_polyline(points, spec["el"])
        if kind == "sf":
            return F.build_surface(points, spec["el"])
        if any(len(c) != 4 for c in spec["el"]):
            return F.build_volume(points, spec["el"])
        return F.build_volume(points, F.orient_cells_positive([tuple(c) for c in spec["el"]], points))

    mesh = build(pts)
    info = Info(kind, mesh, pts)
    kname = KIND_NAME[kind]
    n = info.nv
    rep.traces += 1
    rep.count("meshes:" + fam)
    mtag = {"mesh": {k: spec[k] for k in ("k", "p", "n", "el")}}
    if "tag" in spec:
        mtag["mesh"]["tag"] = spec["tag"]
    if kind == "sf":
        rep.flag("surface:closed" if info.closed else "surface:bordered")
        rep.flag("surface:arity" + info.arity)
    all_adj = _adj(n, info.edge_links)
    ncomp = len(set(_labels(n, all_adj)))
    if ncomp > 1:
        rep.flag(kname + ":disconnected")
    all_epairs = set(info.E)
    L = len(info.E)

    def built(o, sub, callee, icls, detail):
        """Construction + compute must answer."""
        rep.transitions += 1
        rep.states += 1
        if not o.ok:
            rep.violation("C10." + sub, callee, exc_kind(o), icls, dict(detail, msg=o.msg, **mtag))
            return False
        return True

    def verdict(res, callee, cc, detail, wcls=None):
        """Fingerprint input class, coarse on purpose: the clause decides which part of the input matters."""
        if not res:
            return
        sub = res[0].split("forest.")[-1]
        if sub in ("adjacency", "mst.admissible"):
            icls = kname                           # the kind already says what was crossed
        elif sub in ("reach", "mst.orientation", "mst.spanning_forest", "one_tree_per_component", "cover", "edges", "tables"):
            icls = cc                              # plain | excl | border | border+excl
        elif sub == "mst.minimum_weight":
            icls = "w=one" if wcls == "w=one" else "w=varying"
        else:
            icls = "any"
        if sub.startswith("traverse."):
            callee = "SpanningTree.traverse"       # one shared implementation in base.py
        elif sub == "cover":
            callee = "SpanningForest.traverse"
        rep.violation("C10." + res[0], callee, res[1], icls, dict(detail, **res[2], **mtag))

    # ---- A. breadth-first vertex trees
    for S in _subsets(L, xmax):
        for ab in (False, True):
            adm = info.admissible(info.edge_links, S, info.border_e if ab else None)
            adj = _adj(n, adm)
            pairs = set(_key(a, b) for a, b, _ in adm)
            xp = set(_key(a, b) for a, b, l in info.edge_links if l in S) - pairs
            cc = _ccls(S, ab)
            icls = f"{kname}:{cc}"
            shrunk = len(set(_labels(n, adj))) > ncomp
            if shrunk:
                rep.flag(f"{kname}:{cc}:disconnects")
            variants = [set(S)] if S else [None, set()]
            for root in range(n):
                dist = _hops(n, adj, root)
                for Sv in variants:
                    arg = None if Sv is None else set(Sv)
                    det = {"call": f"EdgeSpanningTree(mesh, {root}, avoid_boundary={ab}, avoid_edges={Sv!r})()"}
                    o = call(lambda: T.EdgeSpanningTree(mesh, root, avoid_boundary=ab, avoid_edges=arg)())
                    if arg is not None and arg != Sv:
                        rep.violation("C10.exclusion_set_unchanged", "EdgeSpanningTree", "side_effect:argument_changed", icls,
                                      dict(det, passed=sorted(Sv), afterwards=sorted(arg, key=repr)))
                    if not built(o, "tree_is_built", "EdgeSpanningTree", icls, det):
                        continue
                    verdict(judge_bfs_tree(o.value, n, root, pairs, all_epairs, dist, rep, xp),
                            "EdgeSpanningTree", cc, det)
                    nr = sum(1 for d in dist if d >= 0)
                    if nr > 1 or shrunk:
                        rep.case(("E", spec["el"], spec["n"], kind, root, S, ab, Sv is None))
                    rep.outcome("edge_tree_reach", nr)
    rep.sample({"class": "EdgeSpanningTree", "mesh": mtag["mesh"], "roots": n, "exclusion_sets_up_to": xmax})

    # ---- B. face trees / C. cell trees
    for cname, links, ne, nl, cls, forest_cls in (
            ("FaceSpanningTree", info.face_links, info.nf, L, getattr(T, "FaceSpanningTree"), getattr(T, "FaceSpanningForest")),
            ("CellSpanningTree", info.cell_links, info.nc, info.nf, getattr(T, "CellSpanningTree"), getattr(T, "CellSpanningForest"))):
        if links is None:
            continue
        if (cname == "FaceSpanningTree") != (kind == "sf"):
            continue
        all_pairs = set(_key(a, b) for a, b, _ in links)
        nc0 = len(set(_labels(ne, _adj(ne, links))))
        if nc0 > 1:
            rep.flag(cname + ":disconnected")
        for S in _subsets(nl, xmax):
            adm = info.admissible(links, S)
            adj = _adj(ne, adm)
            pairs = set(_key(a, b) for a, b, _ in adm)
            xp = set(_key(a, b) for a, b, l in links if l in S) - pairs
            cc = _ccls(S, False)
            icls = f"{kname}:{cc}"
            shrunk = len(set(_labels(ne, adj))) > nc0
            if shrunk:
                rep.flag(f"{cname}:{cc}:disconnects")
            variants = [set(S)] if S else [None, set()]
            for Sv in variants:
                for root in range(ne):
                    dist = _hops(ne, adj, root)
                    arg = None if Sv is None else set(Sv)
                    det = {"call": f"{cname}(mesh, {root}, {Sv!r})()"}
                    o = call(lambda: cls(mesh, root, arg)())
                    if arg is not None and arg != Sv:
                        rep.violation("C10.exclusion_set_unchanged", cname, "side_effect:argument_changed", icls,
                                      dict(det, passed=sorted(Sv), afterwards=sorted(arg, key=repr)))
                    if not built(o, "tree_is_built", cname, icls, det):
                        continue
                    verdict(judge_bfs_tree(o.value, ne, root, pairs, all_pairs, dist, rep, xp),
                            cname, cc, det)
                    nr = sum(1 for d in dist if d >= 0)
                    if nr > 1 or shrunk:
                        rep.case((cname, spec["el"], spec["n"], root, S, Sv is None))
                    rep.outcome(cname + "_reach", nr)
                # forests: the face forest takes the exclusion set, the cell forest takes nothing
                if cname == "FaceSpanningTree":
                    arg = None if Sv is None else set(Sv)
                    det = {"call": f"FaceSpanningForest(mesh, {Sv!r})()"}
                    o = call(lambda: forest_cls(mesh, arg)())
                    if built(o, "forest_is_built", "FaceSpanningForest", icls, det):
                        verdict(judge_forest(o.value, ne, adm, pairs, all_pairs, rep, xp), "FaceSpanningForest", cc, det)
                        rep.outcome("face_forest_trees", len(o.value.trees))
                        if len(o.value.trees) > 1:
                            rep.flag("forest:several_trees")
                        rep.case(("FF", spec["el"], spec["n"], S, Sv is None))
        if cname == "CellSpanningTree":
            det = {"call": "CellSpanningForest(mesh)()"}
            o = call(lambda: forest_cls(mesh)())
            if built(o, "forest_is_built", "CellSpanningForest", f"{kname}:plain", det):
                verdict(judge_forest(o.value, ne, links, all_pairs, all_pairs, rep), "CellSpanningForest", "plain", det)
                rep.outcome("cell_forest_trees", len(o.value.trees))
                if len(o.value.trees) > 1:
                    rep.flag("forest:several_trees")
                rep.case(("CF", spec["el"], spec["n"]))

    # ---- edge forest
    det = {"call": "EdgeSpanningForest(mesh)()"}
    o = call(lambda: T.EdgeSpanningForest(mesh)())
    if built(o, "forest_is_built", "EdgeSpanningForest", f"{kname}:plain", det):
        verdict(judge_forest(o.value, n, info.edge_links, all_epairs, all_epairs, rep), "EdgeSpanningForest", "plain", det)
        rep.outcome("edge_forest_trees", len(o.value.trees))
        if len(o.value.trees) > 1:
            rep.flag("forest:several_trees")
        rep.case(("EF", spec["el"], spec["n"], kind))

    # ---- D. minimal spanning trees
    def mst_sweep(msh, inf, wlabel, wcls, w, libarg, roots, abs_):
        for ab in abs_:
            adm = inf.admissible(inf.edge_links, (), inf.border_e if ab else None)
            pairs = set(_key(a, b) for a, b, _ in adm)
            icls = f"{kname}:{'border' if ab else 'plain'}:{wcls}"
            ws = [w[l[2]] for l in adm]
            if len(set(ws)) < len(ws):
                rep.flag("mst:ties")
            for root in roots:
                det = {"call": f"EdgeMinimalSpanningTree(mesh, {root}, avoid_boundary={ab}, weights=<{wlabel}>)()",
                       "weights": [str(x) for x in w]}
                o = call(lambda: T.EdgeMinimalSpanningTree(msh, root, avoid_boundary=ab, weights=libarg())())
                if not built(o, "tree_is_built", "EdgeMinimalSpanningTree", icls, det):
                    continue
                verdict(judge_mst(o.value, n, root, adm, pairs, all_epairs, w, rep), "EdgeMinimalSpanningTree",
                        "border" if ab else "plain", det, wcls)
                rep.case(("M", spec["el"], spec["n"], kind, root, ab, wlabel, tuple(map(str, w))))
                rep.outcome("mst_edges", len(o.value.edges))

    abs_ = (False, True)
    allroots = range(n)
    mst_sweep(mesh, info, "one", "w=one", [1] * L, lambda: "one", allroots, abs_)
    mst_sweep(mesh, info, "length", "w=length", info.sqlen, lambda: "length", allroots, abs_)
    if spec["p"] == "lat":
        pts2 = [tuple(q) for q in F.moment_curve(spec["n"])]
        mesh2 = build(pts2)
        info2 = Info(kind, mesh2, pts2)
        if info2.E != info.E:
            raise RuntimeError("edge numbering depends on the geometry")
        mst_sweep(mesh2, info2, "length(moment curve)", "w=length", info2.sqlen, lambda: "length", allroots, abs_)
    for wlabel, wcls, w in _weight_menu(L):
        if wcls == "w=attr":
            nm = "c10_" + wlabel.replace(":", "_")
            at = _make_attr(mesh, nm, w, wlabel.split(":", 2)[2] if wlabel.count(":") >= 2 else None)
            mst_sweep(mesh, info, wlabel, wcls, w, lambda: at, allroots, abs_)
        else:
            mst_sweep(mesh, info, wlabel, wcls, w, lambda: _libw(w), allroots, abs_)
    if kind == "pl" and L <= 5 or (kind == "pl" and tier == "thorough" and n <= 4):
        alpha = (1, 2, 3) if tier == "thorough" else (1, 2)
        for w in itertools.product(alpha, repeat=L):
            w = list(w)
            mst_sweep(mesh, info, "dict:vector", "w=dict", w, lambda: _libw(w), allroots, (False,))
            rep.count("weight_vectors")

    # ---- F. root=None through the randint seam
    noneroot = [("EdgeSpanningTree", lambda: T.EdgeSpanningTree(mesh)(), n, "bfsE"),
                ("EdgeMinimalSpanningTree", lambda: T.EdgeMinimalSpanningTree(mesh, None, weights="one")(), n, "mst")]
    if kind == "sf":
        noneroot.append(("FaceSpanningTree", lambda: T.FaceSpanningTree(mesh)(), info.nf, "bfsF"))
    if kind == "vol":
        noneroot.append(("CellSpanningTree", lambda: T.CellSpanningTree(mesh)(), info.nc, "bfsC"))
    for cname, make, ne, how in noneroot:
        icls = f"{kname}:root=None"
        with RandintSeam() as seam:
            seam.answer = None
            o = call(make)
            asked = list(seam.calls)
            answers = [None]
            if asked:
                rep.flag("seam:intercepted:" + cname)
                lo, hi = asked[0]
                if _as_int(lo) is None or _as_int(hi) is None or hi - lo > 4 * ne + 8:
                    rep.violation("C10.root", cname, "mismatch:randint_range", icls, dict(asked=repr(asked[0]), **mtag))
                    continue
                if (lo, hi) != (0, ne - 1):
                    rep.flag("seam:range_differs_from_elements")
                answers = list(range(lo, hi + 1))
            for a in answers:
                seam.answer = a
                seam.calls = []
                o = call(make)
                det = {"call": f"{cname}(mesh, root=None)()", "randint_answer": a, "randint_asked": asked[:1]}
                rep.count("seam_answers")
                if not built(o, "tree_is_built", cname, icls, det):
                    continue
                t = o.value
                r = _as_int(t.root)
                if r is None or not 0 <= r < ne:
                    rep.violation("C10.root", cname, "mismatch:root_not_an_element", icls, dict(det, root=repr(t.root), **mtag))
                    continue
                rep.outcome("none_root:" + cname, r)
                if how == "mst":
                    res = judge_mst(t, n, r, info.edge_links, all_epairs, all_epairs, [1] * L, rep)
                else:
                    links = {"bfsE": info.edge_links, "bfsF": info.face_links, "bfsC": info.cell_links}[how]
                    prs = set(_key(x, y) for x, y, _ in links)
                    res = judge_bfs_tree(t, ne, r, prs, prs, _hops(ne, _adj(ne, links), r), rep)
                verdict(res, cname, "plain", det, "w=one")
                rep.case(("N", cname, spec["el"], spec["n"], kind, a))

    # ---- H. documented defaults and call forms (omitted / positional / keyword arguments)
    if spec.get("cf", 1):
        rep.count("call_forms_meshes:" + fam)
        _call_forms_clause(T, mesh, info, kind, rep, mtag)

    # ---- G. the tree exported as a polyline (build_tree_as_polyline) shows the same tree
    def bary(elems):
        return [tuple(sum(Fraction(pts[int(v)][k]) for v in el) / len(el) for k in range(3)) for el in elems]

    def export(cname, make, ne, want_pts, state):
        icls = f"{kname}:{state}"
        for root in range(ne):
            o = call(lambda: make(root))
            if not o.ok:
                continue                      # reported by the sweeps above
            t = o.value
            det = {"call": f"{cname}(mesh, {root})().build_tree_as_polyline()", "mesh_state": state}
            rep.transitions += 1
            rep.evaluations += 1
            o = call(t.build_tree_as_polyline)
            rep.outcome("polyline_export", "ok" if o.ok else o.exc)
            if not o.ok:
                rep.violation("C10.polyline_export", cname + ".build_tree_as_polyline", exc_kind(o), icls, dict(det, msg=o.msg, **mtag))
                return
            try:
                pe = sorted(_edge_pairs(o.value.edges))
                pv = [[float(c) for c in v] for v in o.value.vertices]
            except Exception:
                rep.violation("C10.polyline_export", cname + ".build_tree_as_polyline", "mismatch:shape", icls, dict(det, **mtag))
                return
            par = t.parent
            want = sorted(_key(int(par[v]), v) for v in range(ne) if par[v] is not None)
            if pe != want:
                rep.violation("C10.polyline_export", cname + ".build_tree_as_polyline", "mismatch:edges", icls,
                              dict(det, polyline_edges=pe, parent_pairs=want, **mtag))
                return
            from mc import families as _Fam
            if _Fam.STALE[0]:
                continue      # stale-blackboard mode: the export documents that it reuses a stored 'barycenter' attribute
            if len(pv) != ne or any(abs(a - float(b)) > 1e-9 * (1 + abs(float(b))) for p, q in zip(pv, want_pts) for a, b in zip(p, q)):
                rep.violation("C10.polyline_export", cname + ".build_tree_as_polyline", "mismatch:vertices", icls,
                              dict(det, polyline_vertices=pv, **mtag))
                return

    def fill(container, name, values):
        at = container.create_attribute(name, float, 3)
        for i, v in enumerate(values):
            at[i] = [float(c) for c in v]

    exports = [("EdgeSpanningTree", lambda r: T.EdgeSpanningTree(mesh, r)(), n, pts),
               ("EdgeMinimalSpanningTree", lambda r: T.EdgeMinimalSpanningTree(mesh, r, weights="one")(), n, pts)]
    if kind == "sf":
        exports.append(("FaceSpanningTree", lambda r: T.FaceSpanningTree(mesh, r)(), info.nf, bary(mesh.faces)))
    if kind == "vol":
        exports.append(("CellSpanningTree", lambda r: T.CellSpanningTree(mesh, r)(), info.nc, bary(mesh.cells)))
    for e in exports:
        export(*e, "no_barycenter_attribute")
    if kind == "vol":
        if not mesh.cells.has_attribute("barycenter"):
            fill(mesh.cells, "barycenter", bary(mesh.cells))
        for e in exports:
            export(*e, "cells_have_barycenter_attribute")
    if kind in ("sf", "vol"):
        if not mesh.faces.has_attribute("barycenter"):      # what attributes.face_barycenter(mesh) leaves behind
            fill(mesh.faces, "barycenter", bary(mesh.faces))
        for e in exports:
            export(*e, "faces_have_barycenter_attribute")


def run_task(task, rep: Report):
    before = _rng_state()
    if task["fam"] == "signature":
        _check_signatures(rep)
    for spec in task["meshes"]:
        _check_mesh(spec, task["xmax"], task["tier"], task["fam"], rep)
    if _rng_state() != before:
        raise RuntimeError("the process random state changed during the task: a random draw was not intercepted by the seam")


# ------------------------------------------------------------------------------------------ guards
PINNED = {
    "quick": {"graph": 1099, "surf": 476, "surf5q": 2222, "tet": 27, "holey3": 139, "odd": 6},
    "thorough": {"graph": 1099, "surf": 476, "surf5q": 2222, "tet": 27, "holey3": 139, "odd": 6, "tet6": 16, "surf6": 28, "zoo": 32, "holey4": 74},
}


def finish(tier, rep: Report):
    fails = []
    for fam, want in PINNED[tier].items():
        got = rep.counters.get("meshes:" + fam, 0)
        if got != want:
            fails.append(f"family {fam} has {got} members, pinned {want}")
    for fam, want in PINNED[tier].items():
        want = -(-want // (1 if tier == "thorough" else CF_STRIDE.get(fam, 1)))
        if rep.counters.get("call_forms_meshes:" + fam, 0) != want:
            fails.append(f"call forms swept on {rep.counters.get('call_forms_meshes:' + fam, 0)} members of {fam}, expected {want}")
    need = ["polyline:disconnected", "surface:disconnected", "surface:closed", "surface:bordered", "surface:arity3",
            "surface:arity4", "surface:arity34", "polyline:excl:disconnects", "surface:excl:disconnects",
            "surface:border:disconnects", "volume:border:disconnects", "FaceSpanningTree:excl:disconnects",
            "CellSpanningTree:excl:disconnects", "FaceSpanningTree:disconnected", "forest:several_trees", "mst:ties",
            "orders_differ", "seam:intercepted:EdgeSpanningTree", "seam:intercepted:EdgeMinimalSpanningTree",
            "seam:intercepted:FaceSpanningTree", "seam:intercepted:CellSpanningTree"]
    for f in need:
        if f not in rep.flags:
            fails.append("coverage flag missing: " + f)
    for kind in ("edge_tree_reach", "FaceSpanningTree_reach", "CellSpanningTree_reach", "edge_forest_trees",
                 "face_forest_trees", "mst_edges", "none_root:EdgeSpanningTree", "none_root:FaceSpanningTree"):
        if len(rep.outcomes.get(kind, ())) < 2:
            fails.append(f"event kind {kind} produced a single outcome")
    if rep.counters.get("weight_vectors", 0) < 1000:
        fails.append("exhaustive weight vectors not swept")
    # every entry of the table of documented defaults was exercised in every way, on an input where its value matters
    for callee in DOC_SIGNATURES:
        for p, d in DOC_SIGNATURES[callee]:
            want = ["signature"] + ([] if isinstance(d, str) and d == REQUIRED else ["omitted", "keyword", "positional", "discriminating"])
            for what in want:
                if f"defaults:{what}:{callee}.{p}" not in rep.flags:
                    fails.append(f"documented default not exercised: {what} {callee}.{p}")
    return fails


def dupflag_variant(task, tier):
    """Tasks that are also run with config.display_duplicate_attribute_warning = True (the runner appends
    ':duplicate_attribute_flag' to the input class of anything found there)."""
    return bool(task.get("fam") == "tet")


def warm_variant(task, tier):
    """Tasks that are also run on meshes whose attribute blackboard is already filled with (valid) persistent attributes
    (mc/families.py WARM; the runner appends ':warm_attribute_blackboard' to the input class of anything found there)."""
    return bool(task.get("fam") in ("graph", "tet"))


def stale_variant(task, tier):
    """Tasks also run on meshes with a stale attribute blackboard (lengths / barycentres computed on another geometry):
    weights='length' must be measured on the current geometry."""
    return bool(task.get("fam") in ("graph", "tet", "holey3"))
