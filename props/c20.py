"""C20 - union-find and priority queue conform to their abstract models (S1: history BFS).

Every history of API calls up to the depth bound is executed on the real objects, with a reference
model (list of frozensets / multiset) stepped in lockstep.  States are deduplicated on the canonical
dump of the real object (path-compression layout included) together with the model.
"""
from __future__ import annotations
import copy, math
from mc.core import Report, call, exc_kind
from mc.canon import canon
from mc.explore import bfs

ID = "C20"
RULE = ("explicit-state BFS over all call histories (add/union/find/connected/component/components/"
        "component_mapping/roots/len/in; push/get/pop/front/empty) up to the depth bound, over int, tuple, "
        "string and mixed element alphabets, from the empty and from a pre-filled structure; a case is one "
        "distinct (real-object canonical dump, model) state; non-trivial = at least one element/item present")
ASSUMPTIONS = ["elements restricted to the 3-4 element alphabets listed in the tasks; priorities to {-inf,-1,0,1,inf} and, in a third queue family, to values close to each other relative to their magnitude {1e10, 1e10+1, -1e10, -1e10-1, 1, 1+2^-40, 1e-300, 2e-300}",
               "depth bound as given in coverage.bounds; all histories below it are explored (no sampling)"]
BOUNDS = {"quick": "union-find depth 4 (ints: 5); priority queue depth 5 with two item names, depth 7 with one item name, priorities {0,1,-1,inf,-inf}; depth 4 on the close-priority alphabet",
          "thorough": "union-find depth 6 (ints: 7); priority queue depth 7 with two item names, depth 9 with one; depth 6 on the close-priority alphabet"}

ALPHABETS = {
    "ints": [0, 1, 2, 3],
    "tuples": [[0, 1], [1, 0], [2, 2]],
    "strs": ["a", "b", "ab"],
    "mixed": [0, "a", [0, 1]],
}
ABSENT = {"ints": 7, "tuples": [9, 9], "strs": "zz", "mixed": "q"}


def tasks(tier):
    d = {"quick": 4, "thorough": 6}[tier]
    out = []
    for alpha in ALPHABETS:
        for init in ("empty", "prefilled", "prefilled_dup"):
            out.append({"kind": "uf", "alphabet": alpha, "init": init,
                        "depth": d + (1 if alpha == "ints" else 0)})
    for lo in range(0, 105, 7):
        out.append({"kind": "uf", "alphabet": "ints", "init": "prefilled", "depth": 0, "schedule": "binomial8", "lo": lo, "hi": lo + 7})
    # Priority queue. The search is split by the first event (every history of length >= 1 starts with exactly one
    # of them); the task with the empty prefix explores depth 1 only so that the initial state is covered too.
    # Family A: two distinguishable items (ties between different items), family B: one item name, deeper (heap
    # shape defects need >= 6 pending items).
    out.append({"kind": "pq", "depth": 1, "prefix": [], "items": ["a", "b"]})
    for items, d in ((["a", "b"], {"quick": 5, "thorough": 7}[tier]), (["a"], {"quick": 7, "thorough": 9}[tier])):
        for ev in [["push", x, p] for p in PRIOS for x in items] + [["get"], ["pop"], ["front"], ["empty"]]:
            out.append({"kind": "pq", "depth": d - 1, "prefix": [ev], "items": items})
    # Family C: priorities that differ by little relative to their magnitude (large integers one apart, floats one part
    # in 2^40 apart, tiny floats) - a comparison with a tolerance would order them wrongly
    dm = {"quick": 4, "thorough": 6}[tier]
    for p in PRIOS_CLOSE:
        out.append({"kind": "pq", "depth": dm - 1, "prefix": [["push", "a", p]], "items": ["a"], "prios": "close"})
    return out


def _el(x):
    return tuple(x) if isinstance(x, list) else x


# ------------------------------------------------------------------------------------------------
class UFState:
    def __init__(self, UnionFind, elements, init):
        if init == "prefilled":
            self.uf = UnionFind(list(elements))
            self.order = list(elements)
        elif init == "prefilled_dup":       # the constructor is given an iterable with repeated elements
            self.uf = UnionFind(list(elements) + [elements[0], elements[-1]])
            self.order = list(elements)
        else:
            self.uf = UnionFind()
            self.order = []
        self.blocks = {e: frozenset([e]) for e in self.order}   # element -> block

    # reference model
    def m_add(self, x):
        if x not in self.blocks:
            self.blocks[x] = frozenset([x]); self.order.append(x)

    def m_union(self, x, y):
        self.m_add(x); self.m_add(y)
        b = self.blocks[x] | self.blocks[y]
        for e in b:
            self.blocks[e] = b

    def partition(self):
        return frozenset(self.blocks.values())


def _norm_elt(x):
    """numpy scalars / arrays coming back from the library -> python values, for comparison."""
    import numpy as np
    if isinstance(x, np.ndarray):
        return tuple(_norm_elt(v) for v in x.tolist())
    if isinstance(x, np.generic):
        return x.item()
    if isinstance(x, list):
        return tuple(x)
    return x


def _uf_events(elements, absent):
    evs = []
    el = list(elements) + [absent]
    for x in el:
        evs.append(("add", x))
    for x in el:
        for y in el:
            evs.append(("union", x, y))
    for x in el:
        evs.append(("find", x))
    for x in el:
        for y in el:
            evs.append(("connected", x, y))
    for x in el:
        evs.append(("component", x))
    evs += [("components",), ("component_mapping",), ("roots",), ("len",)]
    for x in el:
        evs.append(("in", x))
    return evs


def _run_uf(task, rep: Report):
    from mouette.utils import UnionFind
    alpha = task["alphabet"]
    elements = [_el(x) for x in ALPHABETS[alpha]]
    absent = _el(ABSENT[alpha])
    # 'absent' is a legal element too (add/union may introduce it); it is merely not pre-filled.
    events = _uf_events(elements[:3], absent)
    icls = f"uf:{alpha}:{task['init']}"

    def make():
        return UFState(UnionFind, elements[:3], task["init"])

    def check_invariants(st: UFState, hist_ev):
        """Evaluate every clause of the statement on a deep copy (queries compress paths)."""
        u = copy.deepcopy(st.uf)
        part = st.partition()
        n = len(st.order)
        rep.evaluations += 1

        def bad(sub, callee, kind, detail):
            rep.violation("C20.uf." + sub, "UnionFind." + callee, kind, icls,
                          {"after": hist_ev, "model_partition": sorted(map(sorted_repr, part)), **detail})
        if u.n_elts != n or len(u) != n:
            bad("counts", "n_elts", "mismatch:n_elts", {"got": u.n_elts, "want": n})
        if u.n_comps != len(part):
            bad("counts", "n_comps", "mismatch:n_comps", {"got": u.n_comps, "want": len(part)})
        # connected <=> same block
        for x in st.order:
            for y in st.order:
                o = call(u.connected, x, y)
                want = st.blocks[x] is st.blocks[y] or st.blocks[x] == st.blocks[y]
                if not o.ok:
                    bad("connected", "connected", exc_kind(o), {"x": x, "y": y})
                elif bool(o.value) != want:
                    bad("connected", "connected", "mismatch:connected", {"x": x, "y": y, "got": o.value})
        u = copy.deepcopy(st.uf)        # every query kind is the FIRST query on its own copy (no path compression by an earlier one)
        o = call(u.roots)
        if not o.ok:
            bad("roots", "roots", exc_kind(o), {"msg": o.msg})
        elif len(o.value) != len(part):
            bad("roots", "roots", "mismatch:n_roots", {"got": len(o.value), "want": len(part)})
        u = copy.deepcopy(st.uf)
        o = call(u.components)
        if not o.ok:
            bad("components", "components", exc_kind(o), {"msg": o.msg})
        else:
            got = [tuple(_norm_elt(e) for e in c) for c in o.value]
            flat = [e for c in got for e in c]
            if sorted(map(repr, flat)) != sorted(map(repr, st.order)):
                bad("components", "components", "mismatch:cover", {"got": got})
            elif frozenset(frozenset(c) for c in got) != part:
                bad("components", "components", "mismatch:partition", {"got": got})
        u = copy.deepcopy(st.uf)
        o = call(u.component_mapping)
        if not o.ok:
            bad("component_mapping", "component_mapping", exc_kind(o), {"msg": o.msg})
        else:
            got = {_norm_elt(k): frozenset(_norm_elt(e) for e in v) for k, v in o.value.items()}
            if got != dict(st.blocks):
                bad("component_mapping", "component_mapping", "mismatch:mapping",
                    {"got": {repr(k): sorted_repr(v) for k, v in got.items()}})
        for x in st.order:
            u = copy.deepcopy(st.uf)
            o = call(u.component, x)
            if not o.ok:
                bad("component", "component", exc_kind(o), {"x": x, "msg": o.msg})
            elif frozenset(_norm_elt(e) for e in o.value) != st.blocks[x]:
                bad("component", "component", "mismatch:component", {"x": x, "got": sorted_repr(o.value)})
            if (x in u) is not True:
                bad("contains", "__contains__", "mismatch:contains", {"x": x})

    def apply(st: UFState, ev):
        kind = ev[0]
        u = st.uf
        before = st.partition()
        present = lambda x: x in st.blocks
        if kind == "add":
            o = call(u.add, ev[1]); st.m_add(ev[1]); want = ("ok", None)
        elif kind == "union":
            o = call(u.union, ev[1], ev[2]); st.m_union(ev[1], ev[2]); want = ("ok", None)
        elif kind == "find":
            o = call(u.find, ev[1]); want = ("ok", "root") if present(ev[1]) else ("raise", "ValueError")
        elif kind == "connected":
            if present(ev[1]) and present(ev[2]):
                want = ("ok", st.blocks[ev[1]] == st.blocks[ev[2]])
            else:
                want = ("raise", "ValueError")
            o = call(u.connected, ev[1], ev[2])
        elif kind == "component":
            o = call(u.component, ev[1])
            want = ("ok", st.blocks[ev[1]]) if present(ev[1]) else ("raise", "ValueError")
        elif kind == "components":
            o = call(u.components); want = ("ok", before)
        elif kind == "component_mapping":
            o = call(u.component_mapping); want = ("ok", dict(st.blocks))
        elif kind == "roots":
            o = call(u.roots); want = ("ok", len(before))
        elif kind == "len":
            o = call(len, u); want = ("ok", len(st.order))
        elif kind == "in":
            o = call(lambda: ev[1] in u); want = ("ok", present(ev[1]))
        # ---- compare this event's own answer
        obs = None
        sub = "C20.uf.event." + kind
        callee = "UnionFind." + kind
        if want[0] == "raise":
            if o.ok:
                rep.violation(sub, callee, "mismatch:should_raise", icls, {"event": ev, "got": repr(o.value)})
            obs = ("raise", o.exc)
        elif not o.ok:
            rep.violation(sub, callee, exc_kind(o), icls, {"event": ev, "msg": o.msg, "history": "see task"})
            obs = ("raise", o.exc)
        else:
            v = o.value
            if kind == "find":
                got = "root" if isinstance(v, int) or hasattr(v, "__index__") else v
            elif kind == "component":
                got = frozenset(_norm_elt(e) for e in v)
            elif kind == "components":
                got = frozenset(frozenset(_norm_elt(e) for e in c) for c in v)
            elif kind == "component_mapping":
                got = {_norm_elt(k): frozenset(_norm_elt(e) for e in c) for k, c in v.items()}
            elif kind == "roots":
                got = len(v)
            elif kind in ("connected", "in"):
                got = bool(v)
            else:
                got = v
            if got != want[1]:
                rep.violation(sub, callee, "mismatch:answer", icls, {"event": ev, "got": repr(got), "want": repr(want[1])})
            obs = ("ok", repr(got))
        rep.outcome(kind, obs)
        return obs

    def key_of(st: UFState):
        return (canon(st.uf), tuple(st.order), frozenset(st.blocks.items()))

    def on_state(st, hist):
        check_invariants(st, list(hist))     # invariants are a function of the state: once per distinct state
        if st.order:
            rep.case((icls, key_of(st)))
        if len(hist) == 3:
            rep.sample({"alphabet": alpha, "init": task["init"], "history": hist})
        if len(st.partition()) < len(st.order):
            rep.flag("uf:nontrivial-block")
        if len(st.order) > 3:
            rep.flag("uf:absent-element-added")

    if task.get("schedule") == "binomial8":
        # Deep forests: 8 elements merged by unions of equal-size components only (the schedules that make the
        # weighted forest as deep as it can get: depth 3). Every perfect matching of the 8 elements x both argument
        # orders of every union, then every pairing of the 4 blocks, then the last union; after every union every
        # query kind is asked as the FIRST query on its own deep copy.
        import itertools
        def matchings(xs):
            if not xs:
                yield []; return
            a = xs[0]
            for i in range(1, len(xs)):
                for rest in matchings(xs[1:i] + xs[i + 1:]):
                    yield [(a, xs[i])] + rest
        ms = list(matchings(list(range(8))))
        assert len(ms) == 105
        nst = 0
        for mi in range(task["lo"], task["hi"]):
            M1 = ms[mi]
            for o1 in itertools.product((0, 1), repeat=4):
                pairs1 = [(a, b) if o == 0 else (b, a) for (a, b), o in zip(M1, o1)]
                for M2 in matchings([0, 1, 2, 3]):          # pairing of the four blocks (by index in M1)
                    for o2 in itertools.product((0, 1), repeat=2):
                        pairs2 = [(M1[i][0], M1[j][1]) if o == 0 else (M1[j][1], M1[i][0]) for (i, j), o in zip(M2, o2)]
                        for o3 in (0, 1):
                            a, b = M1[M2[0][0]][0], M1[M2[1][0]][0]
                            sched = pairs1 + pairs2 + [(a, b) if o3 == 0 else (b, a)]
                            st = UFState(UnionFind, list(range(8)), "prefilled")
                            for (x, y) in sched:
                                st.uf.union(x, y); st.m_union(x, y)
                            check_invariants(st, [["union", x, y] for x, y in sched])
                            nst += 1
                            rep.case(("binomial8", tuple(st.uf._par)))
                            if max(_depths(st.uf)) >= 3:
                                rep.flag("uf:forest_depth>=3")
        rep.states += nst; rep.transitions += 7 * nst; rep.traces += nst
        rep.count("uf_binomial8_schedules", nst)
        return
    res = bfs(make, lambda st: events, apply, key_of, task["depth"], on_state=on_state)
    rep.states += res["states"]
    rep.transitions += res["transitions"]
    rep.traces += res["transitions"]        # every transition = one history replayed on fresh real objects
    rep.count("uf_states:" + alpha, res["states"])


def _depths(uf):
    out = []
    for i in range(len(uf._par)):
        d, p = 0, i
        while uf._par[p] != p:
            p = uf._par[p]; d += 1
        out.append(d)
    return out


def sorted_repr(s):
    return sorted(map(repr, s))


# ------------------------------------------------------------------------------------------------
PRIOS = [0.0, 1.0, -1.0, math.inf, -math.inf]
PRIOS_CLOSE = [10 ** 10, 10 ** 10 + 1, -10 ** 10, -10 ** 10 - 1, 1.0, 1.0 + 2.0 ** -40, 1e-300, 2e-300]
ITEMS = ["a", "b"]


class PQState:
    def __init__(self, PriorityQueue):
        self.q = PriorityQueue()
        self.model = []   # multiset of (x, p)


def _run_pq(task, rep: Report):
    from mouette.utils import PriorityQueue
    prios = PRIOS_CLOSE if task.get("prios") == "close" else PRIOS
    events = [("push", x, p) for p in prios for x in task.get("items", ITEMS)] + [("get",), ("pop",), ("front",), ("empty",)]
    icls = "pq"

    prefix = [tuple(e) for e in task.get("prefix", [])]

    def make():
        st = PQState(PriorityQueue)
        for e in prefix:            # the task's share of the search: all histories starting with `prefix`
            apply(st, e)
        return st

    def apply(st: PQState, ev):
        kind = ev[0]
        q = st.q
        sub, callee = "C20.pq." + kind, "PriorityQueue." + kind
        if kind == "push":
            o = call(q.push, ev[1], ev[2]); st.model.append((ev[1], ev[2]))
            if not o.ok:
                rep.violation(sub, callee, exc_kind(o), icls, {"event": ev})
            obs = ("ok",)
        elif kind in ("get", "pop", "front"):
            o = call((lambda: q.front) if kind == "front" else getattr(q, kind))
            if not st.model:
                if o.ok:
                    rep.violation(sub, callee, "mismatch:value_from_empty_queue", icls, {"got": repr(o.value)})
                obs = ("raise", o.exc)
            elif not o.ok:
                rep.violation(sub, callee, exc_kind(o), icls, {"pending": st.model, "msg": o.msg})
                obs = ("raise", o.exc)
            else:
                item = (o.value.x, o.value.priority)
                pmin = min(p for _, p in st.model)
                if item not in st.model:
                    rep.violation(sub, callee, "mismatch:not_pending", icls, {"got": item, "pending": st.model})
                elif item[1] != pmin:
                    rep.violation(sub, callee, "mismatch:not_minimum", icls, {"got": item, "pending": st.model})
                if kind != "front" and item in st.model:
                    st.model.remove(item)
                obs = ("ok", item)
        else:
            o = call(q.empty)
            if not o.ok:
                rep.violation(sub, callee, exc_kind(o), icls, {})
            elif bool(o.value) != (not st.model):
                rep.violation(sub, callee, "mismatch:empty", icls, {"got": o.value, "pending": st.model})
            obs = ("ok", bool(o.value) if o.ok else None)
        rep.outcome(kind, obs)
        return obs

    def invariants(st, ev):
        q = st.q
        rep.evaluations += 1
        if bool(q.empty()) != (not st.model):
            rep.violation("C20.pq.invariant", "PriorityQueue.empty", "mismatch:empty", icls, {"after": ev, "pending": st.model})
        # drain a deep copy: must hand out exactly the pending multiset in non-decreasing priority order
        qc = copy.deepcopy(q)
        out = []
        for _ in range(len(st.model) + 2):
            if qc.empty():
                break
            it = qc.get(); out.append((it.x, it.priority))
        if sorted(out, key=repr) != sorted(st.model, key=repr):
            rep.violation("C20.pq.invariant", "PriorityQueue.get", "mismatch:drain_multiset", icls,
                          {"after": ev, "drained": out, "pending": st.model})
        elif any(out[i][1] > out[i + 1][1] for i in range(len(out) - 1)):
            rep.violation("C20.pq.invariant", "PriorityQueue.get", "mismatch:drain_order", icls,
                          {"after": ev, "drained": out})

    def key_of(st):
        return (canon(st.q), tuple(sorted(st.model, key=repr)))

    def on_state(st, hist):
        invariants(st, list(hist))
        if st.model:
            rep.case(("pq", key_of(st)))
        if len(hist) == 4:
            rep.sample({"pq_history": hist})
        ps = [p for _, p in st.model]
        if len(ps) != len(set(ps)):
            rep.flag("pq:tie")
        if any(math.isinf(p) for p in ps):
            rep.flag("pq:inf")
        if any(a != b and abs(a - b) <= 1e-9 * max(abs(a), abs(b)) for a in ps for b in ps if not (math.isinf(a) or math.isinf(b))):
            rep.flag("pq:close_priorities")

    res = bfs(make, lambda st: events, apply, key_of, task["depth"], on_state=on_state)
    rep.states += res["states"]
    rep.transitions += res["transitions"]
    rep.traces += res["transitions"]        # every transition = one history replayed on fresh real objects
    rep.count("pq_states", res["states"])


def run_task(task, rep: Report):
    # events carry lists after the JSON round trip; normalise elements to hashables
    if task["kind"] == "uf":
        _run_uf(task, rep)
    else:
        _run_pq(task, rep)


def finish(tier, rep: Report):
    fails = []
    for f in ("uf:nontrivial-block", "uf:absent-element-added", "uf:forest_depth>=3", "pq:tie", "pq:inf", "pq:close_priorities"):
        if f not in rep.flags:
            fails.append("coverage flag missing: " + f)
    for kind in ("find", "connected", "get", "empty", "in"):
        if len(rep.outcomes.get(kind, ())) < 2:
            fails.append(f"event kind {kind} produced a single outcome")
    return fails
