"""C20 - union-find and priority queue conform to their abstract models (S1: history BFS).

Every history of API calls up to the depth bound is executed on the real objects, with a reference
model (list of frozensets / multiset) stepped in lockstep.  States are deduplicated on the canonical
dump of the real object (path-compression layout included) together with the model.
"""
from __future__ import annotations
import copy, math
from mc.core import Report, call, exc_kind
from mc.canon import canon
from mc.explore import bfs

ID = "C20"
RULE = ("explicit-state BFS over all call histories (add/union/find/connected/component/components/"
        "component_mapping/roots/len/in; push/get/pop/front/empty) up to the depth bound, over int, tuple, "
        "string and mixed element alphabets, from the empty and from a pre-filled structure; a case is one "
        "distinct (real-object canonical dump, model) state; non-trivial = at least one element/item present. "
        "Deviations from the default execution, each enumerated for the whole family: (i) constructor argument "
        "forms of the union-find (tuple / one-shot generator / generator with repeats / dict keys / set / numpy "
        "array / the caller's list edited after the call), with every container a query returns wrecked by the "
        "caller before the next event; (ii) priority NUMBER forms of the queue (python int, bool, ints beyond "
        "2^53 and beyond the range of a double, Fraction, Decimal, numpy scalars, mixed exact types, extreme and "
        "signed-zero floats) with one distinguishable payload per push and every item handed out by get/pop "
        "mutated by the caller afterwards, judged by an exact rational key; (iii) PAYLOAD forms of the queue "
        "(strings, ints, None, mixed tuples, dict, list, set, numpy arrays, plain objects, objects whose every "
        "comparison raises, complex, nan, a PriorityItem, a (priority, item)-shaped tuple, a class, bytes) "
        "meeting each other under equal and unequal priorities; (iv) large / long specimens: 300, 2000 (thorough: "
        "6000) elements / items under 7 fixed union schedules (chains both ways, stars both ways, equal-size merges, "
        "two interleaved components, blocks of 7) x 2 element forms and 7 priority patterns x 2 push/get schedules, "
        "every answer compared with the model at three checkpoints (all pairs up to 300 elements, neighbours / "
        "mirror pairs / a fixed stride beyond)")
ASSUMPTIONS = ["elements restricted to the 3-4 element alphabets listed in the tasks; priorities to {-inf,-1,0,1,inf} and, in a third queue family, to values close to each other relative to their magnitude {1e10, 1e10+1, -1e10, -1e10-1, 1, 1+2^-40, 1e-300, 2e-300}",
               "depth bound as given in coverage.bounds; all histories below it are explored (no sampling)",
               "priority number forms: the eight alphabets of _prio_alphabets() (5-9 values each); priorities inside one alphabet are mutually comparable by python's exact mixed-type comparison (no Decimal next to Fraction, no numpy scalar next to an int beyond 64 bits); NaN is not a priority (no minimum exists)",
               "payload forms: the 23 objects of _payload_objects(); a payload is identified by (type, stable repr), never by ==; the statement does not let the payload influence the order, so any exception out of push/get/pop/front is a violation whatever the payload",
               "large specimens: fixed schedules, no search over histories; beyond 300 elements connected() is asked on 3n pairs (neighbours, mirror pairs, stride 97) and component() on every 61st element - a rule, not a random draw",
               "constructor forms of the union-find: numpy arrays only for the int and string alphabets (rows of a 2-D array are not hashable), sets only for the int and tuple alphabets (iteration order independent of the hash seed)"]
BOUNDS = {"quick": "union-find depth 4 (ints: 5); constructor forms x 4 alphabets depth 3; priority queue depth 5 with two item names, depth 7 with one item name, priorities {0,1,-1,inf,-inf}; depth 4 on the close-priority alphabet; depth 4 on each of the 8 priority-number-form alphabets; payload forms: all 23 objects at one tie priority (+2 objects at -1 / 1) depth 3, and the 23 cyclic-neighbour pairs x priorities {0,1} depth 4; large specimens n = 300 and 2000 (14 union-find + 14 queue runs each)",
          "thorough": "union-find depth 6 (ints: 7); constructor forms depth 4; priority queue depth 7 with two item names, depth 9 with one; depth 6 on the close-priority alphabet; depth 5 on the priority-number-form alphabets; payload forms: all objects depth 4, all 253 pairs depth 5; large specimens n = 300, 2000 and 6000"}

ALPHABETS = {
    "ints": [0, 1, 2, 3],
    "tuples": [[0, 1], [1, 0], [2, 2]],
    "strs": ["a", "b", "ab"],
    "mixed": [0, "a", [0, 1]],
}
ABSENT = {"ints": 7, "tuples": [9, 9], "strs": "zz", "mixed": "q"}


def tasks(tier):
    d = {"quick": 4, "thorough": 6}[tier]
    out = []
    for alpha in ALPHABETS:
        for init in ("empty", "prefilled", "prefilled_dup"):
            out.append({"kind": "uf", "alphabet": alpha, "init": init,
                        "depth": d + (1 if alpha == "ints" else 0)})
    for lo in range(0, 105, 7):
        out.append({"kind": "uf", "alphabet": "ints", "init": "prefilled", "depth": 0, "schedule": "binomial8", "lo": lo, "hi": lo + 7})
    # Priority queue. The search is split by the first event (every history of length >= 1 starts with exactly one
    # of them); the task with the empty prefix explores depth 1 only so that the initial state is covered too.
    # Family A: two distinguishable items (ties between different items), family B: one item name, deeper (heap
    # shape defects need >= 6 pending items).
    out.append({"kind": "pq", "depth": 1, "prefix": [], "items": ["a", "b"]})
    for items, d in ((["a", "b"], {"quick": 5, "thorough": 7}[tier]), (["a"], {"quick": 7, "thorough": 9}[tier])):
        for ev in [["push", x, p] for p in PRIOS for x in items] + [["get"], ["pop"], ["front"], ["empty"]]:
            out.append({"kind": "pq", "depth": d - 1, "prefix": [ev], "items": items})
    # Family C: priorities that differ by little relative to their magnitude (large integers one apart, floats one part
    # in 2^40 apart, tiny floats) - a comparison with a tolerance would order them wrongly
    dm = {"quick": 4, "thorough": 6}[tier]
    for p in PRIOS_CLOSE:
        out.append({"kind": "pq", "depth": dm - 1, "prefix": [["push", "a", p]], "items": ["a"], "prios": "close"})
    # Union-find, constructor argument forms: every iterable form x every alphabet, all histories of depth 3 / 4 after
    # the construction; in this family every container handed back by a query is wrecked before the next event.
    du = {"quick": 3, "thorough": 4}[tier]
    for alpha in ALPHABETS:
        for form in INIT_FORMS:
            if init_form_applies(form, alpha):
                out.append({"kind": "uf", "alphabet": alpha, "init": "form:" + form, "depth": du, "wreck_results": True})
    # Large / long specimens (family L): element ids and heap positions far above 256, thousands of operations on
    # one object; fixed union / push schedules (no search), every answer compared with the model at three checkpoints.
    for n in {"quick": (300, 2000), "thorough": (300, 2000, 6000)}[tier]:
        for pat in UF_LARGE_PATTERNS:
            for eform in ("int_offset", "str"):
                out.append({"kind": "large", "what": "uf", "pattern": pat, "n": n, "elements": eform})
        for pat in PQ_LARGE_PATTERNS:
            for sched in ("fill_then_drain", "push2_get1"):
                out.append({"kind": "large", "what": "pq", "pattern": pat, "n": n, "schedule": sched})
    # Priority queue, family D: priority NUMBER forms (type and magnitude of the priority values). One task per first
    # push (a failed get on the empty queue leaves the initial state, so this split loses nothing) plus the empty prefix.
    dd = {"quick": 4, "thorough": 5}[tier]
    for name, vals in _prio_alphabets().items():
        out.append({"kind": "pqf", "family": "prio", "alphabet": name, "depth": 1, "prefix": []})
        for i in range(len(vals)):
            out.append({"kind": "pqf", "family": "prio", "alphabet": name, "depth": dd - 1, "prefix": [["push", -1, i]]})
    # Family E: PAYLOAD forms. E1: every object of the payload table at one tie priority (plus two objects at -1 / 1);
    # E2: pairs of objects x priorities {0, 1}, deeper.
    nobj = len(PAYLOAD_NAMES)
    de = {"quick": 3, "thorough": 4}[tier]
    out.append({"kind": "pqf", "family": "payload", "objs": "all", "depth": 1, "prefix": []})
    for ev in _payload_all_pushes():
        out.append({"kind": "pqf", "family": "payload", "objs": "all", "depth": de - 1, "prefix": [ev]})
    if tier == "quick":
        pairs = [(i, (i + 1) % nobj) for i in range(nobj)]
    else:
        pairs = [(i, j) for i in range(nobj) for j in range(i + 1, nobj)]
    for (i, j) in pairs:
        out.append({"kind": "pqf", "family": "payload", "objs": [i, j], "depth": {"quick": 4, "thorough": 5}[tier], "prefix": []})
    return out


# Constructor argument forms of the union-find (family U2)
INIT_FORMS = ["tuple", "generator", "generator_dup", "dict_keys", "set", "ndarray", "list_edited_after"]


def init_form_applies(form, alpha):
    if form == "ndarray":
        return alpha in ("ints", "strs")       # rows of a 2-D array (tuples) are not hashable; mixed would become strings
    if form == "set":
        return alpha in ("ints", "tuples")     # iteration order independent of PYTHONHASHSEED
    return True


def _build_by_form(UnionFind, form, elements, absent):
    """-> (union-find, elements in the order the iterable yields them, without repeats)"""
    import numpy as np
    if form == "tuple":
        arg = tuple(elements)
    elif form == "generator":
        arg = (e for e in list(elements))
    elif form == "generator_dup":
        arg = (e for e in list(elements) + list(reversed(elements)))
    elif form == "dict_keys":
        arg = dict.fromkeys(elements, "payload").keys()
    elif form == "set":
        arg = set(elements)
    elif form == "ndarray":
        arg = np.array(elements)
    elif form == "list_edited_after":
        arg = list(elements)
    else:
        raise AssertionError(form)
    order = []
    if form in ("set",):
        for e in arg:                           # the order the library will see too (same object, same process)
            order.append(e)
    else:
        for e in elements:
            if e not in order:
                order.append(e)
    uf = UnionFind(arg)
    if form == "list_edited_after":             # the caller goes on using its own list
        arg.reverse(); arg.pop(); arg.append(absent); arg.append(absent)
    return uf, order


def _el(x):
    return tuple(x) if isinstance(x, list) else x


# ------------------------------------------------------------------------------------------------
class UFState:
    def __init__(self, UnionFind, elements, init, absent=None):
        if init == "prefilled":
            self.uf = UnionFind(list(elements))
            self.order = list(elements)
        elif init == "prefilled_dup":       # the constructor is given an iterable with repeated elements
            self.uf = UnionFind(list(elements) + [elements[0], elements[-1]])
            self.order = list(elements)
        elif init.startswith("form:"):      # constructor argument forms
            self.uf, self.order = _build_by_form(UnionFind, init[5:], list(elements), absent)
        else:
            self.uf = UnionFind()
            self.order = []
        self.blocks = {e: frozenset([e]) for e in self.order}   # element -> block

    # reference model
    def m_add(self, x):
        if x not in self.blocks:
            self.blocks[x] = frozenset([x]); self.order.append(x)

    def m_union(self, x, y):
        self.m_add(x); self.m_add(y)
        b = self.blocks[x] | self.blocks[y]
        for e in b:
            self.blocks[e] = b

    def partition(self):
        return frozenset(self.blocks.values())


def _norm_elt(x):
    """numpy scalars / arrays coming back from the library -> python values, for comparison."""
    import numpy as np
    if isinstance(x, np.ndarray):
        return tuple(_norm_elt(v) for v in x.tolist())
    if isinstance(x, np.generic):
        return x.item()
    if isinstance(x, list):
        return tuple(x)
    return x


def _uf_events(elements, absent):
    evs = []
    el = list(elements) + [absent]
    for x in el:
        evs.append(("add", x))
    for x in el:
        for y in el:
            evs.append(("union", x, y))
    for x in el:
        evs.append(("find", x))
    for x in el:
        for y in el:
            evs.append(("connected", x, y))
    for x in el:
        evs.append(("component", x))
    evs += [("components",), ("component_mapping",), ("roots",), ("len",)]
    for x in el:
        evs.append(("in", x))
    return evs


def _run_uf(task, rep: Report):
    from mouette.utils import UnionFind
    alpha = task["alphabet"]
    elements = [_el(x) for x in ALPHABETS[alpha]]
    absent = _el(ABSENT[alpha])
    # 'absent' is a legal element too (add/union may introduce it); it is merely not pre-filled.
    events = _uf_events(elements[:3], absent)
    icls = f"uf:{alpha}:{task['init']}"

    def make():
        return UFState(UnionFind, elements[:3], task["init"], absent)

    def check_invariants(st: UFState, hist_ev):
        """Evaluate every clause of the statement on a deep copy (queries compress paths)."""
        u = copy.deepcopy(st.uf)
        part = st.partition()
        n = len(st.order)
        rep.evaluations += 1

        def bad(sub, callee, kind, detail):
            rep.violation("C20.uf." + sub, "UnionFind." + callee, kind, icls,
                          {"after": hist_ev, "model_partition": sorted(map(sorted_repr, part)), **detail})
        if u.n_elts != n or len(u) != n:
            bad("counts", "n_elts", "mismatch:n_elts", {"got": u.n_elts, "want": n})
        if u.n_comps != len(part):
            bad("counts", "n_comps", "mismatch:n_comps", {"got": u.n_comps, "want": len(part)})
        # connected <=> same block
        for x in st.order:
            for y in st.order:
                o = call(u.connected, x, y)
                want = st.blocks[x] is st.blocks[y] or st.blocks[x] == st.blocks[y]
                if not o.ok:
                    bad("connected", "connected", exc_kind(o), {"x": x, "y": y})
                elif bool(o.value) != want:
                    bad("connected", "connected", "mismatch:connected", {"x": x, "y": y, "got": o.value})
        u = copy.deepcopy(st.uf)        # every query kind is the FIRST query on its own copy (no path compression by an earlier one)
        o = call(u.roots)
        if not o.ok:
            bad("roots", "roots", exc_kind(o), {"msg": o.msg})
        elif len(o.value) != len(part):
            bad("roots", "roots", "mismatch:n_roots", {"got": len(o.value), "want": len(part)})
        u = copy.deepcopy(st.uf)
        o = call(u.components)
        if not o.ok:
            bad("components", "components", exc_kind(o), {"msg": o.msg})
        else:
            got = [tuple(_norm_elt(e) for e in c) for c in o.value]
            flat = [e for c in got for e in c]
            if sorted(map(repr, flat)) != sorted(map(repr, st.order)):
                bad("components", "components", "mismatch:cover", {"got": got})
            elif frozenset(frozenset(c) for c in got) != part:
                bad("components", "components", "mismatch:partition", {"got": got})
        u = copy.deepcopy(st.uf)
        o = call(u.component_mapping)
        if not o.ok:
            bad("component_mapping", "component_mapping", exc_kind(o), {"msg": o.msg})
        else:
            got = {_norm_elt(k): frozenset(_norm_elt(e) for e in v) for k, v in o.value.items()}
            if got != dict(st.blocks):
                bad("component_mapping", "component_mapping", "mismatch:mapping",
                    {"got": {repr(k): sorted_repr(v) for k, v in got.items()}})
        for x in st.order:
            u = copy.deepcopy(st.uf)
            o = call(u.component, x)
            if not o.ok:
                bad("component", "component", exc_kind(o), {"x": x, "msg": o.msg})
            elif frozenset(_norm_elt(e) for e in o.value) != st.blocks[x]:
                bad("component", "component", "mismatch:component", {"x": x, "got": sorted_repr(o.value)})
            if (x in u) is not True:
                bad("contains", "__contains__", "mismatch:contains", {"x": x})

    def apply(st: UFState, ev):
        kind = ev[0]
        u = st.uf
        before = st.partition()
        present = lambda x: x in st.blocks
        if kind == "add":
            o = call(u.add, ev[1]); st.m_add(ev[1]); want = ("ok", None)
        elif kind == "union":
            o = call(u.union, ev[1], ev[2]); st.m_union(ev[1], ev[2]); want = ("ok", None)
        elif kind == "find":
            o = call(u.find, ev[1]); want = ("ok", "root") if present(ev[1]) else ("raise", "ValueError")
        elif kind == "connected":
            if present(ev[1]) and present(ev[2]):
                want = ("ok", st.blocks[ev[1]] == st.blocks[ev[2]])
            else:
                want = ("raise", "ValueError")
            o = call(u.connected, ev[1], ev[2])
        elif kind == "component":
            o = call(u.component, ev[1])
            want = ("ok", st.blocks[ev[1]]) if present(ev[1]) else ("raise", "ValueError")
        elif kind == "components":
            o = call(u.components); want = ("ok", before)
        elif kind == "component_mapping":
            o = call(u.component_mapping); want = ("ok", dict(st.blocks))
        elif kind == "roots":
            o = call(u.roots); want = ("ok", len(before))
        elif kind == "len":
            o = call(len, u); want = ("ok", len(st.order))
        elif kind == "in":
            o = call(lambda: ev[1] in u); want = ("ok", present(ev[1]))
        # ---- compare this event's own answer
        obs = None
        sub = "C20.uf.event." + kind
        callee = "UnionFind." + kind
        if want[0] == "raise":
            if o.ok:
                rep.violation(sub, callee, "mismatch:should_raise", icls, {"event": ev, "got": repr(o.value)})
            obs = ("raise", o.exc)
        elif not o.ok:
            rep.violation(sub, callee, exc_kind(o), icls, {"event": ev, "msg": o.msg, "history": "see task"})
            obs = ("raise", o.exc)
        else:
            v = o.value
            if kind == "find":
                got = "root" if isinstance(v, int) or hasattr(v, "__index__") else v
            elif kind == "component":
                got = frozenset(_norm_elt(e) for e in v)
            elif kind == "components":
                got = frozenset(frozenset(_norm_elt(e) for e in c) for c in v)
            elif kind == "component_mapping":
                got = {_norm_elt(k): frozenset(_norm_elt(e) for e in c) for k, c in v.items()}
            elif kind == "roots":
                got = len(v)
            elif kind in ("connected", "in"):
                got = bool(v)
            else:
                got = v
            if got != want[1]:
                rep.violation(sub, callee, "mismatch:answer", icls, {"event": ev, "got": repr(got), "want": repr(want[1])})
            obs = ("ok", repr(got))
            if task.get("wreck_results") and kind in ("component", "components", "component_mapping", "roots"):
                _wreck(v)                    # the caller owns what a query hands back: later answers must not depend on it
                rep.count("uf_results_wrecked")
        rep.outcome(kind, obs)
        return obs

    def key_of(st: UFState):
        return (canon(st.uf), tuple(st.order), frozenset(st.blocks.items()))

    def on_state(st, hist):
        check_invariants(st, list(hist))     # invariants are a function of the state: once per distinct state
        if st.order:
            rep.case((icls, key_of(st)))
        if len(hist) == 3:
            rep.sample({"alphabet": alpha, "init": task["init"], "history": hist})
        if len(st.partition()) < len(st.order):
            rep.flag("uf:nontrivial-block")
        if len(st.order) > 3:
            rep.flag("uf:absent-element-added")

    if task.get("schedule") == "binomial8":
        # Deep forests: 8 elements merged by unions of equal-size components only (the schedules that make the
        # weighted forest as deep as it can get: depth 3). Every perfect matching of the 8 elements x both argument
        # orders of every union, then every pairing of the 4 blocks, then the last union; after every union every
        # query kind is asked as the FIRST query on its own deep copy.
        import itertools
        def matchings(xs):
            if not xs:
                yield []; return
            a = xs[0]
            for i in range(1, len(xs)):
                for rest in matchings(xs[1:i] + xs[i + 1:]):
                    yield [(a, xs[i])] + rest
        ms = list(matchings(list(range(8))))
        assert len(ms) == 105
        nst = 0
        for mi in range(task["lo"], task["hi"]):
            M1 = ms[mi]
            for o1 in itertools.product((0, 1), repeat=4):
                pairs1 = [(a, b) if o == 0 else (b, a) for (a, b), o in zip(M1, o1)]
                for M2 in matchings([0, 1, 2, 3]):          # pairing of the four blocks (by index in M1)
                    for o2 in itertools.product((0, 1), repeat=2):
                        pairs2 = [(M1[i][0], M1[j][1]) if o == 0 else (M1[j][1], M1[i][0]) for (i, j), o in zip(M2, o2)]
                        for o3 in (0, 1):
                            a, b = M1[M2[0][0]][0], M1[M2[1][0]][0]
                            sched = pairs1 + pairs2 + [(a, b) if o3 == 0 else (b, a)]
                            st = UFState(UnionFind, list(range(8)), "prefilled")
                            for (x, y) in sched:
                                st.uf.union(x, y); st.m_union(x, y)
                            check_invariants(st, [["union", x, y] for x, y in sched])
                            nst += 1
                            rep.case(("binomial8", tuple(st.uf._par)))
                            if max(_depths(st.uf)) >= 3:
                                rep.flag("uf:forest_depth>=3")
        rep.states += nst; rep.transitions += 7 * nst; rep.traces += nst
        rep.count("uf_binomial8_schedules", nst)
        return
    res = bfs(make, lambda st: events, apply, key_of, task["depth"], on_state=on_state)
    rep.states += res["states"]
    rep.transitions += res["transitions"]
    rep.traces += res["transitions"]        # every transition = one history replayed on fresh real objects
    rep.count("uf_states:" + alpha, res["states"])
    if task["init"].startswith("form:"):
        rep.flag("uf:initform:" + task["init"][5:])
        rep.count("uf_initform_states", res["states"])


def _wreck(v):
    """Empty, in place, a container returned by a query and every container inside it."""
    if isinstance(v, dict):
        for c in list(v.values()):
            _wreck(c)
        v.clear()
    elif isinstance(v, list):
        for c in v:
            _wreck(c)
        v.clear()
    elif isinstance(v, set):
        v.clear()


def _depths(uf):
    out = []
    for i in range(len(uf._par)):
        d, p = 0, i
        while uf._par[p] != p:
            p = uf._par[p]; d += 1
        out.append(d)
    return out


def sorted_repr(s):
    return sorted(map(repr, s))


# ------------------------------------------------------------------------------------------------
PRIOS = [0.0, 1.0, -1.0, math.inf, -math.inf]
PRIOS_CLOSE = [10 ** 10, 10 ** 10 + 1, -10 ** 10, -10 ** 10 - 1, 1.0, 1.0 + 2.0 ** -40, 1e-300, 2e-300]
ITEMS = ["a", "b"]


class PQState:
    def __init__(self, PriorityQueue):
        self.q = PriorityQueue()
        self.model = []   # multiset of (x, p)


def _run_pq(task, rep: Report):
    from mouette.utils import PriorityQueue
    prios = PRIOS_CLOSE if task.get("prios") == "close" else PRIOS
    events = [("push", x, p) for p in prios for x in task.get("items", ITEMS)] + [("get",), ("pop",), ("front",), ("empty",)]
    icls = "pq"

    prefix = [tuple(e) for e in task.get("prefix", [])]

    def make():
        st = PQState(PriorityQueue)
        for e in prefix:            # the task's share of the search: all histories starting with `prefix`
            apply(st, e)
        return st

    def apply(st: PQState, ev):
        kind = ev[0]
        q = st.q
        sub, callee = "C20.pq." + kind, "PriorityQueue." + kind
        if kind == "push":
            o = call(q.push, ev[1], ev[2]); st.model.append((ev[1], ev[2]))
            if not o.ok:
                rep.violation(sub, callee, exc_kind(o), icls, {"event": ev})
            obs = ("ok",)
        elif kind in ("get", "pop", "front"):
            o = call((lambda: q.front) if kind == "front" else getattr(q, kind))
            if not st.model:
                if o.ok:
                    rep.violation(sub, callee, "mismatch:value_from_empty_queue", icls, {"got": repr(o.value)})
                obs = ("raise", o.exc)
            elif not o.ok:
                rep.violation(sub, callee, exc_kind(o), icls, {"pending": st.model, "msg": o.msg})
                obs = ("raise", o.exc)
            else:
                item = (o.value.x, o.value.priority)
                pmin = min(p for _, p in st.model)
                if item not in st.model:
                    rep.violation(sub, callee, "mismatch:not_pending", icls, {"got": item, "pending": st.model})
                elif item[1] != pmin:
                    rep.violation(sub, callee, "mismatch:not_minimum", icls, {"got": item, "pending": st.model})
                if kind != "front" and item in st.model:
                    st.model.remove(item)
                obs = ("ok", item)
        else:
            o = call(q.empty)
            if not o.ok:
                rep.violation(sub, callee, exc_kind(o), icls, {})
            elif bool(o.value) != (not st.model):
                rep.violation(sub, callee, "mismatch:empty", icls, {"got": o.value, "pending": st.model})
            obs = ("ok", bool(o.value) if o.ok else None)
        rep.outcome(kind, obs)
        return obs

    def invariants(st, ev):
        q = st.q
        rep.evaluations += 1
        if bool(q.empty()) != (not st.model):
            rep.violation("C20.pq.invariant", "PriorityQueue.empty", "mismatch:empty", icls, {"after": ev, "pending": st.model})
        # drain a deep copy: must hand out exactly the pending multiset in non-decreasing priority order
        qc = copy.deepcopy(q)
        out = []
        for _ in range(len(st.model) + 2):
            if qc.empty():
                break
            it = qc.get(); out.append((it.x, it.priority))
        if sorted(out, key=repr) != sorted(st.model, key=repr):
            rep.violation("C20.pq.invariant", "PriorityQueue.get", "mismatch:drain_multiset", icls,
                          {"after": ev, "drained": out, "pending": st.model})
        elif any(out[i][1] > out[i + 1][1] for i in range(len(out) - 1)):
            rep.violation("C20.pq.invariant", "PriorityQueue.get", "mismatch:drain_order", icls,
                          {"after": ev, "drained": out})

    def key_of(st):
        return (canon(st.q), tuple(sorted(st.model, key=repr)))

    def on_state(st, hist):
        invariants(st, list(hist))
        if st.model:
            rep.case(("pq", key_of(st)))
        if len(hist) == 4:
            rep.sample({"pq_history": hist})
        ps = [p for _, p in st.model]
        if len(ps) != len(set(ps)):
            rep.flag("pq:tie")
        if any(math.isinf(p) for p in ps):
            rep.flag("pq:inf")
        if any(a != b and abs(a - b) <= 1e-9 * max(abs(a), abs(b)) for a in ps for b in ps if not (math.isinf(a) or math.isinf(b))):
            rep.flag("pq:close_priorities")

    res = bfs(make, lambda st: events, apply, key_of, task["depth"], on_state=on_state)
    rep.states += res["states"]
    rep.transitions += res["transitions"]
    rep.traces += res["transitions"]        # every transition = one history replayed on fresh real objects
    rep.count("pq_states", res["states"])


# ------------------------------------------------------------------------------------------------
# Priority queue: NUMBER forms of the priority (family D) and PAYLOAD forms (family E)
def _prio_alphabets():
    """name -> list of priority objects; inside one alphabet python's own mixed-type comparison is exact."""
    import numpy as np
    from fractions import Fraction as F
    from decimal import Decimal as D
    big = 2 ** 53
    return {
        "int": [0, 1, -1, 2, True],                                             # True == 1: a tie across types
        "bigint": [big, big + 1, big + 2, -big - 1, -big, 2 ** 64, 2 ** 64 + 1],  # distinct ints, equal as doubles
        "hugeint": [10 ** 400, 10 ** 400 + 1, -10 ** 400, -10 ** 400 - 1, 0, math.inf, -math.inf],   # beyond the range of a double
        "fraction": [F(1, 3), F(1, 3) + F(1, 10 ** 20), F(-1, 3), F(0), F(big + 1), F(big)],
        "decimal": [D("0.1"), D("0.1000000000000000000001"), D("-0.1"), D("0"), D("Infinity"), D("-Infinity")],
        "numpy": [np.float64(0.1), np.float32(0.1), np.int64(3), np.int32(-3), np.float64(-0.0), np.uint8(200), np.float32(np.inf)],
        "mixed": [1, 1.0, F(1), big + 1, 2.0 ** 53, F(1, 3), 1 / 3, math.inf, -math.inf],
        "extreme_float": [5e-324, 0.0, -0.0, -5e-324, 1.7976931348623157e308, -1.7976931348623157e308, math.inf, -math.inf],
    }


def _xkey(p):
    """Exact value of a priority: (-1,0) = -inf, (0, Fraction) finite, (1,0) = +inf; independent of any float rounding."""
    import numpy as np
    from fractions import Fraction as F
    from decimal import Decimal as D
    if isinstance(p, D):
        if p.is_infinite():
            return (1 if p > 0 else -1, F(0))
        if p.is_nan():
            return ("nan", repr(p))
        return (0, F(p))
    if isinstance(p, (bool, int, np.integer, np.bool_)):
        return (0, F(int(p)))
    if isinstance(p, F):
        return (0, p)
    if isinstance(p, (float, np.floating)):
        f = float(p)            # float32 -> float64 is exact
        if f != f:
            return ("nan", "nan")
        if f in (math.inf, -math.inf):
            return (1 if f > 0 else -1, F(0))
        return (0, F(f))
    return ("?", type(p).__name__ + ":" + repr(p)[:60])


class _Opaque:
    """a plain object: default identity equality, no ordering"""
    def __init__(self, tag):
        self.tag = tag

    def __repr__(self):
        return "_Opaque(%r)" % self.tag


class _Hostile:
    """an object every comparison of which raises: the queue has no business comparing payloads"""
    def __init__(self, tag):
        self.tag = tag

    def _no(self, other):
        raise TypeError("a payload was compared")
    __lt__ = __le__ = __gt__ = __ge__ = __eq__ = __ne__ = _no
    __hash__ = object.__hash__

    def __repr__(self):
        return "_Hostile(%r)" % self.tag


PAYLOAD_NAMES = ["str_a", "str_b", "int_3", "int_-1", "none", "tuple_1a", "tuple_12", "dict_1", "dict_2", "list_12", "set_1",
                 "ndarray_12", "ndarray_21", "opaque_p", "opaque_q", "hostile_p", "hostile_q", "complex", "nan",
                 "priority_item", "tuple_like_entry", "class_int", "bytes_a"]


def _payload_objects(PriorityItem):
    import numpy as np
    objs = ["a", "b", 3, -1, None, (1, "a"), (1, 2), {"k": 1}, {"k": 2}, [1, 2], {1},
            np.array([1, 2]), np.array([2, 1]), _Opaque("p"), _Opaque("q"), _Hostile("p"), _Hostile("q"), 1 + 2j, float("nan"),
            PriorityItem("z", 5.0), (0.0, "x"), int, b"a"]
    assert len(objs) == len(PAYLOAD_NAMES)
    return objs


def _payload_all_pushes():
    """push events of sub-family E1: every object at the tie priority (index 0), two objects at -1 and 1"""
    evs = [["push", j, 0] for j in range(len(PAYLOAD_NAMES))]
    for j in (PAYLOAD_NAMES.index("str_a"), PAYLOAD_NAMES.index("hostile_p")):
        evs += [["push", j, 1], ["push", j, 2]]
    return evs


def _plabel(x):
    """identity of a payload for the oracle: (type, stable repr) - never ==, never <"""
    import numpy as np
    if isinstance(x, (_Opaque, _Hostile)):
        return (type(x).__name__, x.tag)
    if isinstance(x, np.ndarray):
        return ("ndarray", x.dtype.str + repr(x.tolist()))
    if isinstance(x, float) and x != x:
        return ("float", "nan")
    if isinstance(x, dict):
        return ("dict", repr(sorted((repr(k), repr(v)) for k, v in x.items())))
    if isinstance(x, (set, frozenset)):
        return (type(x).__name__, repr(sorted(map(repr, x))))
    if type(x).__name__ == "PriorityItem":
        return ("PriorityItem", repr(getattr(x, "x", None)) + "/" + repr(getattr(x, "priority", None)))
    if isinstance(x, type):
        return ("type", x.__name__)
    return (type(x).__name__, repr(x))


def _unorderable(a, b):
    try:
        r = a < b
        bool(r)
        return False
    except Exception:
        return True


class PQFState:
    def __init__(self, PriorityQueue):
        self.q = PriorityQueue()
        self.model = []     # pending (label, exact key)
        self.objs = []      # pending payload objects, parallel to model (coverage flags only)
        self.n = 0          # pushes so far (serial payloads of family D)
        self.poisoned = False


def _run_pq_forms(task, rep: Report):
    from mouette.utils import PriorityQueue
    from mouette.utils.priority_queue import PriorityItem
    fam = task["family"]
    if fam == "prio":
        prios = _prio_alphabets()[task["alphabet"]]
        objs = None
        pushes = [("push", -1, i) for i in range(len(prios))]
        icls = "pq:prio_form:" + task["alphabet"]
        mutate_results = True
    else:
        prios = [0.0, 1.0, -1.0]
        table = _payload_objects(PriorityItem)
        if task["objs"] == "all":
            objs = table
            pushes = [tuple(e) for e in _payload_all_pushes()]
        else:
            objs = table
            pushes = [("push", j, pi) for j in task["objs"] for pi in (0, 1)]
        icls = "pq:payload_form"
        mutate_results = False
    xkeys = [_xkey(p) for p in prios]
    events = pushes + [("get",), ("pop",), ("front",), ("empty",)]
    prefix = [tuple(e) for e in task.get("prefix", [])]

    def describe(st):
        return [[list(l), str(k[1]) if k[0] == 0 else k[0]] for l, k in st.model]

    def make():
        st = PQFState(PriorityQueue)
        for e in prefix:
            apply(st, e)
        return st

    def apply(st: PQFState, ev):
        kind = ev[0]
        q = st.q
        sub, callee = "C20.pq." + kind, "PriorityQueue." + kind
        if st.poisoned:
            # a violation was reported earlier in this history: model and queue no longer correspond, anything
            # observed from here on would be an echo of that report (all such states share one key: not expanded)
            return ("poisoned",)
        nviol = sum(rep.fp_counts.values())
        obs = _apply(st, ev, kind, q, sub, callee)
        if sum(rep.fp_counts.values()) != nviol:
            st.poisoned = True
        return obs

    def _apply(st, ev, kind, q, sub, callee):
        if kind == "push":
            j, pi = ev[1], ev[2]
            x = st.n if j < 0 else objs[j]
            st.n += 1
            o = call(q.push, x, prios[pi])
            if not o.ok:
                rep.violation(sub, callee, exc_kind(o), icls, {"pushed": [list(_plabel(x)), repr(prios[pi])], "pending": describe(st), "msg": o.msg})
                obs = ("raise", o.exc)      # the item was not accepted: it is not pending
            else:
                st.model.append((_plabel(x), xkeys[pi])); st.objs.append(x)
                obs = ("ok",)
        elif kind in ("get", "pop", "front"):
            o = call((lambda: q.front) if kind == "front" else getattr(q, kind))
            if not st.model:
                if o.ok:
                    rep.violation(sub, callee, "mismatch:value_from_empty_queue", icls, {"got": repr(o.value)})
                obs = ("raise", o.exc)
            elif not o.ok:
                rep.violation(sub, callee, exc_kind(o), icls, {"pending": describe(st), "msg": o.msg})
                obs = ("raise", o.exc)
            else:
                oo = call(lambda: (_plabel(o.value.x), _xkey(o.value.priority)))
                if not oo.ok:
                    rep.violation(sub, callee, "mismatch:not_an_item", icls, {"got": repr(o.value)[:100]})
                    obs = ("ok", "?")
                else:
                    item = oo.value
                    kmin = min(k for _, k in st.model)
                    if item not in st.model:
                        rep.violation(sub, callee, "mismatch:not_pending", icls, {"got": [list(item[0]), str(item[1][1])], "pending": describe(st)})
                    elif item[1] != kmin:
                        rep.violation(sub, callee, "mismatch:not_minimum", icls, {"got": [list(item[0]), str(item[1][1])], "pending": describe(st)})
                    if kind != "front" and item in st.model:
                        i = st.model.index(item); del st.model[i]; del st.objs[i]
                    if kind != "front" and mutate_results:
                        # the caller owns what get/pop hands out
                        if call(setattr, o.value, "priority", -math.inf).ok and call(setattr, o.value, "x", "mutated").ok:
                            rep.count("pq_results_mutated")
                    obs = ("ok", item)
        else:
            o = call(q.empty)
            if not o.ok:
                rep.violation(sub, callee, exc_kind(o), icls, {})
            elif bool(o.value) != (not st.model):
                rep.violation(sub, callee, "mismatch:empty", icls, {"got": o.value, "pending": describe(st)})
            obs = ("ok", bool(o.value) if o.ok else None)
        rep.outcome("pqf:" + kind, obs)
        return obs

    def invariants(st, ev):
        q = st.q
        rep.evaluations += 1
        o = call(q.empty)
        if o.ok and bool(o.value) != (not st.model):
            rep.violation("C20.pq.invariant", "PriorityQueue.empty", "mismatch:empty", icls, {"after": ev, "pending": describe(st)})
        qc = copy.deepcopy(q)
        out = []
        for _ in range(len(st.model) + 2):
            oe = call(qc.empty)
            if oe.ok and oe.value:
                break
            og = call(qc.get)
            if not og.ok:
                rep.violation("C20.pq.invariant", "PriorityQueue.get", exc_kind(og), icls, {"after": ev, "pending": describe(st), "msg": og.msg})
                return
            oo = call(lambda: (_plabel(og.value.x), _xkey(og.value.priority)))
            out.append(oo.value if oo.ok else (("?", "?"), ("?", "?")))
        if sorted(out, key=repr) != sorted(st.model, key=repr):
            rep.violation("C20.pq.invariant", "PriorityQueue.get", "mismatch:drain_multiset", icls,
                          {"after": ev, "drained": [[list(l), str(k[1])] for l, k in out], "pending": describe(st)})
        elif any(out[i][1] > out[i + 1][1] for i in range(len(out) - 1)):
            rep.violation("C20.pq.invariant", "PriorityQueue.get", "mismatch:drain_order", icls,
                          {"after": ev, "drained": [[list(l), str(k[1])] for l, k in out]})

    def key_of(st):
        if st.poisoned:
            return ("poisoned",)
        return (canon(st.q), tuple(sorted(st.model, key=repr)))

    def on_state(st, hist):
        if st.poisoned:
            return
        invariants(st, [list(e) for e in hist])
        if st.model:
            rep.case(("pqf", fam, task.get("alphabet"), key_of(st)))
        if len(hist) == 3:
            rep.sample({"pq_forms": fam, "alphabet": task.get("alphabet"), "history": [list(e) for e in hist]})
        ks = [k for _, k in st.model]
        if fam == "prio":
            fin = [k[1] for k in ks if k[0] == 0]
            if len(ks) != len(set(ks)):
                rep.flag("pqf:prio:tie")
            if any(a != b and float(a) == float(b) for a in fin for b in fin if abs(a) < 10 ** 300 and abs(b) < 10 ** 300):
                rep.flag("pqf:prio:distinct_values_equal_as_doubles")
            if any(abs(a) > 10 ** 309 for a in fin):
                rep.flag("pqf:prio:beyond_double_range")
        else:
            for i in range(len(ks)):
                for j in range(i + 1, len(ks)):
                    if st.model[i][0] != st.model[j][0] and _unorderable(st.objs[i], st.objs[j]):
                        rep.flag("pqf:payload:unorderable_pair_pending")
                        if ks[i] == ks[j]:
                            rep.flag("pqf:payload:unorderable_tie")

    res = bfs(make, lambda st: events, apply, key_of, task["depth"], on_state=on_state)
    rep.states += res["states"]
    rep.transitions += res["transitions"]
    rep.traces += res["transitions"]
    rep.count("pqf_states:" + fam, res["states"])
    if fam == "prio":
        rep.flag("pqf:prio_form:" + task["alphabet"])
    elif task["objs"] == "all":
        rep.flag("pqf:payload:all_objects")
    else:
        rep.count("pqf_payload_pairs")


# ------------------------------------------------------------------------------------------------
# Family L: large / long specimens
UF_LARGE_PATTERNS = ["chain_fwd", "chain_bwd", "star_in", "star_out", "binomial", "two_interleaved", "blocks_of_7"]
PQ_LARGE_PATTERNS = ["ascending", "descending", "all_equal", "organ_pipe", "alternating_sign", "sawtooth7", "tenths"]


def _uf_large_schedule(pat, n):
    """list of (i, j) index pairs: union(e_i, e_j) in this order"""
    if pat == "chain_fwd":
        return [(i, i + 1) for i in range(n - 1)]
    if pat == "chain_bwd":
        return [(i + 1, i) for i in range(n - 2, -1, -1)]
    if pat == "star_in":
        return [(i, 0) for i in range(1, n)]
    if pat == "star_out":
        return [(0, i) for i in range(1, n)]
    if pat == "binomial":              # equal-size merges: the deepest forest weighted union can build; argument order alternates
        out, s, r = [], 1, 0
        while s < n:
            for i in range(0, n - s, 2 * s):
                out.append((i, i + s) if r % 2 else (i + s, i))
            s *= 2; r += 1
        return out
    if pat == "two_interleaved":       # two components whose members alternate in the numbering
        return [(i, i + 2) for i in range(n - 2)]
    if pat == "blocks_of_7":           # many small components, the last one incomplete, one self-union per block
        out = []
        for b in range(0, n, 7):
            out.append((b, b))
            out += [(j, b) if j % 2 else (b, j) for j in range(b + 1, min(b + 7, n))]
        return out
    raise AssertionError(pat)


def _run_large_uf(task, rep: Report):
    from mouette.utils import UnionFind
    n, pat = task["n"], task["pattern"]
    elts = [1000 + 3 * i for i in range(n)] if task["elements"] == "int_offset" else ["v%d" % i for i in range(n)]
    icls = "uf:large:n=%d" % n
    sched = _uf_large_schedule(pat, n)
    prefilled = UF_LARGE_PATTERNS.index(pat) % 2 == 0          # rotation: elements given to the constructor / introduced by union()
    uf = UnionFind(list(elts)) if prefilled else UnionFind()
    # model: block id per element + member lists, smaller list relabelled (written apart from the library: no forest)
    block = {}
    members = {}
    order = []

    def m_add(e):
        if e not in block:
            block[e] = len(order); members[block[e]] = [e]; order.append(e)
    if prefilled:
        for e in elts:
            m_add(e)
    full = n <= 300
    marks = {len(sched) // 3, 2 * len(sched) // 3, len(sched)}

    def bad(sub, callee, kind, detail):
        rep.violation("C20.uf." + sub, "UnionFind." + callee, kind, icls, dict(detail, pattern=pat, elements=task["elements"], prefilled=prefilled))

    def check(k):
        rep.evaluations += 1
        N = len(order)
        nb = len(members)
        u = copy.deepcopy(uf)
        if u.n_elts != N or len(u) != N:
            bad("counts", "n_elts", "mismatch:n_elts", {"unions": k, "got": u.n_elts, "want": N})
        if u.n_comps != nb:
            bad("counts", "n_comps", "mismatch:n_comps", {"unions": k, "got": u.n_comps, "want": nb})
        o = call(u.roots)
        if not o.ok:
            bad("roots", "roots", exc_kind(o), {"unions": k, "msg": o.msg})
        elif len(o.value) != nb:
            bad("roots", "roots", "mismatch:n_roots", {"unions": k, "got": len(o.value), "want": nb})
        u = copy.deepcopy(uf)
        o = call(u.components)
        want_part = sorted(sorted(map(repr, m)) for m in members.values())
        if not o.ok:
            bad("components", "components", exc_kind(o), {"unions": k, "msg": o.msg})
        else:
            got = sorted(sorted(repr(_norm_elt(e)) for e in c) for c in o.value)
            if sum(len(c) for c in got) != N or got != want_part:
                bad("components", "components", "mismatch:partition", {"unions": k, "n_listed": sum(len(c) for c in got), "n_blocks_listed": len(got)})
        u = copy.deepcopy(uf)
        o = call(u.component_mapping)
        if not o.ok:
            bad("component_mapping", "component_mapping", exc_kind(o), {"unions": k, "msg": o.msg})
        else:
            okm = len(o.value) == N
            if okm:
                for e in order:
                    c = o.value.get(e)
                    if c is None or len(c) != len(members[block[e]]) or set(_norm_elt(x) for x in c) != set(members[block[e]]):
                        okm = False; break
            if not okm:
                bad("component_mapping", "component_mapping", "mismatch:mapping", {"unions": k, "n_keys": len(o.value)})
        # connected / component: all pairs up to n = 300, otherwise neighbours, mirror pairs and a stride
        u = copy.deepcopy(uf)
        if full:
            pairs = [(a, b) for a in range(N) for b in range(N)]
            comp_of = range(N)
        else:
            pairs = [(a, a + 1) for a in range(N - 1)] + [(a, N - 1 - a) for a in range(N)] + [(a, (a * 97 + 13) % N) for a in range(N)]
            comp_of = range(0, N, 61)
        for a, b in pairs:
            o = call(u.connected, order[a], order[b])
            want = block[order[a]] == block[order[b]]
            if not o.ok:
                bad("connected", "connected", exc_kind(o), {"unions": k, "x": a, "y": b}); break
            if bool(o.value) != want:
                bad("connected", "connected", "mismatch:connected", {"unions": k, "x": a, "y": b, "got": repr(o.value)}); break
        for a in comp_of:
            u = copy.deepcopy(uf) if not full or a % 25 == 0 else u
            o = call(u.component, order[a])
            if not o.ok:
                bad("component", "component", exc_kind(o), {"unions": k, "x": a, "msg": o.msg}); break
            if set(_norm_elt(x) for x in o.value) != set(members[block[order[a]]]):
                bad("component", "component", "mismatch:component", {"unions": k, "x": a, "got_size": len(o.value)}); break
            if (order[a] in u) is not True:
                bad("contains", "__contains__", "mismatch:contains", {"unions": k, "x": a}); break
        o = call(u.find, "absent" if task["elements"] == "str" else -5)
        if o.ok:
            bad("event.find", "find", "mismatch:should_raise", {"unions": k})

    for k, (i, j) in enumerate(sched, 1):
        x, y = elts[i], elts[j]
        o = call(uf.union, x, y)
        m_add(x); m_add(y)
        bx, by = block[x], block[y]
        if bx != by:
            if len(members[bx]) < len(members[by]):
                bx, by = by, bx
            for e in members[by]:
                block[e] = bx
            members[bx] += members.pop(by)
        if not o.ok:
            bad("event.union", "union", exc_kind(o), {"unions": k, "msg": o.msg})
            return
        if k in marks:
            check(k)
    rep.states += len(marks); rep.transitions += len(sched); rep.traces += 1
    rep.case(("uf_large", pat, n, task["elements"]))
    rep.count("uf_large_runs")
    if len(order) > 1500:
        rep.flag("uf:long>=1500")
    if max(_depths(uf)) >= 5:
        rep.flag("uf:large:forest_depth>=5")
    if len(members) > 1 and len(order) > 256:
        rep.flag("uf:large:several_blocks_ids>256")


def _pq_large_priority(pat, i, n):
    if pat == "ascending":
        return float(i)
    if pat == "descending":
        return float(n - i)
    if pat == "all_equal":
        return 0.0
    if pat == "organ_pipe":
        return float(min(i, n - 1 - i))
    if pat == "alternating_sign":
        return float(i if i % 2 else -i)
    if pat == "sawtooth7":
        return i % 7                    # an int: many ties
    if pat == "tenths":
        return ((i * 37) % n) * 0.1     # a permutation of the multiples of 0.1 (rounded products: ordered like the integers)
    raise AssertionError(pat)


def _run_large_pq(task, rep: Report):
    import bisect
    from mouette.utils import PriorityQueue
    n, pat, schedule = task["n"], task["pattern"], task["schedule"]
    icls = "pq:large:n=%d" % n
    q = PriorityQueue()
    pend = {}          # serial -> priority
    keys = []          # sorted list of pending priorities (bisect: no heap in the oracle)
    handed = 0

    def bad(sub, callee, kind, detail):
        rep.violation("C20.pq." + sub, "PriorityQueue." + callee, kind, icls, dict(detail, pattern=pat, schedule=schedule))

    def push(i):
        p = _pq_large_priority(pat, i, n)
        o = call(q.push, i, p)
        if not o.ok:
            bad("push", "push", exc_kind(o), {"serial": i, "msg": o.msg}); return False
        pend[i] = p; bisect.insort(keys, p)
        return True

    def take(kind):
        nonlocal handed
        fr = call(lambda: q.front)
        o = call(getattr(q, kind))
        rep.evaluations += 1
        if not o.ok:
            bad(kind, kind, exc_kind(o), {"pending": len(pend), "msg": o.msg}); return False
        oo = call(lambda: (o.value.x, o.value.priority))
        if not oo.ok:
            bad(kind, kind, "mismatch:not_an_item", {"got": repr(o.value)[:80]}); return False
        x, pr = oo.value
        if fr.ok and fr.value is not o.value and (fr.value.x, fr.value.priority) != (x, pr):
            bad("front", "front", "mismatch:front_differs_from_next_get", {"front": repr(fr.value)[:80], "get": repr(o.value)[:80]}); return False
        if not isinstance(x, int) or x not in pend or pend[x] != pr:
            bad(kind, kind, "mismatch:not_pending", {"got": [repr(x), repr(pr)], "pending": len(pend)}); return False
        if pr != keys[0]:
            bad(kind, kind, "mismatch:not_minimum", {"got": [repr(x), repr(pr)], "minimum": repr(keys[0]), "pending": len(pend)}); return False
        del pend[x]; keys.pop(0)
        handed += 1
        if bool(q.empty()) != (not pend):
            bad("empty", "empty", "mismatch:empty", {"pending": len(pend)}); return False
        return True

    ok = True
    if schedule == "fill_then_drain":
        for i in range(n):
            ok = ok and push(i)
        t = 0
        while ok and pend:
            ok = take("get" if t % 2 == 0 else "pop"); t += 1
    else:
        t = 0
        for i in range(0, n, 2):
            ok = ok and push(i) and (i + 1 >= n or push(i + 1))
            if not ok:
                break
            ok = take("get" if t % 2 == 0 else "pop"); t += 1
        while ok and pend:
            ok = take("get" if t % 2 == 0 else "pop"); t += 1
    if ok:
        if handed != n:
            bad("invariant", "get", "mismatch:drain_multiset", {"handed": handed, "pushed": n})
        o = call(q.get)
        if o.ok:
            bad("get", "get", "mismatch:value_from_empty_queue", {"got": repr(o.value)[:80]})
        if not q.empty():
            bad("empty", "empty", "mismatch:empty", {"pending": 0})
    rep.states += 1; rep.transitions += 2 * n; rep.traces += 1
    rep.case(("pq_large", pat, n, schedule))
    rep.count("pq_large_runs")
    if n >= 1500:
        rep.flag("pq:long>=1500")


def run_task(task, rep: Report):
    # events carry lists after the JSON round trip; normalise elements to hashables
    if task["kind"] == "uf":
        _run_uf(task, rep)
    elif task["kind"] == "pqf":
        _run_pq_forms(task, rep)
    elif task["kind"] == "large":
        (_run_large_uf if task["what"] == "uf" else _run_large_pq)(task, rep)
    else:
        _run_pq(task, rep)


def finish(tier, rep: Report):
    fails = []
    for f in ("uf:nontrivial-block", "uf:absent-element-added", "uf:forest_depth>=3", "pq:tie", "pq:inf", "pq:close_priorities"):
        if f not in rep.flags:
            fails.append("coverage flag missing: " + f)
    for kind in ("find", "connected", "get", "empty", "in", "pqf:get", "pqf:pop", "pqf:front", "pqf:empty"):
        if len(rep.outcomes.get(kind, ())) < 2:
            fails.append(f"event kind {kind} produced a single outcome")
    # the deviation families were really run
    for form in INIT_FORMS:
        if "uf:initform:" + form not in rep.flags:
            fails.append("constructor form not run: " + form)
    if rep.counters.get("uf_results_wrecked", 0) < 100:
        fails.append("returned containers were not wrecked")
    for name in _prio_alphabets():
        if "pqf:prio_form:" + name not in rep.flags:
            fails.append("priority number form not run: " + name)
    for f in ("pqf:prio:tie", "pqf:prio:distinct_values_equal_as_doubles", "pqf:prio:beyond_double_range",
              "pqf:payload:all_objects", "pqf:payload:unorderable_pair_pending", "pqf:payload:unorderable_tie"):
        if f not in rep.flags:
            fails.append("coverage flag missing: " + f)
    if rep.counters.get("pq_results_mutated", 0) < 100:
        fails.append("items handed out by get/pop were not mutated")
    nsz = {"quick": 2, "thorough": 3}[tier]
    if rep.counters.get("uf_large_runs", 0) != nsz * len(UF_LARGE_PATTERNS) * 2:
        fails.append("large union-find specimens run: %d" % rep.counters.get("uf_large_runs", 0))
    if rep.counters.get("pq_large_runs", 0) != nsz * len(PQ_LARGE_PATTERNS) * 2:
        fails.append("large queue specimens run: %d" % rep.counters.get("pq_large_runs", 0))
    for f in ("uf:long>=1500", "uf:large:forest_depth>=5", "uf:large:several_blocks_ids>256", "pq:long>=1500"):
        if f not in rep.flags:
            fails.append("coverage flag missing: " + f)
    n = len(PAYLOAD_NAMES)
    want_pairs = n if tier == "quick" else n * (n - 1) // 2
    if rep.counters.get("pqf_payload_pairs", 0) != want_pairs:
        fails.append(f"payload pairs run: {rep.counters.get('pqf_payload_pairs', 0)}, expected {want_pairs}")
    return fails
